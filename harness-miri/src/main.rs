//! Miri tier of C03 (and of the memory/data-race guarantees under it): the in-memory concurrent
//! scenarios on plain OS threads, interpreted by Miri (`-Zmiri-many-seeds` supplies distinct
//! preemptive schedules; data races and undefined behaviour in `core` and its pure-Rust
//! dependencies abort the run). The same order-based linearizability oracle as the stress tier
//! decides the behavioural verdict.
//!
//! usage: verif-miri <seed> <threads> <ops-per-thread>
//! exit 0 held, exit 1 + "VIOLATION-DETAIL ..." on a behavioural violation.
#![allow(dead_code)]
#[path = "../../harness/src/prng.rs"]
mod prng;

use prng::Rng;
use std::collections::HashMap;
use std::sync::atomic::{AtomicU64, Ordering};
use std::sync::{Arc, Mutex};
use taskchampion_sync_server_core::{AddVersionResult, GetVersionResult, InMemoryStorage, Server, ServerConfig, ServerError, Storage, NIL_VERSION_ID};
use uuid::Uuid;

#[derive(Clone, Debug)]
enum Op {
    Add { parent: Uuid, data: Vec<u8> },
    Get { parent: Uuid },
    Snap { vid: Uuid, data: Vec<u8> },
    GetSnap,
}

#[derive(Clone, Debug)]
enum Out {
    AddOk(Uuid),
    Conflict(Uuid),
    Found(Uuid, Uuid, Vec<u8>),
    NotFound,
    Gone,
    SnapOk,
    Snap(Uuid, Vec<u8>),
    NoSnap,
    NoClient,
    Error(String),
}

#[derive(Clone, Debug)]
struct Rec {
    thread: usize,
    op: Op,
    out: Out,
    inv: u64,
    ret: u64,
}

fn exec(server: &Server, client: Uuid, op: &Op) -> Out {
    match op {
        Op::Add { parent, data } => loop {
            match server.add_version(client, *parent, data.clone()) {
                Ok((AddVersionResult::Ok(v), _)) => return Out::AddOk(v),
                Ok((AddVersionResult::ExpectedParentVersion(e), _)) => return Out::Conflict(e),
                Err(ServerError::NoSuchClient) => {
                    // documented create-then-add (check inside the creating transaction)
                    let r: Result<(), String> = (|| {
                        let mut t = server.txn(client).map_err(|e| e.to_string())?;
                        if t.get_client().map_err(|e| e.to_string())?.is_none() {
                            t.new_client(NIL_VERSION_ID).map_err(|e| e.to_string())?;
                            t.commit().map_err(|e| e.to_string())?;
                        }
                        Ok(())
                    })();
                    if let Err(e) = r {
                        return Out::Error(e);
                    }
                }
                Err(e) => return Out::Error(e.to_string()),
            }
        },
        Op::Get { parent } => match server.get_child_version(client, *parent) {
            Ok(GetVersionResult::Success { version_id, parent_version_id, history_segment }) => Out::Found(version_id, parent_version_id, history_segment),
            Ok(GetVersionResult::NotFound) => Out::NotFound,
            Ok(GetVersionResult::Gone) => Out::Gone,
            Err(ServerError::NoSuchClient) => Out::NoClient,
            Err(e) => Out::Error(e.to_string()),
        },
        Op::Snap { vid, data } => match server.add_snapshot(client, *vid, data.clone()) {
            Ok(()) => Out::SnapOk,
            Err(ServerError::NoSuchClient) => Out::NoClient,
            Err(e) => Out::Error(e.to_string()),
        },
        Op::GetSnap => match server.get_snapshot(client) {
            Ok(Some((v, d))) => Out::Snap(v, d),
            Ok(None) => Out::NoSnap,
            Err(ServerError::NoSuchClient) => Out::NoClient,
            Err(e) => Out::Error(e.to_string()),
        },
    }
}

fn main() {
    let args: Vec<String> = std::env::args().collect();
    let seed: u64 = args.get(1).and_then(|s| s.parse().ok()).unwrap_or(1);
    let threads: usize = args.get(2).and_then(|s| s.parse().ok()).unwrap_or(3);
    let ops: usize = args.get(3).and_then(|s| s.parse().ok()).unwrap_or(6);
    let storage = Arc::new(InMemoryStorage::new());
    let server = Arc::new(Server::new(ServerConfig { snapshot_days: 14, snapshot_versions: 100 }, Delegate(storage.clone())));
    let client = Rng::new(seed).uuid();
    let clock = Arc::new(AtomicU64::new(0));
    let latest = Arc::new(Mutex::new(Uuid::nil()));
    let recs: Arc<Mutex<Vec<Rec>>> = Arc::new(Mutex::new(vec![]));
    let mut hs = vec![];
    for t in 0..threads {
        let (server, clock, latest, recs) = (server.clone(), clock.clone(), latest.clone(), recs.clone());
        hs.push(std::thread::spawn(move || {
            let mut rng = Rng::new(seed).fork(t as u64 + 100);
            for i in 0..ops {
                let l = *latest.lock().unwrap();
                let op = match rng.weighted(&[55, 20, 15, 10]) {
                    0 => Op::Add { parent: l, data: format!("t{t}-{i}").into_bytes() },
                    1 => Op::Get { parent: l },
                    2 => Op::Snap { vid: l, data: format!("s{t}-{i}").into_bytes() },
                    _ => Op::GetSnap,
                };
                let inv = clock.fetch_add(1, Ordering::SeqCst);
                let out = exec(&server, client, &op);
                let ret = clock.fetch_add(1, Ordering::SeqCst);
                match &out {
                    Out::AddOk(v) => *latest.lock().unwrap() = *v,
                    Out::Conflict(e) => *latest.lock().unwrap() = *e,
                    _ => {}
                }
                recs.lock().unwrap().push(Rec { thread: t, op, out, inv, ret });
            }
        }));
    }
    for h in hs {
        h.join().unwrap();
    }
    // final chain
    let mut chain: Vec<(Uuid, Uuid)> = vec![];
    {
        let mut t = storage.txn(client).unwrap();
        if let Some(c) = t.get_client().unwrap() {
            let mut cur = c.latest_version_id;
            while !cur.is_nil() {
                match t.get_version(cur).unwrap() {
                    Some(v) => {
                        chain.push((v.version_id, v.parent_version_id));
                        cur = v.parent_version_id;
                    }
                    None => break,
                }
            }
        }
    }
    chain.reverse();
    let recs = recs.lock().unwrap().clone();
    let overlaps = recs.iter().enumerate().map(|(i, a)| recs.iter().skip(i + 1).filter(|b| a.inv < b.ret && b.inv < a.ret).count()).sum::<usize>();
    match check(&recs, &chain) {
        Ok(()) => {
            println!("MIRI-RUN seed={seed} threads={threads} ops={} accepted={} overlapping_pairs={overlaps} verdict=held", recs.len(), chain.len());
        }
        Err(m) => {
            println!("VIOLATION-DETAIL seed={seed} {m}");
            std::process::exit(1);
        }
    }
}

struct Delegate(Arc<InMemoryStorage>);
impl Storage for Delegate {
    fn txn(&self, client_id: Uuid) -> anyhow_result::Result<Box<dyn taskchampion_sync_server_core::StorageTxn + '_>> {
        self.0.txn(client_id)
    }
}

fn check(recs: &[Rec], chain: &[(Uuid, Uuid)]) -> Result<(), String> {
    let pos: HashMap<Uuid, usize> = chain.iter().enumerate().map(|(i, (v, _))| (*v, i)).collect();
    let mut created: HashMap<Uuid, (u64, u64)> = HashMap::new();
    let mut by_parent: HashMap<Uuid, Vec<Uuid>> = HashMap::new();
    let mut uploads: Vec<(Uuid, Vec<u8>, u64)> = vec![];
    for r in recs {
        if let Out::Error(e) = &r.out {
            return Err(format!("a request was answered with an error under overlap: {e}"));
        }
        if let (Op::Add { parent, .. }, Out::AddOk(v)) = (&r.op, &r.out) {
            created.insert(*v, (r.inv, r.ret));
            by_parent.entry(*parent).or_default().push(*v);
        }
        if let Op::Snap { vid, data } = &r.op {
            uploads.push((*vid, data.clone(), r.inv));
        }
    }
    for (p, vs) in &by_parent {
        if vs.len() > 1 {
            return Err(format!("{} AddVersion requests accepted on parent {p}", vs.len()));
        }
    }
    for v in created.keys() {
        if !pos.contains_key(v) {
            return Err(format!("accepted version {v} is not on the final chain"));
        }
    }
    for i in 1..chain.len() {
        if chain[i].1 != chain[i - 1].0 {
            return Err(format!("final chain not linked at {i}"));
        }
    }
    for r in recs {
        match (&r.op, &r.out) {
            (Op::Add { parent, .. }, Out::AddOk(v)) => {
                let i = pos[v];
                if chain[i].1 != *parent {
                    return Err(format!("version {v} stored with another parent"));
                }
                for (w, (_, wret)) in &created {
                    if *wret < r.inv && pos.get(w).map(|p| *p > i).unwrap_or(false) {
                        return Err(format!("{w} acknowledged before {v} was requested but follows it"));
                    }
                }
            }
            (Op::Add { .. }, Out::Conflict(e)) => {
                if let Some(pe) = pos.get(e) {
                    for (w, (_, wret)) in &created {
                        if *wret < r.inv && pos.get(w).map(|p| p > pe).unwrap_or(false) {
                            return Err(format!("conflict named {e} although {w} was acknowledged earlier and follows it"));
                        }
                    }
                }
            }
            (Op::Get { parent }, Out::Found(v, p2, _)) => {
                if p2 != parent || pos.get(v).map(|i| chain[*i].1 != *parent).unwrap_or(true) {
                    return Err(format!("GetChildVersion({parent}) returned {v} which is not its child on the final chain"));
                }
            }
            (Op::Get { parent }, Out::NotFound) => {
                if let Some(i) = pos.get(parent) {
                    if let Some((child, _)) = chain.get(i + 1) {
                        if let Some((_, cret)) = created.get(child) {
                            if *cret < r.inv {
                                return Err(format!("not-found for {parent} although its child was acknowledged before the read"));
                            }
                        }
                    }
                }
            }
            (Op::GetSnap, Out::Snap(v, d)) => {
                if !uploads.iter().any(|(uv, ud, uinv)| uv == v && ud == d && *uinv < r.ret) {
                    return Err(format!("GetSnapshot returned a pair (v={v}) that no earlier AddSnapshot uploaded"));
                }
            }
            _ => {}
        }
    }
    Ok(())
}

mod anyhow_result {
    pub type Result<T> = std::result::Result<T, anyhow::Error>;
}
