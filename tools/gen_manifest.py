#!/usr/bin/env python3
"""Regenerates /verif/MANIFEST.json from the table below (kept in one place so that the manifest
is always valid and consistent with the checks that exist)."""
import json, sys
props = [json.loads(l) for l in open('/verif/properties.jsonl')]
ids = [p['id'] for p in props]

E1 = "E1 sequential histories on real subjects (mem/sqlite x library/HTTP/socket/real executable; reopen, kill -9 restart, two instances on one directory, allow-listed re-created servers) with observational monitors"
TB = "Trusted: the harness's tracker/oracles (written from the property statements), the Rust toolchain, SQLite. Ids are random and bound at first observation; freshness judged within one run. E1 histories are sequential; the concurrent parts named in the level text reuse the C03 explorer / stress engines."

checks = {
 "C01": dict(cat="exploration", tech="runtime monitoring: chain-walk monitor over generated adversarial histories + raw-SQL fork/orphan scan", ref="DESIGN.md §7 C01",
   text="After every operation of generated multi-client histories (adversarial ids, nil/non-nil base, reopen) on 5 subjects, every client's chain is walked through the subject's own entry point and compared with the order of accepted AddVersion responses; SQLite rows are scanned for forks and unreachable versions. Holds on the executions observed (hundreds of histories quick, thousands thorough); not a proof."),
 "C02": dict(cat="exploration", tech="runtime monitoring: acceptance-rule oracle on observed chain, read-back, id freshness, state-dump framing; exhaustive small scope + random histories", ref="DESIGN.md §7 C02",
   text="Every AddVersion (exhaustive small scope: chain length 0..5/8 x base x snapshot x every class of parent; plus random histories incl. re-sent versions) is judged against the compare-and-append rule on the observed chain; accepted ones are read back byte-for-byte and checked fresh/latest, rejected ones must name the latest and leave a full state dump unchanged."),
 "C07": dict(cat="exploration", tech="runtime monitoring: immutability ledger re-read after every later operation and reopen", ref="DESIGN.md §7 C07",
   text="A ledger of every accepted (version, parent, payload) is re-read through GetChildVersion after later operations (a third after each op, all every 10 ops, after each reopen, at the end), across snapshots, rejected requests, other clients and reopen, incl. 500-2000-op histories; plus multi-threaded stress runs after which every acknowledged version must still be served unchanged."),
 "C08": dict(cat="exploration", tech="runtime monitoring: paired-probe oracle GetChildVersion(p);AddVersion(p) on one state; exhaustive small scope + random", ref="DESIGN.md §7 C08",
   text="GetChildVersion(p) immediately followed by AddVersion(p) on the same state: found iff an accepted child exists, not-found iff the add is accepted, gone iff rejected; exhaustive over chain length x base x snapshot x class of p, plus random histories; never-seen clients answered not-found."),
 "C09": dict(cat="exploration", tech="runtime monitoring: two-run non-interference (projection re-run alone; sequentially interleaved and with the clients acting at the same time on threads) + per-operation dumps of all other clients", ref="DESIGN.md §7 C09",
   text="Each multi-client history is run in full and then projected onto each client and re-run alone with foreign ids kept concrete; responses must agree one-to-one; in the full run each operation must leave every other client's dump (and their SQL rows) unchanged. Half the histories are aligned to make a missing client filter hit. Concurrent part: 3-5 clients on one thread each (shared server, per-thread servers on one SQLite directory, sockets) compared with each client's solo run; two clients' uploads interleaving on one server worker keep their own bytes."),
 "C10": dict(cat="exploration", tech="runtime monitoring: window-predicate oracle on observed chain/snapshot, decline framing by state dumps, monotone position; exhaustive small scope + random bursts", ref="DESIGN.md §7 C10",
   text="Every AddSnapshot is judged by the five-version window predicate evaluated on the observed state (exhaustive: chain length 0..6/8 x base x snapshot position x class of v; random bursts); declines must leave the full dump unchanged; snapshot position never moves backwards; the unspecified corner (v == non-nil base) is tolerated and tallied."),
 "C11": dict(cat="exploration", tech="runtime monitoring: snapshot pairing oracle (distinct bytes per upload) + walk from snapshot to latest after every AddVersion/AddSnapshot", ref="DESIGN.md §7 C11",
   text="After every AddVersion/AddSnapshot the snapshot is fetched: it must be the previously returned pair or exactly the pair just uploaded, never a mix or a stale one, and the walk from its id must reach the latest without gone. Concurrent part: all E2 scenarios containing AddSnapshot on an existing chain under the controlled scheduler with the differential linearizability oracle."),
 "C12": dict(cat="exploration", tech="runtime monitoring: exact-arithmetic urgency oracle and versions-since counter monitor over real histories", ref="DESIGN.md §7 C12",
   text="For real histories on both backends (incl. reopen) the stored versions-since counter must equal the number of versions accepted since the snapshot was stored and each accepted AddVersion's urgency must equal the wide-integer specification for (targets, age, since); planted threshold sweeps for generated configurations run on both backends, both entries and against the real executable configured on its command line."),
 "C13": dict(cat="exploration", tech="runtime monitoring: lock-step differential execution (in-memory vs SQLite vs SQLite reopened at 10/50/100% of gaps)", ref="DESIGN.md §7 C13",
   text="Identical symbolic histories run on in-memory, SQLite and SQLite reopened at random gaps; responses (abstracted by id role) and the client record after every operation must agree within the same entry point."),
 "C14": dict(cat="exploration", tech="runtime monitoring: HTTP decode-table oracle against a library twin + same-storage id/body cross-check", ref="DESIGN.md §7 C14",
   text="Every operation runs through the HTTP handlers and through the library on twin storages; status, id headers, X-Snapshot-Request, content type, body and absent headers are checked against the decode-table row of the twin's outcome, ids and bytes against the handler's own storage; every table row must be observed."),
 "C18": dict(cat="exploration", tech="runtime monitoring: full state dump (trait closure + all SQL rows) before/after every non-mutating outcome", ref="DESIGN.md §7 C18",
   text="Complete dumps of all clients around every GetChildVersion, GetSnapshot, conflicting AddVersion and declined AddSnapshot on both backends and both entries; any difference is a violation."),
}
checks.update({
 "C15": dict(cat="exploration", tech="runtime monitoring: request-grammar enumeration with status/state-dump oracle (in-process actix service, exact chunk control)", ref="DESIGN.md §7 C15",
   text="Grammar product route x method x client-id form x path-id form x content-type form x body class against servers with non-trivial state on both backends: never 5xx/panic, state (full dump) changes only on a 200 POST to an add route, must-refuse classes get 4xx with unchanged state; 100 MiB limit: limit-1/limit accepted and read back, limit+1 (one chunk, many chunks, limit then one byte) refused.",
   note="Trusted: the request classification (written from the statement; forms the statement leaves open are 'ambiguous' and only the universal rules apply), in-process delivery through actix's test request type (raw-socket framing is exercised by the socket engines)."),
 "C16": dict(cat="exploration", tech="runtime monitoring: enumerated allow-list matrix with storage AccessLog wrapper (zero txn() calls on refusal) and list-less twin comparison", ref="DESIGN.md §7 C16",
   text="Allow-list {absent, empty, one, many} x 4 endpoints x id class (listed, unlisted with pre-existing data, unknown, malformed, alternative spellings) x validity on both backends: unlisted => 403 (4xx when doubly bad) with zero storage accesses observed at the Storage trait and unchanged dumps; allowed requests and whole listed-client histories answered exactly as on a list-less twin. Unlisted ids include ids bit-wise related to a listed one, ids under other header names, alternative spellings; path ids include the nil id.",
   note="Trusted: AccessLog wrapper at the public Storage trait boundary; alternative spellings of a listed id may be refused or served as that client."),
 "C20": dict(cat="exploration", tech="runtime monitoring: response tap asserting Cache-Control no-store on every response of the grammar run, protocol histories and forced 5xx", ref="DESIGN.md §7 C20",
   text="A tap in the HTTP client layer inspects every response produced by the request grammar (all routes, methods, refusals, unknown routes), by protocol histories (200/404/409/410) and by a storage failing on purpose (500); each must carry Cache-Control with no-store; the run must have observed 200/400/404/409/410/500 and unknown routes. Also CORS preflights, well-known operational paths, HTTP/1.0 requests, and the real executable (with debug logging; healthy and with its data directory removed).",
   note="Scope: responses generated by the application service; replies actix's HTTP/1 codec emits before routing (syntactically invalid HTTP) never reach the application and are not judged."),
})
checks.update({
 "C03": dict(cat="exploration", tech="runtime monitoring: controlled scheduler at the Storage-trait boundary (DFS over transaction orders + one-preemption and random schedules + real-lock probes; requests that never complete are detected) with a differential linearizability oracle", ref="DESIGN.md §6 E2, §7 C03",
   text="2-3 worker threads run real requests (library and HTTP handlers) against one shared storage (in-memory, one SQLite object, one SQLite object per worker on one directory) under a controller that grants one worker at a time at every storage call, transaction begin and request invoke/return. All begin orders exclusive locking permits are enumerated per scenario (capped in quick), plus sampled schedules: one-preemption schedules (a worker set aside after k steps while the others run to completion) and random ones that begin a transaction while another is open so the backend's own lock/busy handler is exercised; a worker that waits for anything a suspended worker holds is detected by a timer and scheduled around. An execution is accepted iff some real-time-respecting one-at-a-time order of the same requests, executed by the same code on a fresh storage, gives the same responses and final state; any server error under overlap is a violation. One recorded finding (two-step client creation observable through AddSnapshot) is matched by signature and printed as KNOWN-FINDING. Uncontrolled tiers: stress on threads / per-thread SQLite objects / sockets / two real server processes with an order-based checker, two uploads of one client whose bodies interleave on one server worker, and (thorough) the in-memory workload under Miri.",
   note="Bounded: 2-3 requests, yield points at storage-call granularity; interleavings inside SQLite and between processes are left to the stress tier. The sequential reference is the code itself (differential), so a purely sequential defect is not attributed to C03."),
})
checks.update({
 "C05": dict(cat="fault_enumeration", tech="runtime monitoring: exhaustive fault injection at the StorageTxn boundary (every call of every request, fail-before / fail-after) with error/no-partial-effect/lock-release oracle on restored directory images", ref="DESIGN.md §7 C05",
   text="For every request of generated histories on SQLite (library and HTTP handlers, incl. the create-client-and-retry path) the storage call sequence is learned, then each call is made to fail before or after taking effect on a restored image of the data directory: the client must get an error, all SQL rows must equal the pre-state (post-state only for a commit that took effect), no transaction may stay open, and follow-up requests must succeed (thorough: second fault in the follow-up). A quarter of the histories run on a shim without shared-memory support (WAL cannot be enabled; rollback-journal mode, where a commit itself can be refused with BUSY), and lock refusals are also injected as a persistent condition.",
   note="Faults are synthetic errors at the public trait boundary; single faults exhaustive, double faults = fault in the request + fault in the follow-up. SQLite-internal I/O error paths are covered by the VFS engine when built."),
})
checks.update({
 "C04": dict(cat="fault_enumeration", tech="runtime monitoring: recording SQLite VFS shim under the real connections; every write/truncate/sync/delete a crash point; process-crash and power-loss images rebuilt from the event log and recovered with the code under test", ref="DESIGN.md §7 C04",
   text="Histories (library and HTTP handlers, solo and bystander-connection regimes, payloads 10 B..1.5 MB, clients with nil and non-nil chain base) run on SQLite over a VFS shim that logs every I/O of the repository's own connections. At every (sampled when very many) write/truncate/sync/delete the process-crash image and a family of power-loss images (last synced content + none/all/prefix/single-drop/single-keep/random subsets of later writes, unsynced deletes applied or undone, torn sectors in thorough) are opened with the code under test: it must open, pass integrity_check and hold exactly the rows of the state before or after the in-flight request, or the acknowledged state once the request had returned. End-to-end: the real executable (with and without an allow-list, with and without another process holding the database open) is killed with kill -9 at random instants, during start-up, and the moment a 9-12 MiB snapshot is acknowledged; after restart every acknowledged version and snapshot must be served.",
   note="Power loss is simulated from recorded I/O under a stated file-system model (fsync = per-file barrier that also makes earlier unlinks durable; unsynced writes land in any subset; -shm dropped). Trusted: the shim (about 350 lines of unsafe FFI, exercised under valgrind in the thorough tier when built), the shadow model, SQLite itself."),
})
checks.update({
 "C06": dict(cat="exploration", tech="runtime monitoring: byte-equality oracle over generated payloads (lengths at page/overflow/64 KiB/1 MiB boundaries, byte classes, chunk partitions) through library, in-process HTTP with exact chunk delivery, real sockets and the real executable", ref="DESIGN.md §7 C06",
   text="Versions and snapshots of chosen lengths, byte classes and chunkings are uploaded and read back through the same path (library; in-process service with chunk-exact payload streams; in-process HttpServer over TCP with chunked / segmented Content-Length bodies; the real executable with SQLite) and compared byte for byte with the regenerated upload, ids included; 16 MiB in quick, 100 MiB in thorough.",
   note="Sizes between the scanned windows are sampled; Content-Encoding is outside the oracle."),
 "C17": dict(cat="exploration", tech="runtime monitoring: process driver for the real executable (flags vs environment), HTTP over loopback, kill -9 and restart, oracles = allow-list table, exact urgency specification, stored history", ref="DESIGN.md §7 C17",
   text="Seeded configurations (1-3 listen addresses over 127.0.0.1/[::1]/localhost, data dir, allow-list none/one/many unsorted, snapshot targets; each by flag or environment variable) are given to the real binary: every address must serve, listed clients served and strangers refused, X-Snapshot-Request must follow the configured versions target along a real history, after kill -9 and restart (configuration re-expressed in the other form) chain, payloads and snapshot are served as stored, and after ageing the stored snapshot the urgency must follow the configured days target. Data directories with unusual names and not-yet-existing parents must hold the database (nothing beside them); in half of the configurations another process has the database open across the kill and restart.",
   note="Configuration space sampled (12 quick / 144 thorough); only loopback exists. If a library API change keeps the harness from building, the previously built harness drives the freshly built executable."),
})
checks.update({
 "C19": dict(cat="exploration", tech="runtime monitoring: differential read of data directories written by the pinned code (committed corpus incl. kill -9 leftovers + directories written on every run by vendored pinned crates) with an expected-content oracle, then append", ref="DESIGN.md §7 C19",
   text="A committed corpus of 12 data directories produced by the pinned tree (pinned executable over HTTP, pinned library, kill -9 with a live WAL, copy with an un-checkpointed WAL, payloads to 1 MB) plus ~100 (quick) / 3000 (thorough) directories freshly written by a verbatim vendored copy of the pinned core+sqlite crates are opened by the current code: every client, version, payload byte, latest pointer and snapshot (id, whole-second time, versions-since, bytes) must be served as written, then 5 versions and a snapshot are appended to each chain and the old history re-read. Directories are opened through the library, through a symbolic link, or by an allow-listed web server; freshly written ones include chains that start inside another client's chain and 17-100 MiB payloads.",
   note="'Pinned release' = sources at a6bc6ed compiled with today's toolchain + the committed corpus (fixtures/), each directory with expected.json."),
})
checks.update(json.load(open('/verif/tools/manifest_extra.json')) if __import__('os').path.exists('/verif/tools/manifest_extra.json') else {})

m = {
 "version": 1,
 "setup_cmd": "./check --setup",
 "hooks": {"guard": "tcss_verif", "enable": "no source hooks are used: all instrumentation attaches at public boundaries (Storage/StorageTxn traits, SQLite VFS, HTTP service, process). Checks build /repo unmodified; the guard name is reserved (RUSTFLAGS='--cfg tcss_verif').",
           "baseline_off_cmd": "cd /repo && cargo test --workspace --no-fail-fast --offline", "source_commits": [], "add_only": True},
 "engines": [
   {"name": "verif-harness", "path": "harness/", "serves_properties": sorted(checks.keys()), "kind_free_text": "Rust binary linking the real crates by path; worker processes; observational monitors over real executions"},
 ],
 "checks": [],
 "notes": "Technique family: runtime monitoring. Verdicts are three-valued: exit 0 held / exit 1 VIOLATION / exit 2 INCONCLUSIVE (never printed as VIOLATION). known_findings.jsonl lists fixed defects (suppress nothing) and recorded findings.",
 "not_applicable": [],
}
for i in ids:
    if i in checks:
        c = checks[i]
        m["checks"].append({
            "property_id": i,
            "quick_cmd": f"./check {i} quick",
            "thorough_cmd": f"./check {i} thorough",
            "evidence_file": f"evidence/{i}.json",
            "replay_cmd_template": f"./check {i} --replay {{path}}",
            "engine": "verif-harness",
            "level_claimed": {"category": c["cat"], "text": c["text"], "design_ref": c["ref"]},
            "level_note": c.get("note", TB),
            "technique": c["tech"],
        })
    else:
        m["not_applicable"].append({"property_id": i, "reason": "monitor not built yet (work in progress; planned check described in DESIGN.md §7)"})
json.dump(m, open('/verif/MANIFEST.json', 'w'), indent=1)
print("checks:", len(m["checks"]), "not_applicable:", len(m["not_applicable"]))
