#!/bin/bash
# usage: confirm_own.sh <patch.diff> — checks in a scratch worktree that the unedited suite passes with the patch
P="$1"; N=$(basename $(dirname $P))
WT=/tmp/confirm/own-$N
export CARGO_TARGET_DIR=/tmp/confirm/target CARGO_NET_OFFLINE=true
mkdir -p /tmp/confirm
git -C /repo worktree add --detach -f $WT HEAD >/dev/null 2>&1 || exit 2
trap "git -C /repo worktree remove --force $WT >/dev/null 2>&1" EXIT
cd $WT && git apply $P || { echo "$N: patch does not apply"; exit 2; }
cargo test --workspace --offline -j 8 >/tmp/confirm/own-$N.suite.log 2>&1; suite=$?
npass=$(grep -E "^test result: ok" /tmp/confirm/own-$N.suite.log | sed -E 's/.* ([0-9]+) passed.*/\1/' | paste -sd+ | bc)
echo "$N: suite=$suite passed=$npass"
