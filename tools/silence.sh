#!/bin/bash
# usage: silence.sh <tier> <seed>...   — every check must stay silent on the unchanged tree
TIER="$1"; shift
for s in "$@"; do
  for c in C01 C02 C03 C04 C05 C06 C07 C08 C09 C10 C11 C12 C13 C14 C15 C16 C17 C18 C19 C20; do
    t0=$(date +%s); out=$(VERIF_SEED=$s /verif/check $c $TIER 2>&1); rc=$?; t1=$(date +%s)
    line=$(echo "$out" | grep -E "^(HELD|VIOLATION|INCONCLUSIVE)" | head -1 | cut -c1-200)
    echo "seed=$s $c rc=$rc $((t1-t0))s $line"
    if [ $rc != 0 ]; then echo "$out" | grep -E "^  " | head -2 | cut -c1-400; fi
  done
done
