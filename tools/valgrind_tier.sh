#!/bin/bash
# usage: valgrind_tier.sh <ID> <seed>
# Runs a few quick-tier shards of the check under valgrind memcheck (no rebuild). This protects the
# trusted base (the VFS shim is unsafe FFI) and watches the blob path through rusqlite/SQLite.
# Never a property verdict: an invalid read/write/uninitialised-use report makes the tier
# INCONCLUSIVE (exit 2) with a SANITIZER-NOTE; a behavioural violation found by the monitors under
# valgrind is reported as usual.
DIR="$(cd "$(dirname "${BASH_SOURCE[0]}")/.." && pwd)"
ID="$1"; SEED="$2"
BIN="$DIR/target/release/verif"
N=48; SH="5 11 17 23"
W="$DIR/target/valgrind-$ID"; rm -rf "$W"; mkdir -p "$W"
export VERIF_DIR="$DIR"
t0=$(date +%s); pids=()
for k in $SH; do
  ( VERIF_SCRATCH_EXACT="/dev/shm/verif-vg.$$.$k" timeout 3000 valgrind --error-exitcode=99 --leak-check=no --num-callers=20 -q \
      "$BIN" "$ID" --tier quick --seed "$SEED" --shard "$k/$N" --shard-out "$W/out.$k.json" >"$W/log.$k" 2>&1; echo "EXIT $?" >>"$W/log.$k"; rm -rf "/dev/shm/verif-vg.$$.$k" ) &
  pids+=($!)
done
wait "${pids[@]}"
t1=$(date +%s)
reports=$(cat "$W"/log.* | grep -cE '^==[0-9]+== (Invalid|Conditional jump|Use of uninitialised|Syscall param|Mismatched|Source and destination overlap)')
python3 - "$DIR" "$ID" "$W" "$reports" "$((t1-t0))" <<'PY'
import json,sys,glob
d,i,w,rep,secs=sys.argv[1:6]
ev=0;ex=0;found=[]
for f in glob.glob(w+"/out.*.json"):
    try:
        o=json.load(open(f)); ev+=o["cov"]["evaluations"]; ex+=o["executed"]; found+=o["found"]
    except Exception: pass
p=f"{d}/evidence/{i}.json"
try:
    e=json.load(open(p))
    e["coverage"]["valgrind_memcheck"]={"shards":len(glob.glob(w+"/out.*.json")),"cases_executed":ex,"evaluations":ev,"memcheck_reports":int(rep),"wall_s":int(secs),"what":"quick-tier shards of this check re-run under valgrind memcheck (harness incl. the unsafe VFS shim, rusqlite, bundled SQLite)"}
    json.dump(e,open(p,"w"),indent=1)
except Exception as x: print("cannot update evidence",x)
if found:
    print("BEHAVIOURAL", found[0]["msg"][:300])
PY
if [ "$reports" -gt 0 ]; then
    echo "SANITIZER-NOTE: valgrind memcheck reported $reports problem(s); first: $(cat "$W"/log.* | grep -E -A8 '^==[0-9]+== (Invalid|Conditional|Use of|Syscall param)' | head -12 | tr '\n' ' ' | cut -c1-600)"
    echo "INCONCLUSIVE property=$ID reason=memcheck report in the trusted base or a dependency (see $W)"
    exit 2
fi
if ! ls "$W"/out.*.json >/dev/null 2>&1; then
    echo "INCONCLUSIVE property=$ID reason=valgrind tier produced no result (see $W)"; exit 2
fi
echo "valgrind tier: $(ls "$W"/out.*.json | wc -l) shards, 0 memcheck reports, $((t1-t0)) s"
exit 0
