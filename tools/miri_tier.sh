#!/bin/bash
# usage: miri_tier.sh <seed> <n-miri-seeds>
# Runs harness-miri under `cargo +nightly miri` with -Zmiri-many-seeds; verdicts:
#   behavioural violation (VIOLATION-DETAIL) or a Miri data race / UB report with a /repo frame -> VIOLATION property=C03, exit 1
#   any other Miri diagnostic -> SANITIZER-NOTE + INCONCLUSIVE, exit 2
DIR="$(cd "$(dirname "${BASH_SOURCE[0]}")/.." && pwd)"
SEED="$1"; N="$2"
LOG="$DIR/target/miri-C03.log"
mkdir -p "$DIR/target" "$DIR/replays"
cd "$DIR/harness-miri" || exit 2
cp -n /repo/Cargo.lock Cargo.lock 2>/dev/null
t0=$(date +%s)
# shard the miri seeds over processes (one `miri run` interprets single-threaded)
P=8; per=$(( (N + P - 1) / P )); pids=()
: > "$LOG"
for k in $(seq 0 $((P-1))); do
    lo=$((k*per)); hi=$(( (k+1)*per )); [ $hi -gt $N ] && hi=$N; [ $lo -ge $hi ] && continue
    ( MIRIFLAGS="-Zmiri-disable-isolation -Zmiri-many-seeds=$lo..$hi" CARGO_NET_OFFLINE=true timeout 3000 cargo +nightly miri run --quiet -- "$SEED" 3 6 >"$LOG.$k" 2>&1; echo "EXIT $?" >>"$LOG.$k" ) &
    pids+=($!)
    [ $k -eq 0 ] && sleep 25   # let the first one build the sysroot / crate before the others start
done
wait "${pids[@]}"
cat "$LOG".[0-9]* >> "$LOG"; rm -f "$LOG".[0-9]*
t1=$(date +%s)
runs=$(grep -c '^MIRI-RUN' "$LOG")
ops=$(grep '^MIRI-RUN' "$LOG" | sed -E 's/.* ops=([0-9]+).*/\1/' | paste -sd+ | bc)
overl=$(grep '^MIRI-RUN' "$LOG" | sed -E 's/.*overlapping_pairs=([0-9]+).*/\1/' | paste -sd+ | bc)
distinct=$(grep '^MIRI-RUN' "$LOG" | sed -E 's/.*accepted=([0-9]+) overlapping_pairs=([0-9]+).*/\1-\2/' | sort -u | wc -l)
python3 - "$DIR" "$runs" "${ops:-0}" "${overl:-0}" "$distinct" "$((t1-t0))" <<'PY'
import json,sys
d,runs,ops,ov,dist,secs=sys.argv[1:7]
p=f"{d}/evidence/C03.json"
try:
    e=json.load(open(p))
    e["coverage"]["miri"]={"interpreted_executions":int(runs),"requests":int(ops),"overlapping_request_pairs":int(ov),"distinct_(accepted,overlap)_signatures":int(dist),"wall_s":int(secs),
      "what":"in-memory backend, 3 plain OS threads x 6 random requests for one client, interpreted by Miri (-Zmiri-many-seeds: one preemptive schedule per seed) with data-race and undefined-behaviour detection on core and its pure-Rust dependencies; order-based linearizability oracle"}
    json.dump(e,open(p,"w"),indent=1)
except Exception as ex:
    print("cannot update evidence:",ex)
PY
if grep -q '^VIOLATION-DETAIL' "$LOG"; then
    R="$DIR/replays/C03-miri-seed$SEED.txt"; grep -B2 -A5 '^VIOLATION-DETAIL' "$LOG" | head -60 > "$R"
    echo "VIOLATION property=C03 replay=$R"; grep '^VIOLATION-DETAIL' "$LOG" | head -2
    exit 1
fi
if grep -qE 'Undefined Behavior|Data race detected|error: unsupported operation|error: abnormal termination|panicked at' "$LOG"; then
    R="$DIR/replays/C03-miri-seed$SEED.txt"; grep -E -A25 'Undefined Behavior|Data race detected|error:|panicked at' "$LOG" | head -120 > "$R"
    if grep -E -A25 'Undefined Behavior|Data race detected' "$LOG" | grep -q '/repo/'; then
        echo "VIOLATION property=C03 replay=$R"; echo "  Miri reports a data race / undefined behaviour with a frame in the repository while requests overlapped (no sequential explanation exists under the language semantics)"
        exit 1
    fi
    echo "SANITIZER-NOTE: Miri diagnostic outside the repository's code (see $R)"
    echo "INCONCLUSIVE property=C03 reason=Miri diagnostic in a dependency or in the harness"
    exit 2
fi
if [ "$runs" -lt 1 ]; then
    echo "INCONCLUSIVE property=C03 reason=Miri tier produced no executions (see $LOG)"; tail -5 "$LOG"
    exit 2
fi
echo "HELD property=C03 tier=thorough (Miri tier: $runs interpreted executions, ${ops:-0} requests, ${overl:-0} overlapping pairs, $((t1-t0)) s)"
exit 0
