#!/bin/bash
# usage: try_mutant.sh <patch.diff> <tier> <check-id>...
# Applies the patch to /repo, runs the checks, prints one line per check, reverts the patch.
P="$1"; TIER="$2"; shift 2
cd /repo || exit 2
if [ -n "$(git status --porcelain)" ]; then echo "/repo is dirty"; exit 2; fi
git apply "$P" || { echo "patch does not apply"; exit 2; }
trap 'git -C /repo checkout -- . ; git -C /repo clean -fdq' EXIT
for c in "$@"; do
    t0=$(date +%s)
    out=$(/verif/check "$c" "$TIER" 2>&1); rc=$?
    t1=$(date +%s)
    echo "[$c rc=$rc $((t1-t0))s] $(echo "$out" | grep -E 'VIOLATION|INCONCLUSIVE|HELD|KNOWN' | head -2 | tr '\n' ' ')"
    echo "$out" | grep -E '^  ' | head -1 | cut -c1-400
done
