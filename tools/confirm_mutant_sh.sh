#!/bin/bash
# usage: confirm_mutant_sh.sh <PROPID> <mK>
# Like confirm_mutant.sh for demonstrations that are shell scripts driving the real executable
# (usage of the demo: <demo>.sh /path/to/taskchampion-sync-server; exit 0 = behaves, non-zero = broken).
ID="$1"; K="$2"
SRC=/tmp/mutout/$ID
WT=/tmp/confirm/$ID-$K
export CARGO_TARGET_DIR=/tmp/confirm/target CARGO_NET_OFFLINE=true
mkdir -p /tmp/confirm
demo=$SRC/${K}_demo.sh
[ -f "$demo" ] || { echo "$ID $K: no shell demo"; exit 2; }
git -C /repo worktree add --detach -f $WT HEAD >/dev/null 2>&1 || { echo "worktree failed"; exit 2; }
cleanup() { git -C /repo worktree remove --force $WT >/dev/null 2>&1; }
trap cleanup EXIT
cd $WT
cargo build --offline -j 8 --bin taskchampion-sync-server >/tmp/confirm/$ID-$K.build0.log 2>&1 || { echo "build failed"; exit 2; }
cp $CARGO_TARGET_DIR/debug/taskchampion-sync-server /tmp/confirm/bin-head
BIN=/tmp/confirm/bin-head bash $demo /tmp/confirm/bin-head >/tmp/confirm/$ID-$K.without.log 2>&1; without=$?
git apply $SRC/$K.diff || { echo "$ID $K: patch does not apply"; exit 2; }
cargo build --offline -j 8 --bin taskchampion-sync-server >/tmp/confirm/$ID-$K.build1.log 2>&1 || { echo "mutant build failed"; exit 2; }
cp $CARGO_TARGET_DIR/debug/taskchampion-sync-server /tmp/confirm/bin-mut
BIN=/tmp/confirm/bin-mut bash $demo /tmp/confirm/bin-mut >/tmp/confirm/$ID-$K.with.log 2>&1; with=$?
cargo test --workspace --offline -j 8 >/tmp/confirm/$ID-$K.suite.log 2>&1; suite=$?
npass=$(grep -E "^test result: ok" /tmp/confirm/$ID-$K.suite.log | sed -E 's/.* ([0-9]+) passed.*/\1/' | paste -sd+ | bc)
echo "$ID $K: demo without=$without with=$with suite=$suite passed=$npass"
if [ $without = 0 ] && [ $with != 0 ] && [ $suite = 0 ] && [ "$npass" = 65 ]; then
    D=/verif/seeded/$ID-$K; mkdir -p $D
    cp $SRC/$K.diff $D/patch.diff; cp $demo $D/; cp $SRC/$K.md $D/notes.md
    python3 - "$ID" "$K" <<'PY'
import json,sys
i,k=sys.argv[1:3]
json.dump({"property":i,"mutant":k,"source":"independent sub-agent given only the property text","demo":f"{k}_demo.sh","demo_placement":"shell script, argument: path of the built executable",
 "needs_to_manifest":"see notes.md","confirmed":{"demo_without_patch":"pass","demo_with_patch":"fail","suite_with_patch":"65 passed, 0 failed","how":"tools/confirm_mutant_sh.sh in a scratch worktree of /repo HEAD (removed afterwards)"},
 "detected_by":[]},open(f'/verif/seeded/{i}-{k}/meta.json','w'),indent=1)
PY
    echo "  stored in $D"
fi
rm -f /tmp/confirm/bin-head /tmp/confirm/bin-mut
