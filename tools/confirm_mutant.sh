#!/bin/bash
# usage: confirm_mutant.sh <PROPID> <mK>
# Confirms an agent-made mutant in a scratch worktree: the unedited suite passes with it, the
# demonstration fails with it and passes without it. On success stores it under /verif/seeded/.
ID="$1"; K="$2"
SRC=/tmp/mutout/$ID
WT=/tmp/confirm/$ID-$K
export CARGO_TARGET_DIR=/tmp/confirm/target CARGO_NET_OFFLINE=true
mkdir -p /tmp/confirm
dir=${DEMO_DIR:-}; [ -z "$dir" ] && dir=$(grep -oE '(sqlite|server|core)/tests' $SRC/$K.md | sort | uniq -c | sort -rn | head -1 | awk '{print $2}')
demo=$(ls $SRC | grep "^${K}_demo" | head -1)
[ -n "$dir" ] && [ -n "$demo" ] || { echo "$ID $K: cannot determine demo placement"; exit 2; }
git -C /repo worktree add --detach -f $WT HEAD >/dev/null 2>&1 || { echo "worktree failed"; exit 2; }
cleanup() { git -C /repo worktree remove --force $WT >/dev/null 2>&1; }
trap cleanup EXIT
cd $WT
case "$demo" in *.rs) mkdir -p $dir; cp $SRC/$demo $dir/verif_demo.rs; run_demo="cargo test --offline -j 8 -p $(grep -m1 '^name' ${dir%%/*}/Cargo.toml | cut -d'"' -f2) --test verif_demo";; *) echo "$ID $K: non-rust demo, confirm by hand"; exit 2;; esac
$run_demo >/tmp/confirm/$ID-$K.without.log 2>&1; without=$?
git apply $SRC/$K.diff || { echo "$ID $K: patch does not apply"; exit 2; }
$run_demo >/tmp/confirm/$ID-$K.with.log 2>&1; with=$?
rm -f $dir/verif_demo.rs
cargo test --workspace --offline -j 8 >/tmp/confirm/$ID-$K.suite.log 2>&1; suite=$?
npass=$(grep -E "^test result: ok" /tmp/confirm/$ID-$K.suite.log | sed -E 's/.* ([0-9]+) passed.*/\1/' | paste -sd+ | bc)
echo "$ID $K: demo without=$without with=$with suite=$suite passed=$npass"
if [ $without = 0 ] && [ $with != 0 ] && [ $suite = 0 ] && [ "$npass" = 65 ]; then
    D=/verif/seeded/$ID-$K; mkdir -p $D
    cp $SRC/$K.diff $D/patch.diff; cp $SRC/$demo $D/$demo; cp $SRC/$K.md $D/notes.md
    python3 - "$ID" "$K" "$dir" "$demo" <<'PY'
import json,sys
i,k,d,demo=sys.argv[1:5]
notes=open(f'/tmp/mutout/{i}/{k}.md').read()
json.dump({"property":i,"mutant":k,"source":"independent sub-agent given only the property text","demo":demo,"demo_placement":d,
 "needs_to_manifest":"see notes.md","confirmed":{"demo_without_patch":"pass","demo_with_patch":"fail","suite_with_patch":"65 passed, 0 failed","how":"tools/confirm_mutant.sh in a scratch worktree of /repo HEAD (removed afterwards)"},
 "detected_by":[]},open(f'/verif/seeded/{i}-{k}/meta.json','w'),indent=1)
PY
    echo "  stored in $D"
fi
