#!/bin/bash
# Runs every seeded mutant against checks in an isolated copy of /repo and /verif (so that /repo
# itself is never touched and other work can continue).
#   tools/matrix.sh own|all [tier] [outfile]      (ONLY='*-m7' restricts the seeded changes by name pattern)
MODE="${1:-own}"; TIER="${2:-quick}"; OUT="${3:-/tmp/mx/matrix-$MODE-$TIER.tsv}"
MX=/tmp/mx
mkdir -p $MX
if [ ! -d $MX/repo ]; then git -C /repo worktree add --detach -f $MX/repo HEAD >/dev/null 2>&1 || exit 2; fi
git -C $MX/repo checkout -q --detach $(git -C /repo rev-parse HEAD); git -C $MX/repo checkout -- . ; git -C $MX/repo clean -fdq
rsync -a --delete --exclude target --exclude replays --exclude evidence --exclude .git /verif/ $MX/verif/
sed -i "s#/repo/#$MX/repo/#g" $MX/verif/harness/Cargo.toml
sed -i "s#cd /repo #cd $MX/repo #" $MX/verif/check
cp /verif/harness/Cargo.lock $MX/verif/harness/Cargo.lock
: > $OUT
ALL="C01 C02 C03 C04 C05 C06 C07 C08 C09 C10 C11 C12 C13 C14 C15 C16 C17 C18 C19 C20"
( cd $MX/verif && ./check --setup >/dev/null 2>&1 )
for d in /verif/seeded/*/; do
  n=$(basename $d); case "$n" in ${ONLY:-*}) ;; *) continue ;; esac; prop=$(python3 -c "import json;print(json.load(open('$d/meta.json'))['property'])")
  if [ "$MODE" = own ]; then checks="$prop"; else checks="$ALL"; fi
  git -C $MX/repo checkout -- . ; git -C $MX/repo clean -fdq
  git -C $MX/repo apply $d/patch.diff || { echo -e "$n\t-\tpatch-failed" >> $OUT; continue; }
  for c in $checks; do
    t0=$(date +%s); out=$(cd $MX/verif && VERIF_DIR=$MX/verif ./check $c $TIER 2>&1); rc=$?; t1=$(date +%s)
    echo -e "$n\t$prop\t$c\trc=$rc\t$((t1-t0))s\t$(echo "$out" | grep -E '^  ' | head -1 | cut -c1-200)" >> $OUT
  done
done
git -C $MX/repo checkout -- . ; git -C $MX/repo clean -fdq
echo "matrix written to $OUT"
