#!/bin/bash
# usage: try_isolated.sh <patch.diff> <tier> <check-id>...
# Like try_mutant.sh but in an isolated copy of /repo and /verif under /tmp/mx2 (never touches /repo).
P="$1"; TIER="$2"; shift 2
MX=${MX:-/tmp/mx2}
mkdir -p $MX
if [ ! -d $MX/repo ]; then git -C /repo worktree add --detach -f $MX/repo HEAD >/dev/null 2>&1 || exit 2; fi
git -C $MX/repo checkout -q --detach $(git -C /repo rev-parse HEAD); git -C $MX/repo checkout -- . ; git -C $MX/repo clean -fdq
rsync -a --delete --exclude target --exclude replays --exclude evidence --exclude .git /verif/ $MX/verif/
sed -i "s#/repo/#$MX/repo/#g" $MX/verif/harness/Cargo.toml $MX/verif/harness-miri/Cargo.toml
sed -i "s#cd /repo #cd $MX/repo #" $MX/verif/check
git -C $MX/repo apply "$P" || { echo "patch does not apply"; exit 2; }
for c in "$@"; do
  t0=$(date +%s); out=$(cd $MX/verif && ./check $c $TIER 2>&1); rc=$?; t1=$(date +%s)
  echo "[$c rc=$rc $((t1-t0))s] $(echo "$out" | grep -E 'VIOLATION|INCONCLUSIVE|HELD|KNOWN' | head -2 | tr '\n' ' ' | cut -c1-200)"
  echo "$out" | grep -E '^  ' | head -1 | cut -c1-400
done
git -C $MX/repo checkout -- . ; git -C $MX/repo clean -fdq
