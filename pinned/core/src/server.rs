use crate::error::ServerError;
use crate::storage::{Snapshot, Storage, StorageTxn};
use chrono::Utc;
use uuid::Uuid;

/// The distinguished value for "no version"
pub const NIL_VERSION_ID: VersionId = Uuid::nil();

/// Number of versions to search back from the latest to find the
/// version for a newly-added snapshot.  Snapshots for versions older
/// than this will be rejected.
const SNAPSHOT_SEARCH_LEN: i32 = 5;

pub type HistorySegment = Vec<u8>;
pub type ClientId = Uuid;
pub type VersionId = Uuid;

/// ServerConfig contains configuration parameters for the server.
pub struct ServerConfig {
    /// Target number of days between snapshots.
    pub snapshot_days: i64,

    /// Target number of versions between snapshots.
    pub snapshot_versions: u32,
}

impl Default for ServerConfig {
    fn default() -> Self {
        ServerConfig {
            snapshot_days: 14,
            snapshot_versions: 100,
        }
    }
}

/// Response to get_child_version.  See the protocol documentation.
#[derive(Clone, PartialEq, Debug)]
pub enum GetVersionResult {
    NotFound,
    Gone,
    Success {
        version_id: Uuid,
        parent_version_id: Uuid,
        history_segment: HistorySegment,
    },
}

/// Response to add_version
#[derive(Clone, PartialEq, Debug)]
pub enum AddVersionResult {
    /// OK, version added with the given ID
    Ok(VersionId),
    /// Rejected; expected a version with the given parent version
    ExpectedParentVersion(VersionId),
}

/// Urgency of a snapshot for a client; used to create the `X-Snapshot-Request` header.
#[derive(PartialEq, Debug, Clone, Copy, Eq, PartialOrd, Ord)]
pub enum SnapshotUrgency {
    /// Don't need a snapshot right now.
    None,

    /// A snapshot would be good, but can wait for other replicas to provide it.
    Low,

    /// A snapshot is needed right now.
    High,
}

impl SnapshotUrgency {
    /// Calculate the urgency for a snapshot based on its age in days
    fn for_days(config: &ServerConfig, days: i64) -> Self {
        if days >= config.snapshot_days * 3 / 2 {
            SnapshotUrgency::High
        } else if days >= config.snapshot_days {
            SnapshotUrgency::Low
        } else {
            SnapshotUrgency::None
        }
    }

    /// Calculate the urgency for a snapshot based on its age in versions
    fn for_versions_since(config: &ServerConfig, versions_since: u32) -> Self {
        if versions_since >= config.snapshot_versions * 3 / 2 {
            SnapshotUrgency::High
        } else if versions_since >= config.snapshot_versions {
            SnapshotUrgency::Low
        } else {
            SnapshotUrgency::None
        }
    }
}

/// A server implementing the TaskChampion sync protocol.
pub struct Server {
    config: ServerConfig,
    storage: Box<dyn Storage>,
}

impl Server {
    pub fn new<ST: Storage + 'static>(config: ServerConfig, storage: ST) -> Self {
        Self {
            config,
            storage: Box::new(storage),
        }
    }

    /// Implementation of the GetChildVersion protocol transaction.
    pub fn get_child_version(
        &self,
        client_id: ClientId,
        parent_version_id: VersionId,
    ) -> Result<GetVersionResult, ServerError> {
        let mut txn = self.storage.txn(client_id)?;
        let client = txn.get_client()?.ok_or(ServerError::NoSuchClient)?;

        // If a version with parentVersionId equal to the requested parentVersionId exists, it is
        // returned.
        if let Some(version) = txn.get_version_by_parent(parent_version_id)? {
            return Ok(GetVersionResult::Success {
                version_id: version.version_id,
                parent_version_id: version.parent_version_id,
                history_segment: version.history_segment,
            });
        }

        // Return NotFound if an AddVersion with this parent_version_id would succeed, and
        // otherwise return Gone.
        //
        // AddVersion will succeed if either
        //  - the requested parent version is the latest version; or
        //  - there is no latest version, meaning there are no versions stored for this client
        Ok(
            if client.latest_version_id == parent_version_id
                || client.latest_version_id == NIL_VERSION_ID
            {
                GetVersionResult::NotFound
            } else {
                GetVersionResult::Gone
            },
        )
    }

    /// Implementation of the AddVersion protocol transaction
    pub fn add_version(
        &self,
        client_id: ClientId,
        parent_version_id: VersionId,
        history_segment: HistorySegment,
    ) -> Result<(AddVersionResult, SnapshotUrgency), ServerError> {
        log::debug!("add_version(client_id: {client_id}, parent_version_id: {parent_version_id})");

        let mut txn = self.storage.txn(client_id)?;
        let client = txn.get_client()?.ok_or(ServerError::NoSuchClient)?;

        // check if this version is acceptable, under the protection of the transaction
        if client.latest_version_id != NIL_VERSION_ID
            && parent_version_id != client.latest_version_id
        {
            log::debug!("add_version request rejected: mismatched latest_version_id");
            return Ok((
                AddVersionResult::ExpectedParentVersion(client.latest_version_id),
                SnapshotUrgency::None,
            ));
        }

        // invent a version ID
        let version_id = Uuid::new_v4();
        log::debug!("add_version request accepted: new version_id: {version_id}");

        // update the DB
        txn.add_version(version_id, parent_version_id, history_segment)?;
        txn.commit()?;

        // calculate the urgency
        let time_urgency = match client.snapshot {
            None => SnapshotUrgency::High,
            Some(Snapshot { timestamp, .. }) => {
                SnapshotUrgency::for_days(&self.config, (Utc::now() - timestamp).num_days())
            }
        };

        let version_urgency = match client.snapshot {
            None => SnapshotUrgency::High,
            Some(Snapshot { versions_since, .. }) => {
                SnapshotUrgency::for_versions_since(&self.config, versions_since)
            }
        };

        Ok((
            AddVersionResult::Ok(version_id),
            std::cmp::max(time_urgency, version_urgency),
        ))
    }

    /// Implementation of the AddSnapshot protocol transaction
    pub fn add_snapshot(
        &self,
        client_id: ClientId,
        version_id: VersionId,
        data: Vec<u8>,
    ) -> Result<(), ServerError> {
        log::debug!("add_snapshot(client_id: {client_id}, version_id: {version_id})");

        let mut txn = self.storage.txn(client_id)?;
        let client = txn.get_client()?.ok_or(ServerError::NoSuchClient)?;

        // NOTE: if the snapshot is rejected, this function logs about it and returns
        // Ok(()), as there's no reason to report an errot to the client / user.

        let last_snapshot = client.snapshot.map(|snap| snap.version_id);
        if Some(version_id) == last_snapshot {
            log::debug!("rejecting snapshot for version {version_id}: already exists");
            return Ok(());
        }

        // look for this version in the history of this client, starting at the latest version, and
        // only iterating for a limited number of versions.
        let mut search_len = SNAPSHOT_SEARCH_LEN;
        let mut vid = client.latest_version_id;

        loop {
            if vid == version_id && version_id != NIL_VERSION_ID {
                // the new snapshot is for a recent version, so proceed
                break;
            }

            if Some(vid) == last_snapshot {
                // the new snapshot is older than the last snapshot, so ignore it
                log::debug!("rejecting snapshot for version {version_id}: newer snapshot already exists or no such version");
                return Ok(());
            }

            search_len -= 1;
            if search_len <= 0 || vid == NIL_VERSION_ID {
                // this should not happen in normal operation, so warn about it
                log::warn!("rejecting snapshot for version {version_id}: version is too old or no such version");
                return Ok(());
            }

            // get the parent version ID
            if let Some(parent) = txn.get_version(vid)? {
                vid = parent.parent_version_id;
            } else {
                // this version does not exist; "this should not happen" but if it does,
                // we don't need a snapshot earlier than the missing version.
                log::warn!("rejecting snapshot for version {version_id}: newer versions have already been deleted");
                return Ok(());
            }
        }

        log::debug!("accepting snapshot for version {version_id}");
        txn.set_snapshot(
            Snapshot {
                version_id,
                timestamp: Utc::now(),
                versions_since: 0,
            },
            data,
        )?;
        txn.commit()?;
        Ok(())
    }

    /// Implementation of the GetSnapshot protocol transaction
    pub fn get_snapshot(
        &self,
        client_id: ClientId,
    ) -> Result<Option<(Uuid, Vec<u8>)>, ServerError> {
        let mut txn = self.storage.txn(client_id)?;
        let client = txn.get_client()?.ok_or(ServerError::NoSuchClient)?;

        Ok(if let Some(snap) = client.snapshot {
            txn.get_snapshot_data(snap.version_id)?
                .map(|data| (snap.version_id, data))
        } else {
            None
        })
    }

    /// Convenience method to get a transaction for the embedded storage.
    pub fn txn(&self, client_id: Uuid) -> Result<Box<dyn StorageTxn + '_>, ServerError> {
        Ok(self.storage.txn(client_id)?)
    }
}

#[cfg(test)]
mod test {
    use super::*;
    use crate::inmemory::InMemoryStorage;
    use crate::storage::{Snapshot, Storage, StorageTxn};
    use chrono::{Duration, TimeZone, Utc};
    use pretty_assertions::assert_eq;

    fn setup<INIT, RES>(init: INIT) -> anyhow::Result<(Server, RES)>
    where
        INIT: FnOnce(&mut dyn StorageTxn, Uuid) -> anyhow::Result<RES>,
    {
        let _ = env_logger::builder().is_test(true).try_init();
        let storage = InMemoryStorage::new();
        let client_id = Uuid::new_v4();
        let res;
        {
            let mut txn = storage.txn(client_id)?;
            res = init(txn.as_mut(), client_id)?;
            txn.commit()?;
        }
        Ok((Server::new(ServerConfig::default(), storage), res))
    }

    /// Utility setup function for add_version tests
    fn av_setup(
        num_versions: u32,
        snapshot_version: Option<u32>,
        snapshot_days_ago: Option<i64>,
    ) -> anyhow::Result<(Server, Uuid, Vec<Uuid>)> {
        let (server, (client_id, versions)) = setup(|txn, client_id| {
            let mut versions = vec![];

            let mut version_id = Uuid::nil();
            txn.new_client(Uuid::nil())?;
            debug_assert!(num_versions < u8::MAX.into());
            for vnum in 0..num_versions {
                let parent_version_id = version_id;
                version_id = Uuid::new_v4();
                versions.push(version_id);
                txn.add_version(
                    version_id,
                    parent_version_id,
                    // Generate some unique data for this version.
                    vec![0, 0, vnum as u8],
                )?;
                if Some(vnum) == snapshot_version {
                    txn.set_snapshot(
                        Snapshot {
                            version_id,
                            versions_since: 0,
                            timestamp: Utc::now() - Duration::days(snapshot_days_ago.unwrap_or(0)),
                        },
                        // Generate some unique data for this snapshot.
                        vec![vnum as u8],
                    )?;
                }
            }

            Ok((client_id, versions))
        })?;
        Ok((server, client_id, versions))
    }

    /// Utility function to check the results of an add_version call
    fn av_success_check(
        server: &Server,
        client_id: Uuid,
        existing_versions: &[Uuid],
        (add_version_result, snapshot_urgency): (AddVersionResult, SnapshotUrgency),
        expected_history: Vec<u8>,
        expected_urgency: SnapshotUrgency,
    ) -> anyhow::Result<()> {
        if let AddVersionResult::Ok(new_version_id) = add_version_result {
            // check that it invented a new version ID
            for v in existing_versions {
                assert_ne!(&new_version_id, v);
            }

            // verify that the storage was updated
            let mut txn = server.txn(client_id)?;
            let client = txn.get_client()?.unwrap();
            assert_eq!(client.latest_version_id, new_version_id);

            let parent_version_id = existing_versions.last().cloned().unwrap_or_else(Uuid::nil);
            let version = txn.get_version(new_version_id)?.unwrap();
            assert_eq!(version.version_id, new_version_id);
            assert_eq!(version.parent_version_id, parent_version_id);
            assert_eq!(version.history_segment, expected_history);
        } else {
            panic!("did not get Ok from add_version: {:?}", add_version_result);
        }

        assert_eq!(snapshot_urgency, expected_urgency);

        Ok(())
    }

    #[test]
    fn snapshot_urgency_max() {
        use SnapshotUrgency::*;
        assert_eq!(std::cmp::max(None, None), None);
        assert_eq!(std::cmp::max(None, Low), Low);
        assert_eq!(std::cmp::max(None, High), High);
        assert_eq!(std::cmp::max(Low, None), Low);
        assert_eq!(std::cmp::max(Low, Low), Low);
        assert_eq!(std::cmp::max(Low, High), High);
        assert_eq!(std::cmp::max(High, None), High);
        assert_eq!(std::cmp::max(High, Low), High);
        assert_eq!(std::cmp::max(High, High), High);
    }

    #[test]
    fn snapshot_urgency_for_days() {
        use SnapshotUrgency::*;
        let config = ServerConfig::default();
        assert_eq!(SnapshotUrgency::for_days(&config, 0), None);
        assert_eq!(
            SnapshotUrgency::for_days(&config, config.snapshot_days),
            Low
        );
        assert_eq!(
            SnapshotUrgency::for_days(&config, config.snapshot_days * 2),
            High
        );
    }

    #[test]
    fn snapshot_urgency_for_versions_since() {
        use SnapshotUrgency::*;
        let config = ServerConfig::default();
        assert_eq!(SnapshotUrgency::for_versions_since(&config, 0), None);
        assert_eq!(
            SnapshotUrgency::for_versions_since(&config, config.snapshot_versions),
            Low
        );
        assert_eq!(
            SnapshotUrgency::for_versions_since(&config, config.snapshot_versions * 2),
            High
        );
    }

    #[test]
    fn get_child_version_not_found_initial_nil() -> anyhow::Result<()> {
        let (server, client_id) = setup(|txn, client_id| {
            txn.new_client(NIL_VERSION_ID)?;

            Ok(client_id)
        })?;
        // when no latest version exists, the first version is NotFound
        assert_eq!(
            server.get_child_version(client_id, NIL_VERSION_ID)?,
            GetVersionResult::NotFound
        );
        Ok(())
    }

    #[test]
    fn get_child_version_not_found_initial_continuing() -> anyhow::Result<()> {
        let (server, client_id) = setup(|txn, client_id| {
            txn.new_client(NIL_VERSION_ID)?;

            Ok(client_id)
        })?;

        // when no latest version exists, _any_ child version is NOT_FOUND. This allows syncs to
        // start to a new server even if the client already has been uploading to another service.
        assert_eq!(
            server.get_child_version(client_id, Uuid::new_v4(),)?,
            GetVersionResult::NotFound
        );
        Ok(())
    }

    #[test]
    fn get_child_version_not_found_up_to_date() -> anyhow::Result<()> {
        let (server, (client_id, parent_version_id)) = setup(|txn, client_id| {
            // add a parent version, but not the requested child version
            let parent_version_id = Uuid::new_v4();
            txn.new_client(parent_version_id)?;
            txn.add_version(parent_version_id, NIL_VERSION_ID, vec![])?;

            Ok((client_id, parent_version_id))
        })?;

        assert_eq!(
            server.get_child_version(client_id, parent_version_id)?,
            GetVersionResult::NotFound
        );
        Ok(())
    }

    #[test]
    fn get_child_version_gone_not_latest() -> anyhow::Result<()> {
        let (server, client_id) = setup(|txn, client_id| {
            // Add a parent version, but not the requested parent version
            let parent_version_id = Uuid::new_v4();
            txn.new_client(parent_version_id)?;
            txn.add_version(parent_version_id, NIL_VERSION_ID, vec![])?;

            Ok(client_id)
        })?;

        assert_eq!(
            server.get_child_version(client_id, Uuid::new_v4(),)?,
            GetVersionResult::Gone
        );
        Ok(())
    }

    #[test]
    fn get_child_version_found() -> anyhow::Result<()> {
        let (server, (client_id, version_id, parent_version_id, history_segment)) =
            setup(|txn, client_id| {
                let version_id = Uuid::new_v4();
                let parent_version_id = Uuid::new_v4();
                let history_segment = b"abcd".to_vec();

                txn.new_client(version_id)?;
                txn.add_version(version_id, parent_version_id, history_segment.clone())?;

                Ok((client_id, version_id, parent_version_id, history_segment))
            })?;
        assert_eq!(
            server.get_child_version(client_id, parent_version_id)?,
            GetVersionResult::Success {
                version_id,
                parent_version_id,
                history_segment,
            }
        );
        Ok(())
    }

    #[test]
    fn add_version_conflict() -> anyhow::Result<()> {
        let (server, client_id, versions) = av_setup(3, None, None)?;

        // try to add a child of a version other than the latest
        assert_eq!(
            server.add_version(client_id, versions[1], vec![3, 6, 9])?.0,
            AddVersionResult::ExpectedParentVersion(versions[2])
        );

        // verify that the storage wasn't updated
        let mut txn = server.txn(client_id)?;
        assert_eq!(txn.get_client()?.unwrap().latest_version_id, versions[2]);
        assert_eq!(txn.get_version_by_parent(versions[2])?, None);

        Ok(())
    }

    #[test]
    fn add_version_with_existing_history() -> anyhow::Result<()> {
        let (server, client_id, versions) = av_setup(1, None, None)?;

        let result = server.add_version(client_id, versions[0], vec![3, 6, 9])?;

        av_success_check(
            &server,
            client_id,
            &versions,
            result,
            vec![3, 6, 9],
            // urgency=high because there are no snapshots yet
            SnapshotUrgency::High,
        )?;

        Ok(())
    }

    #[test]
    fn add_version_with_no_history() -> anyhow::Result<()> {
        let (server, client_id, versions) = av_setup(0, None, None)?;

        let parent_version_id = Uuid::nil();
        let result = server.add_version(client_id, parent_version_id, vec![3, 6, 9])?;

        av_success_check(
            &server,
            client_id,
            &versions,
            result,
            vec![3, 6, 9],
            // urgency=high because there are no snapshots yet
            SnapshotUrgency::High,
        )?;

        Ok(())
    }

    #[test]
    fn add_version_success_recent_snapshot() -> anyhow::Result<()> {
        let (server, client_id, versions) = av_setup(1, Some(0), None)?;

        let result = server.add_version(client_id, versions[0], vec![1, 2, 3])?;

        av_success_check(
            &server,
            client_id,
            &versions,
            result,
            vec![1, 2, 3],
            // no snapshot request since the previous version has a snapshot
            SnapshotUrgency::None,
        )?;

        Ok(())
    }

    #[test]
    fn add_version_success_aged_snapshot() -> anyhow::Result<()> {
        // one snapshot, but it was 50 days ago
        let (server, client_id, versions) = av_setup(1, Some(0), Some(50))?;

        let result = server.add_version(client_id, versions[0], vec![1, 2, 3])?;

        av_success_check(
            &server,
            client_id,
            &versions,
            result,
            vec![1, 2, 3],
            // urgency=high due to days since the snapshot
            SnapshotUrgency::High,
        )?;

        Ok(())
    }

    #[test]
    fn add_version_success_snapshot_many_versions_ago() -> anyhow::Result<()> {
        // one snapshot, but it was 50 versions ago
        let (mut server, client_id, versions) = av_setup(50, Some(0), None)?;
        server.config.snapshot_versions = 30;

        let result = server.add_version(client_id, versions[49], vec![1, 2, 3])?;

        av_success_check(
            &server,
            client_id,
            &versions,
            result,
            vec![1, 2, 3],
            // urgency=high due to number of versions since the snapshot
            SnapshotUrgency::High,
        )?;

        Ok(())
    }

    #[test]
    fn add_snapshot_success_latest() -> anyhow::Result<()> {
        let (server, (client_id, version_id)) = setup(|txn, client_id| {
            let version_id = Uuid::new_v4();

            // set up a task DB with one version in it
            txn.new_client(version_id)?;
            txn.add_version(version_id, NIL_VERSION_ID, vec![])?;

            // add a snapshot for that version
            Ok((client_id, version_id))
        })?;
        server.add_snapshot(client_id, version_id, vec![1, 2, 3])?;

        // verify the snapshot
        let mut txn = server.txn(client_id)?;
        let client = txn.get_client()?.unwrap();
        let snapshot = client.snapshot.unwrap();
        assert_eq!(snapshot.version_id, version_id);
        assert_eq!(snapshot.versions_since, 0);
        assert_eq!(
            txn.get_snapshot_data(version_id).unwrap(),
            Some(vec![1, 2, 3])
        );

        Ok(())
    }

    #[test]
    fn add_snapshot_success_older() -> anyhow::Result<()> {
        let (server, (client_id, version_id_1)) = setup(|txn, client_id| {
            let version_id_1 = Uuid::new_v4();
            let version_id_2 = Uuid::new_v4();

            // set up a task DB with two versions in it
            txn.new_client(version_id_2)?;
            txn.add_version(version_id_1, NIL_VERSION_ID, vec![])?;
            txn.add_version(version_id_2, version_id_1, vec![])?;

            Ok((client_id, version_id_1))
        })?;
        // add a snapshot for version 1
        server.add_snapshot(client_id, version_id_1, vec![1, 2, 3])?;

        // verify the snapshot
        let mut txn = server.txn(client_id)?;
        let client = txn.get_client()?.unwrap();
        let snapshot = client.snapshot.unwrap();
        assert_eq!(snapshot.version_id, version_id_1);
        assert_eq!(snapshot.versions_since, 0);
        assert_eq!(
            txn.get_snapshot_data(version_id_1).unwrap(),
            Some(vec![1, 2, 3])
        );

        Ok(())
    }

    #[test]
    fn add_snapshot_fails_no_such() -> anyhow::Result<()> {
        let (server, client_id) = setup(|txn, client_id| {
            let version_id_1 = Uuid::new_v4();
            let version_id_2 = Uuid::new_v4();

            // set up a task DB with two versions in it
            txn.new_client(version_id_2)?;
            txn.add_version(version_id_1, NIL_VERSION_ID, vec![])?;
            txn.add_version(version_id_2, version_id_1, vec![])?;

            // add a snapshot for unknown version
            Ok(client_id)
        })?;

        let version_id_unk = Uuid::new_v4();
        server.add_snapshot(client_id, version_id_unk, vec![1, 2, 3])?;

        // verify the snapshot does not exist
        let mut txn = server.txn(client_id)?;
        let client = txn.get_client()?.unwrap();
        assert!(client.snapshot.is_none());

        Ok(())
    }

    #[test]
    fn add_snapshot_fails_too_old() -> anyhow::Result<()> {
        let (server, (client_id, version_ids)) = setup(|txn, client_id| {
            let mut version_id = Uuid::new_v4();
            let mut parent_version_id = Uuid::nil();
            let mut version_ids = vec![];

            // set up a task DB with 10 versions in it (oldest to newest)
            txn.new_client(Uuid::nil())?;
            for _ in 0..10 {
                txn.add_version(version_id, parent_version_id, vec![])?;
                version_ids.push(version_id);
                parent_version_id = version_id;
                version_id = Uuid::new_v4();
            }

            // add a snapshot for the earliest of those
            Ok((client_id, version_ids))
        })?;
        server.add_snapshot(client_id, version_ids[0], vec![1, 2, 3])?;

        // verify the snapshot does not exist
        let mut txn = server.txn(client_id)?;
        let client = txn.get_client()?.unwrap();
        assert!(client.snapshot.is_none());

        Ok(())
    }

    #[test]
    fn add_snapshot_fails_newer_exists() -> anyhow::Result<()> {
        let (server, (client_id, version_ids)) = setup(|txn, client_id| {
            let mut version_id = Uuid::new_v4();
            let mut parent_version_id = Uuid::nil();
            let mut version_ids = vec![];

            // set up a task DB with 5 versions in it (oldest to newest) and a snapshot of the
            // middle one
            txn.new_client(Uuid::nil())?;
            for _ in 0..5 {
                txn.add_version(version_id, parent_version_id, vec![])?;
                version_ids.push(version_id);
                parent_version_id = version_id;
                version_id = Uuid::new_v4();
            }
            txn.set_snapshot(
                Snapshot {
                    version_id: version_ids[2],
                    versions_since: 2,
                    timestamp: Utc.with_ymd_and_hms(2001, 9, 9, 1, 46, 40).unwrap(),
                },
                vec![1, 2, 3],
            )?;

            // add a snapshot for the earliest of those
            Ok((client_id, version_ids))
        })?;

        server.add_snapshot(client_id, version_ids[0], vec![9, 9, 9])?;

        // verify the snapshot was not replaced
        let mut txn = server.txn(client_id)?;
        let client = txn.get_client()?.unwrap();
        let snapshot = client.snapshot.unwrap();
        assert_eq!(snapshot.version_id, version_ids[2]);
        assert_eq!(snapshot.versions_since, 2);
        assert_eq!(
            txn.get_snapshot_data(version_ids[2]).unwrap(),
            Some(vec![1, 2, 3])
        );

        Ok(())
    }

    #[test]
    fn add_snapshot_fails_nil_version() -> anyhow::Result<()> {
        let (server, client_id) = setup(|txn, client_id| {
            // just set up the client
            txn.new_client(NIL_VERSION_ID)?;

            // add a snapshot for the nil version
            Ok(client_id)
        })?;

        server.add_snapshot(client_id, NIL_VERSION_ID, vec![9, 9, 9])?;

        // verify the snapshot does not exist
        let mut txn = server.txn(client_id)?;
        let client = txn.get_client()?.unwrap();
        assert!(client.snapshot.is_none());

        Ok(())
    }

    #[test]
    fn get_snapshot_found() -> anyhow::Result<()> {
        let (server, (client_id, data, snapshot_version_id)) = setup(|txn, client_id| {
            let data = vec![1, 2, 3];
            let snapshot_version_id = Uuid::new_v4();

            txn.new_client(snapshot_version_id)?;
            txn.set_snapshot(
                Snapshot {
                    version_id: snapshot_version_id,
                    versions_since: 3,
                    timestamp: Utc.with_ymd_and_hms(2001, 9, 9, 1, 46, 40).unwrap(),
                },
                data.clone(),
            )?;
            Ok((client_id, data, snapshot_version_id))
        })?;
        assert_eq!(
            server.get_snapshot(client_id)?,
            Some((snapshot_version_id, data))
        );

        Ok(())
    }

    #[test]
    fn get_snapshot_not_found() -> anyhow::Result<()> {
        let (server, client_id) = setup(|txn, client_id| {
            txn.new_client(NIL_VERSION_ID)?;
            Ok(client_id)
        })?;

        assert_eq!(server.get_snapshot(client_id)?, None);

        Ok(())
    }
}
