/// An error from the [`crate::Server`] type.
///
/// This type represents only circumstances outside the realm of the protocol, and not the specific
/// results descriebd in the protocol documentation.
#[derive(Debug, thiserror::Error)]
pub enum ServerError {
    /// There is no client with the given ClientId.
    #[error("No such client")]
    NoSuchClient,

    #[error(transparent)]
    Other(#[from] anyhow::Error),
}
