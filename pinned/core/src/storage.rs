use chrono::{DateTime, Utc};
use uuid::Uuid;

/// A representation of stored metadata about a client.
#[derive(Clone, PartialEq, Eq, Debug)]
pub struct Client {
    /// The latest version for this client (may be the nil version)
    pub latest_version_id: Uuid,
    /// Data about the latest snapshot for this client
    pub snapshot: Option<Snapshot>,
}

/// Metadata about a snapshot, not including the snapshot data itself.
#[derive(Clone, PartialEq, Eq, Debug)]
pub struct Snapshot {
    /// ID of the version at which this snapshot was made
    pub version_id: Uuid,

    /// Timestamp at which this snapshot was set
    pub timestamp: DateTime<Utc>,

    /// Number of versions since this snapshot was made
    pub versions_since: u32,
}

#[derive(Clone, PartialEq, Eq, Debug)]
pub struct Version {
    /// The uuid identifying this version.
    pub version_id: Uuid,
    /// The uuid identifying this version's parent.
    pub parent_version_id: Uuid,
    /// The data carried in this version.
    pub history_segment: Vec<u8>,
}

/// A transaction in the storage backend.
///
/// Transactions must be sequentially consistent. That is, the results of transactions performed
/// in storage must be as if each were executed sequentially in some order. In particular,
/// un-committed changes must not be read by another transaction.
///
/// Transactions with different client IDs cannot share any data, so it is safe to handle them
/// concurrently.
///
/// Changes in a transaction that is dropped without calling `commit` must not appear in any other
/// transaction.
pub trait StorageTxn {
    /// Get information about the client for this transaction
    fn get_client(&mut self) -> anyhow::Result<Option<Client>>;

    /// Create the client for this transaction, with the given latest_version_id. The client must
    /// not already exist.
    fn new_client(&mut self, latest_version_id: Uuid) -> anyhow::Result<()>;

    /// Set the client's most recent snapshot.
    fn set_snapshot(&mut self, snapshot: Snapshot, data: Vec<u8>) -> anyhow::Result<()>;

    /// Get the data for the most recent snapshot.  The version_id
    /// is used to verify that the snapshot is for the correct version.
    fn get_snapshot_data(&mut self, version_id: Uuid) -> anyhow::Result<Option<Vec<u8>>>;

    /// Get a version, indexed by parent version id
    fn get_version_by_parent(&mut self, parent_version_id: Uuid)
        -> anyhow::Result<Option<Version>>;

    /// Get a version, indexed by its own version id
    fn get_version(&mut self, version_id: Uuid) -> anyhow::Result<Option<Version>>;

    /// Add a version (that must not already exist), and
    ///  - update latest_version_id
    ///  - increment snapshot.versions_since
    fn add_version(
        &mut self,
        version_id: Uuid,
        parent_version_id: Uuid,
        history_segment: Vec<u8>,
    ) -> anyhow::Result<()>;

    /// Commit any changes made in the transaction.  It is an error to call this more than
    /// once.  It is safe to skip this call for read-only operations.
    fn commit(&mut self) -> anyhow::Result<()>;
}

/// A trait for objects able to act as storage.  Most of the interesting behavior is in the
/// [`crate::storage::StorageTxn`] trait.
pub trait Storage: Send + Sync {
    /// Begin a transaction for the given client ID.
    fn txn(&self, client_id: Uuid) -> anyhow::Result<Box<dyn StorageTxn + '_>>;
}
