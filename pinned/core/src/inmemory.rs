use super::{Client, Snapshot, Storage, StorageTxn, Version};
use std::collections::HashMap;
use std::sync::{Mutex, MutexGuard};
use uuid::Uuid;

struct Inner {
    /// Clients, indexed by client_id
    clients: HashMap<Uuid, Client>,

    /// Snapshot data, indexed by client id
    snapshots: HashMap<Uuid, Vec<u8>>,

    /// Versions, indexed by (client_id, version_id)
    versions: HashMap<(Uuid, Uuid), Version>,

    /// Child versions, indexed by (client_id, parent_version_id)
    children: HashMap<(Uuid, Uuid), Uuid>,
}

/// In-memory storage for testing and experimentation.
///
/// This is not for production use, but supports testing of sync server implementations.
///
/// NOTE: this panics if changes were made in a transaction that is later dropped without being
/// committed, as this likely represents a bug that should be exposed in tests.
pub struct InMemoryStorage(Mutex<Inner>);

impl InMemoryStorage {
    #[allow(clippy::new_without_default)]
    pub fn new() -> Self {
        Self(Mutex::new(Inner {
            clients: HashMap::new(),
            snapshots: HashMap::new(),
            versions: HashMap::new(),
            children: HashMap::new(),
        }))
    }
}

struct InnerTxn<'a> {
    client_id: Uuid,
    guard: MutexGuard<'a, Inner>,
    written: bool,
    committed: bool,
}

impl Storage for InMemoryStorage {
    fn txn(&self, client_id: Uuid) -> anyhow::Result<Box<dyn StorageTxn + '_>> {
        Ok(Box::new(InnerTxn {
            client_id,
            guard: self.0.lock().expect("poisoned lock"),
            written: false,
            committed: false,
        }))
    }
}

impl StorageTxn for InnerTxn<'_> {
    fn get_client(&mut self) -> anyhow::Result<Option<Client>> {
        Ok(self.guard.clients.get(&self.client_id).cloned())
    }

    fn new_client(&mut self, latest_version_id: Uuid) -> anyhow::Result<()> {
        if self.guard.clients.contains_key(&self.client_id) {
            return Err(anyhow::anyhow!("Client {} already exists", self.client_id));
        }
        self.guard.clients.insert(
            self.client_id,
            Client {
                latest_version_id,
                snapshot: None,
            },
        );
        self.written = true;
        Ok(())
    }

    fn set_snapshot(&mut self, snapshot: Snapshot, data: Vec<u8>) -> anyhow::Result<()> {
        let client = self
            .guard
            .clients
            .get_mut(&self.client_id)
            .ok_or_else(|| anyhow::anyhow!("no such client"))?;
        client.snapshot = Some(snapshot);
        self.guard.snapshots.insert(self.client_id, data);
        self.written = true;
        Ok(())
    }

    fn get_snapshot_data(&mut self, version_id: Uuid) -> anyhow::Result<Option<Vec<u8>>> {
        // sanity check
        let client = self.guard.clients.get(&self.client_id);
        let client = client.ok_or_else(|| anyhow::anyhow!("no such client"))?;
        if Some(&version_id) != client.snapshot.as_ref().map(|snap| &snap.version_id) {
            return Err(anyhow::anyhow!("unexpected snapshot_version_id"));
        }
        Ok(self.guard.snapshots.get(&self.client_id).cloned())
    }

    fn get_version_by_parent(
        &mut self,
        parent_version_id: Uuid,
    ) -> anyhow::Result<Option<Version>> {
        if let Some(parent_version_id) = self
            .guard
            .children
            .get(&(self.client_id, parent_version_id))
        {
            Ok(self
                .guard
                .versions
                .get(&(self.client_id, *parent_version_id))
                .cloned())
        } else {
            Ok(None)
        }
    }

    fn get_version(&mut self, version_id: Uuid) -> anyhow::Result<Option<Version>> {
        Ok(self
            .guard
            .versions
            .get(&(self.client_id, version_id))
            .cloned())
    }

    fn add_version(
        &mut self,
        version_id: Uuid,
        parent_version_id: Uuid,
        history_segment: Vec<u8>,
    ) -> anyhow::Result<()> {
        let version = Version {
            version_id,
            parent_version_id,
            history_segment,
        };

        if let Some(client) = self.guard.clients.get_mut(&self.client_id) {
            client.latest_version_id = version_id;
            if let Some(ref mut snap) = client.snapshot {
                snap.versions_since += 1;
            }
        } else {
            anyhow::bail!("Client {} does not exist", self.client_id);
        }

        if self
            .guard
            .children
            .insert((self.client_id, parent_version_id), version_id)
            .is_some()
        {
            anyhow::bail!(
                "Client {} already has a child for {}",
                self.client_id,
                parent_version_id
            );
        }
        if self
            .guard
            .versions
            .insert((self.client_id, version_id), version)
            .is_some()
        {
            anyhow::bail!(
                "Client {} already has a version {}",
                self.client_id,
                version_id
            );
        }

        self.written = true;
        Ok(())
    }

    fn commit(&mut self) -> anyhow::Result<()> {
        self.committed = true;
        Ok(())
    }
}

impl Drop for InnerTxn<'_> {
    fn drop(&mut self) {
        if self.written && !self.committed {
            panic!("Uncommitted InMemoryStorage transaction dropped without commiting");
        }
    }
}

#[cfg(test)]
mod test {
    use super::*;
    use chrono::Utc;

    #[test]
    fn test_get_client_empty() -> anyhow::Result<()> {
        let storage = InMemoryStorage::new();
        let mut txn = storage.txn(Uuid::new_v4())?;
        let maybe_client = txn.get_client()?;
        assert!(maybe_client.is_none());
        Ok(())
    }

    #[test]
    fn test_client_storage() -> anyhow::Result<()> {
        let storage = InMemoryStorage::new();
        let client_id = Uuid::new_v4();
        let mut txn = storage.txn(client_id)?;

        let latest_version_id = Uuid::new_v4();
        txn.new_client(latest_version_id)?;

        let client = txn.get_client()?.unwrap();
        assert_eq!(client.latest_version_id, latest_version_id);
        assert!(client.snapshot.is_none());

        let latest_version_id = Uuid::new_v4();
        txn.add_version(latest_version_id, Uuid::new_v4(), vec![1, 1])?;

        let client = txn.get_client()?.unwrap();
        assert_eq!(client.latest_version_id, latest_version_id);
        assert!(client.snapshot.is_none());

        let snap = Snapshot {
            version_id: Uuid::new_v4(),
            timestamp: Utc::now(),
            versions_since: 4,
        };
        txn.set_snapshot(snap.clone(), vec![1, 2, 3])?;

        let client = txn.get_client()?.unwrap();
        assert_eq!(client.latest_version_id, latest_version_id);
        assert_eq!(client.snapshot.unwrap(), snap);

        txn.commit()?;
        Ok(())
    }

    #[test]
    fn test_gvbp_empty() -> anyhow::Result<()> {
        let storage = InMemoryStorage::new();
        let client_id = Uuid::new_v4();
        let mut txn = storage.txn(client_id)?;
        let maybe_version = txn.get_version_by_parent(Uuid::new_v4())?;
        assert!(maybe_version.is_none());
        Ok(())
    }

    #[test]
    fn test_add_version_and_get_version() -> anyhow::Result<()> {
        let storage = InMemoryStorage::new();
        let client_id = Uuid::new_v4();
        let mut txn = storage.txn(client_id)?;

        let version_id = Uuid::new_v4();
        let parent_version_id = Uuid::new_v4();
        let history_segment = b"abc".to_vec();

        txn.new_client(parent_version_id)?;
        txn.add_version(version_id, parent_version_id, history_segment.clone())?;

        let expected = Version {
            version_id,
            parent_version_id,
            history_segment,
        };

        let version = txn.get_version_by_parent(parent_version_id)?.unwrap();
        assert_eq!(version, expected);

        let version = txn.get_version(version_id)?.unwrap();
        assert_eq!(version, expected);

        txn.commit()?;
        Ok(())
    }

    #[test]
    fn test_add_version_exists() -> anyhow::Result<()> {
        let storage = InMemoryStorage::new();
        let client_id = Uuid::new_v4();
        let mut txn = storage.txn(client_id)?;

        let version_id = Uuid::new_v4();
        let parent_version_id = Uuid::new_v4();
        let history_segment = b"abc".to_vec();

        txn.new_client(parent_version_id)?;
        txn.add_version(version_id, parent_version_id, history_segment.clone())?;
        assert!(txn
            .add_version(version_id, parent_version_id, history_segment.clone())
            .is_err());
        txn.commit()?;
        Ok(())
    }

    #[test]
    fn test_snapshots() -> anyhow::Result<()> {
        let storage = InMemoryStorage::new();
        let client_id = Uuid::new_v4();
        let mut txn = storage.txn(client_id)?;

        txn.new_client(Uuid::new_v4())?;
        assert!(txn.get_client()?.unwrap().snapshot.is_none());

        let snap = Snapshot {
            version_id: Uuid::new_v4(),
            timestamp: Utc::now(),
            versions_since: 3,
        };
        txn.set_snapshot(snap.clone(), vec![9, 8, 9])?;

        assert_eq!(
            txn.get_snapshot_data(snap.version_id)?.unwrap(),
            vec![9, 8, 9]
        );
        assert_eq!(txn.get_client()?.unwrap().snapshot, Some(snap));

        let snap2 = Snapshot {
            version_id: Uuid::new_v4(),
            timestamp: Utc::now(),
            versions_since: 10,
        };
        txn.set_snapshot(snap2.clone(), vec![0, 2, 4, 6])?;

        assert_eq!(
            txn.get_snapshot_data(snap2.version_id)?.unwrap(),
            vec![0, 2, 4, 6]
        );
        assert_eq!(txn.get_client()?.unwrap().snapshot, Some(snap2));

        // check that mismatched version is detected
        assert!(txn.get_snapshot_data(Uuid::new_v4()).is_err());

        txn.commit()?;
        Ok(())
    }
}
