//! This crate implements the core logic of the taskchampion sync protocol.
//!
//! This should be considered a reference implementation, with [the protocol
//! documentation](https://gothenburgbitfactory.org/taskchampion/sync-protocol.html). representing
//! the authoritative definition of the protocol. Other implementations are encouraged.
//!
//! This crate uses an abstract storage backend. Note that this does not implement the
//! HTTP-specific portions of the protocol, nor provide any storage implementations.
//!
//! ## Usage
//!
//! To use, create a new [`Server`] instance and call the relevant protocol API methods. The
//! arguments and return values correspond closely to the protocol documentation.

mod error;
mod inmemory;
mod server;
mod storage;

pub use error::*;
pub use inmemory::*;
pub use server::*;
pub use storage::*;
