//! SQLite VFS shim (I2): registered as the default VFS before any storage is created, so the
//! repository's own `Connection::open` goes through it unchanged. It records, in order, every
//! open / write / truncate / sync / delete / close with file name, offset and a copy of the
//! written bytes, and can make a chosen event fail with a given SQLite error code.
//!
//! Layout of a file handle: `ShimFile` (our methods pointer first, as SQLite requires) followed
//! immediately by the wrapped VFS's own file structure.

use rusqlite::ffi;
use std::ffi::{c_char, c_int, c_void, CStr};
use std::sync::atomic::{AtomicBool, Ordering};
use std::sync::{Mutex, OnceLock};

#[derive(Clone, Debug, PartialEq)]
pub enum Ev {
    Open { file: String, flags: i32 },
    Write { file: String, off: i64, data: Vec<u8> },
    Truncate { file: String, size: i64 },
    Sync { file: String, flags: i32 },
    Delete { file: String, sync_dir: bool },
    Close { file: String },
    /// harness marker (request k invoked / returned, ...)
    Mark(String),
}

impl Ev {
    pub fn kind(&self) -> &'static str {
        match self {
            Ev::Open { .. } => "open",
            Ev::Write { .. } => "write",
            Ev::Truncate { .. } => "truncate",
            Ev::Sync { .. } => "sync",
            Ev::Delete { .. } => "delete",
            Ev::Close { .. } => "close",
            Ev::Mark(_) => "mark",
        }
    }
    pub fn is_crash_point(&self) -> bool {
        matches!(self, Ev::Write { .. } | Ev::Truncate { .. } | Ev::Sync { .. } | Ev::Delete { .. })
    }
    pub fn file(&self) -> Option<&str> {
        match self {
            Ev::Open { file, .. } | Ev::Write { file, .. } | Ev::Truncate { file, .. } | Ev::Sync { file, .. } | Ev::Delete { file, .. } | Ev::Close { file } => Some(file),
            Ev::Mark(_) => None,
        }
    }
}

#[derive(Clone, Copy, Debug, PartialEq, Eq)]
pub enum FaultKind {
    Write,
    Sync,
    Truncate,
    Read,
    Lock,
    Open,
    Delete,
}

#[derive(Clone, Copy, Debug)]
pub struct FaultSpec {
    pub kind: FaultKind,
    /// fail the n-th (0-based) operation of that kind after arming
    pub nth: u64,
    pub code: i32,
    /// how many consecutive operations of that kind fail from the n-th on (1 = a single fault;
    /// large = the condition persists, e.g. a lock held by somebody else for longer than any retry)
    pub repeat: u64,
}

#[derive(Default)]
pub struct State {
    pub log: Vec<Ev>,
    pub fault: Option<FaultSpec>,
    pub seen: [u64; 7],
    pub fired: Option<(usize, String)>,
}

static STATE: OnceLock<Mutex<State>> = OnceLock::new();
static RECORDING: AtomicBool = AtomicBool::new(false);
static REGISTERED: AtomicBool = AtomicBool::new(false);
/// files opened while this is set get I/O methods without shared-memory support, as on a file
/// system where WAL cannot be used: SQLite then stays in rollback-journal mode
static NO_SHM: AtomicBool = AtomicBool::new(false);

pub fn set_no_shm(on: bool) {
    NO_SHM.store(on, Ordering::SeqCst);
}

fn state() -> &'static Mutex<State> {
    STATE.get_or_init(|| Mutex::new(State::default()))
}

pub fn start_recording() {
    let mut s = state().lock().unwrap();
    s.log.clear();
    s.fault = None;
    s.seen = [0; 7];
    s.fired = None;
    RECORDING.store(true, Ordering::SeqCst);
}

pub fn stop_recording() -> Vec<Ev> {
    RECORDING.store(false, Ordering::SeqCst);
    let mut s = state().lock().unwrap();
    s.fault = None;
    std::mem::take(&mut s.log)
}

/// Pause / resume recording without clearing the log (used around the harness's own reads).
pub fn set_recording(on: bool) {
    RECORDING.store(on, Ordering::SeqCst);
}

pub fn mark(m: &str) {
    if RECORDING.load(Ordering::SeqCst) {
        state().lock().unwrap().log.push(Ev::Mark(m.to_string()));
    }
}

pub fn log_len() -> usize {
    state().lock().unwrap().log.len()
}

pub fn arm(f: Option<FaultSpec>) {
    let mut s = state().lock().unwrap();
    s.fault = f;
    s.seen = [0; 7];
    s.fired = None;
}

pub fn fired() -> Option<(usize, String)> {
    state().lock().unwrap().fired.clone()
}

fn record(ev: Ev) {
    if RECORDING.load(Ordering::SeqCst) {
        state().lock().unwrap().log.push(ev);
    }
}

/// Returns Some(code) if this operation must fail now.
fn check_fault(kind: FaultKind, what: &str) -> Option<i32> {
    if !RECORDING.load(Ordering::SeqCst) {
        return None;
    }
    let mut s = state().lock().unwrap();
    let idx = kind as usize;
    let n = s.seen[idx];
    s.seen[idx] += 1;
    if let Some(f) = s.fault {
        if f.kind == kind && n >= f.nth && n < f.nth.saturating_add(f.repeat.max(1)) {
            if s.fired.is_none() {
                let at = s.log.len();
                s.fired = Some((at, format!("{kind:?} #{n} on {what} -> code {}{}", f.code, if f.repeat > 1 { format!(" (and the next {} as well)", f.repeat - 1) } else { String::new() })));
            }
            return Some(f.code);
        }
    }
    None
}

#[repr(C)]
struct ShimFile {
    base: ffi::sqlite3_file,
    name: *mut String,
    // the real file structure follows
}

unsafe fn real_file(f: *mut ffi::sqlite3_file) -> *mut ffi::sqlite3_file {
    (f as *mut u8).add(std::mem::size_of::<ShimFile>()) as *mut ffi::sqlite3_file
}

unsafe fn fname(f: *mut ffi::sqlite3_file) -> String {
    let sf = f as *mut ShimFile;
    if (*sf).name.is_null() {
        String::new()
    } else {
        (*(*sf).name).clone()
    }
}

unsafe fn real_vfs(v: *mut ffi::sqlite3_vfs) -> *mut ffi::sqlite3_vfs {
    (*v).pAppData as *mut ffi::sqlite3_vfs
}

macro_rules! rm {
    ($f:expr) => {
        (*(*real_file($f)).pMethods)
    };
}

unsafe extern "C" fn x_close(f: *mut ffi::sqlite3_file) -> c_int {
    let name = fname(f);
    record(Ev::Close { file: name });
    let rc = rm!(f).xClose.unwrap()(real_file(f));
    let sf = f as *mut ShimFile;
    if !(*sf).name.is_null() {
        drop(Box::from_raw((*sf).name));
        (*sf).name = std::ptr::null_mut();
    }
    rc
}

unsafe extern "C" fn x_read(f: *mut ffi::sqlite3_file, buf: *mut c_void, amt: c_int, off: i64) -> c_int {
    if let Some(code) = check_fault(FaultKind::Read, &fname(f)) {
        return code;
    }
    rm!(f).xRead.unwrap()(real_file(f), buf, amt, off)
}

unsafe extern "C" fn x_write(f: *mut ffi::sqlite3_file, buf: *const c_void, amt: c_int, off: i64) -> c_int {
    let name = fname(f);
    if let Some(code) = check_fault(FaultKind::Write, &name) {
        return code;
    }
    if RECORDING.load(Ordering::SeqCst) {
        let data = std::slice::from_raw_parts(buf as *const u8, amt as usize).to_vec();
        record(Ev::Write { file: name, off, data });
    }
    rm!(f).xWrite.unwrap()(real_file(f), buf, amt, off)
}

unsafe extern "C" fn x_truncate(f: *mut ffi::sqlite3_file, size: i64) -> c_int {
    let name = fname(f);
    if let Some(code) = check_fault(FaultKind::Truncate, &name) {
        return code;
    }
    record(Ev::Truncate { file: name, size });
    rm!(f).xTruncate.unwrap()(real_file(f), size)
}

unsafe extern "C" fn x_sync(f: *mut ffi::sqlite3_file, flags: c_int) -> c_int {
    let name = fname(f);
    if let Some(code) = check_fault(FaultKind::Sync, &name) {
        return code;
    }
    let rc = rm!(f).xSync.unwrap()(real_file(f), flags);
    if rc == 0 {
        // recorded after it succeeded: the content is durable from here on
        record(Ev::Sync { file: name, flags });
    }
    rc
}

unsafe extern "C" fn x_file_size(f: *mut ffi::sqlite3_file, p: *mut i64) -> c_int {
    rm!(f).xFileSize.unwrap()(real_file(f), p)
}

unsafe extern "C" fn x_lock(f: *mut ffi::sqlite3_file, l: c_int) -> c_int {
    if let Some(code) = check_fault(FaultKind::Lock, &fname(f)) {
        return code;
    }
    rm!(f).xLock.unwrap()(real_file(f), l)
}

unsafe extern "C" fn x_unlock(f: *mut ffi::sqlite3_file, l: c_int) -> c_int {
    rm!(f).xUnlock.unwrap()(real_file(f), l)
}

unsafe extern "C" fn x_check_reserved(f: *mut ffi::sqlite3_file, p: *mut c_int) -> c_int {
    rm!(f).xCheckReservedLock.unwrap()(real_file(f), p)
}

unsafe extern "C" fn x_file_control(f: *mut ffi::sqlite3_file, op: c_int, arg: *mut c_void) -> c_int {
    rm!(f).xFileControl.unwrap()(real_file(f), op, arg)
}

unsafe extern "C" fn x_sector_size(f: *mut ffi::sqlite3_file) -> c_int {
    rm!(f).xSectorSize.unwrap()(real_file(f))
}

unsafe extern "C" fn x_dev_char(f: *mut ffi::sqlite3_file) -> c_int {
    rm!(f).xDeviceCharacteristics.unwrap()(real_file(f))
}

unsafe extern "C" fn x_shm_map(f: *mut ffi::sqlite3_file, pg: c_int, sz: c_int, ext: c_int, pp: *mut *mut c_void) -> c_int {
    rm!(f).xShmMap.unwrap()(real_file(f), pg, sz, ext, pp)
}

unsafe extern "C" fn x_shm_lock(f: *mut ffi::sqlite3_file, off: c_int, n: c_int, flags: c_int) -> c_int {
    rm!(f).xShmLock.unwrap()(real_file(f), off, n, flags)
}

unsafe extern "C" fn x_shm_barrier(f: *mut ffi::sqlite3_file) {
    rm!(f).xShmBarrier.unwrap()(real_file(f))
}

unsafe extern "C" fn x_shm_unmap(f: *mut ffi::sqlite3_file, del: c_int) -> c_int {
    rm!(f).xShmUnmap.unwrap()(real_file(f), del)
}

static IO_METHODS: ffi::sqlite3_io_methods = ffi::sqlite3_io_methods {
    iVersion: 2,
    xClose: Some(x_close),
    xRead: Some(x_read),
    xWrite: Some(x_write),
    xTruncate: Some(x_truncate),
    xSync: Some(x_sync),
    xFileSize: Some(x_file_size),
    xLock: Some(x_lock),
    xUnlock: Some(x_unlock),
    xCheckReservedLock: Some(x_check_reserved),
    xFileControl: Some(x_file_control),
    xSectorSize: Some(x_sector_size),
    xDeviceCharacteristics: Some(x_dev_char),
    xShmMap: Some(x_shm_map),
    xShmLock: Some(x_shm_lock),
    xShmBarrier: Some(x_shm_barrier),
    xShmUnmap: Some(x_shm_unmap),
    xFetch: None,
    xUnfetch: None,
};

static IO_METHODS_V1: ffi::sqlite3_io_methods = ffi::sqlite3_io_methods {
    iVersion: 1,
    xClose: Some(x_close),
    xRead: Some(x_read),
    xWrite: Some(x_write),
    xTruncate: Some(x_truncate),
    xSync: Some(x_sync),
    xFileSize: Some(x_file_size),
    xLock: Some(x_lock),
    xUnlock: Some(x_unlock),
    xCheckReservedLock: Some(x_check_reserved),
    xFileControl: Some(x_file_control),
    xSectorSize: Some(x_sector_size),
    xDeviceCharacteristics: Some(x_dev_char),
    xShmMap: None,
    xShmLock: None,
    xShmBarrier: None,
    xShmUnmap: None,
    xFetch: None,
    xUnfetch: None,
};

unsafe extern "C" fn v_open(v: *mut ffi::sqlite3_vfs, name: *const c_char, f: *mut ffi::sqlite3_file, flags: c_int, out: *mut c_int) -> c_int {
    let sf = f as *mut ShimFile;
    (*sf).base.pMethods = std::ptr::null();
    (*sf).name = std::ptr::null_mut();
    let n = if name.is_null() { String::from("<temp>") } else { CStr::from_ptr(name).to_string_lossy().to_string() };
    if let Some(code) = check_fault(FaultKind::Open, &n) {
        return code;
    }
    let rv = real_vfs(v);
    let rc = (*rv).xOpen.unwrap()(rv, name, real_file(f), flags, out);
    if !(*real_file(f)).pMethods.is_null() {
        // SQLite calls xClose whenever pMethods is set, even if xOpen failed
        (*sf).base.pMethods = if NO_SHM.load(Ordering::SeqCst) { &IO_METHODS_V1 } else { &IO_METHODS };
        (*sf).name = Box::into_raw(Box::new(n.clone()));
    }
    if rc == 0 {
        record(Ev::Open { file: n, flags });
    }
    rc
}

unsafe extern "C" fn v_delete(v: *mut ffi::sqlite3_vfs, name: *const c_char, sync_dir: c_int) -> c_int {
    let n = CStr::from_ptr(name).to_string_lossy().to_string();
    if let Some(code) = check_fault(FaultKind::Delete, &n) {
        return code;
    }
    record(Ev::Delete { file: n, sync_dir: sync_dir != 0 });
    let rv = real_vfs(v);
    (*rv).xDelete.unwrap()(rv, name, sync_dir)
}

unsafe extern "C" fn v_access(v: *mut ffi::sqlite3_vfs, name: *const c_char, flags: c_int, out: *mut c_int) -> c_int {
    let rv = real_vfs(v);
    (*rv).xAccess.unwrap()(rv, name, flags, out)
}

unsafe extern "C" fn v_full_pathname(v: *mut ffi::sqlite3_vfs, name: *const c_char, n: c_int, out: *mut c_char) -> c_int {
    let rv = real_vfs(v);
    (*rv).xFullPathname.unwrap()(rv, name, n, out)
}

unsafe extern "C" fn v_dl_open(v: *mut ffi::sqlite3_vfs, name: *const c_char) -> *mut c_void {
    let rv = real_vfs(v);
    (*rv).xDlOpen.unwrap()(rv, name)
}

unsafe extern "C" fn v_dl_error(v: *mut ffi::sqlite3_vfs, n: c_int, msg: *mut c_char) {
    let rv = real_vfs(v);
    (*rv).xDlError.unwrap()(rv, n, msg)
}

unsafe extern "C" fn v_dl_sym(v: *mut ffi::sqlite3_vfs, h: *mut c_void, sym: *const c_char) -> Option<unsafe extern "C" fn(*mut ffi::sqlite3_vfs, *mut c_void, *const c_char)> {
    let rv = real_vfs(v);
    (*rv).xDlSym.unwrap()(rv, h, sym)
}

unsafe extern "C" fn v_dl_close(v: *mut ffi::sqlite3_vfs, h: *mut c_void) {
    let rv = real_vfs(v);
    (*rv).xDlClose.unwrap()(rv, h)
}

unsafe extern "C" fn v_randomness(v: *mut ffi::sqlite3_vfs, n: c_int, out: *mut c_char) -> c_int {
    let rv = real_vfs(v);
    (*rv).xRandomness.unwrap()(rv, n, out)
}

unsafe extern "C" fn v_sleep(v: *mut ffi::sqlite3_vfs, us: c_int) -> c_int {
    // while a persistent fault is armed the busy handler's waiting is virtual: the lock-wait budget
    // (seconds) elapses without the check having to sit through it
    if RECORDING.load(Ordering::SeqCst) {
        if let Ok(s) = state().lock() {
            if s.fault.map(|f| f.repeat > 1).unwrap_or(false) {
                return us;
            }
        }
    }
    let rv = real_vfs(v);
    (*rv).xSleep.unwrap()(rv, us)
}

unsafe extern "C" fn v_current_time(v: *mut ffi::sqlite3_vfs, t: *mut f64) -> c_int {
    let rv = real_vfs(v);
    (*rv).xCurrentTime.unwrap()(rv, t)
}

unsafe extern "C" fn v_get_last_error(v: *mut ffi::sqlite3_vfs, n: c_int, msg: *mut c_char) -> c_int {
    let rv = real_vfs(v);
    (*rv).xGetLastError.unwrap()(rv, n, msg)
}

unsafe extern "C" fn v_current_time_i64(v: *mut ffi::sqlite3_vfs, t: *mut i64) -> c_int {
    let rv = real_vfs(v);
    (*rv).xCurrentTimeInt64.unwrap()(rv, t)
}

/// Register the shim as the default VFS (idempotent). Must be called before any connection is
/// opened by the code under test.
pub fn register() -> Result<(), String> {
    if REGISTERED.swap(true, Ordering::SeqCst) {
        return Ok(());
    }
    unsafe {
        let real = ffi::sqlite3_vfs_find(std::ptr::null());
        if real.is_null() {
            return Err("no default sqlite vfs".into());
        }
        let name: &'static CStr = CStr::from_bytes_with_nul(b"verif-shim\0").unwrap();
        let shim = Box::new(ffi::sqlite3_vfs {
            iVersion: 2,
            szOsFile: (std::mem::size_of::<ShimFile>() as c_int) + (*real).szOsFile,
            mxPathname: (*real).mxPathname,
            pNext: std::ptr::null_mut(),
            zName: name.as_ptr(),
            pAppData: real as *mut c_void,
            xOpen: Some(v_open),
            xDelete: Some(v_delete),
            xAccess: Some(v_access),
            xFullPathname: Some(v_full_pathname),
            xDlOpen: Some(v_dl_open),
            xDlError: Some(v_dl_error),
            xDlSym: Some(v_dl_sym),
            xDlClose: Some(v_dl_close),
            xRandomness: Some(v_randomness),
            xSleep: Some(v_sleep),
            xCurrentTime: Some(v_current_time),
            xGetLastError: Some(v_get_last_error),
            xCurrentTimeInt64: Some(v_current_time_i64),
            xSetSystemCall: None,
            xGetSystemCall: None,
            xNextSystemCall: None,
        });
        let p = Box::into_raw(shim);
        let rc = ffi::sqlite3_vfs_register(p, 1);
        if rc != 0 {
            return Err(format!("sqlite3_vfs_register failed: {rc}"));
        }
    }
    Ok(())
}
