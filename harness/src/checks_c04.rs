//! C04 — crash explorer driver: histories on the SQLite backend under the recording VFS, every
//! write/truncate/sync/delete a crash point, process-crash and power-loss images recovered with
//! the code under test and compared with the logical states recorded while the history ran.

use crate::crash::{Image, Shadow};
use crate::dump::dump_sql;
use crate::evidence::{CheckResult, Cov, Found, Shard, ShardOut, Verdict};
use crate::ops::{Req, Resp};
use crate::prng::Rng;
use crate::scratch::ScratchDir;
use crate::subject::{db_file, Config, Kind, Subject};
use crate::vfs::{self, Ev};
use serde_json::json;
use std::collections::HashSet;
use taskchampion_sync_server_storage_sqlite::SqliteStorage;
use uuid::Uuid;

fn normalized(rows: &[String]) -> Vec<String> {
    rows.iter()
        .filter(|r| !(r.starts_with("clients:") && r.contains("latest_version_id=t'00000000-0000-0000-0000-000000000000'") && r.contains("snapshot_version_id=NULL")))
        .filter(|r| !(r.starts_with("proto-client") && (r.contains("exists=false") || (r.contains("latest=Some(00000000-0000-0000-0000-000000000000)") && r.contains("snapshot=None")))))
        .cloned()
        .collect()
}

#[derive(Clone, Debug)]
pub struct Recovered {
    pub rows: Vec<String>,
    pub integrity: String,
}

/// Protocol-visible state read through the storage API of the tree under test (covers data the
/// code may keep outside the main database file): appended to the SQL rows as extra "rows".
pub fn proto_rows(st: &dyn taskchampion_sync_server_core::Storage, clients: &[Uuid], ids: &[Uuid]) -> Vec<String> {
    let d = crate::dump::dump_storage(st, clients, ids);
    let mut out = vec![];
    for (c, cd) in &d.clients {
        out.push(format!("proto-client {c}: exists={} latest={:?} snapshot={:?} snapshot_data={:?} errors={:?}", cd.exists, cd.latest, cd.snapshot, cd.snapshot_data, cd.errors));
        for (v, (p, len, h)) in &cd.versions {
            out.push(format!("proto-version {c}: {v} parent={p} len={len} hash={h:016x}"));
        }
    }
    out
}

/// Open an image with the code under test and read its logical content.
pub fn recover(im: &Image, clients: &[Uuid], ids: &[Uuid]) -> Result<Recovered, String> {
    let d = ScratchDir::new("c04img");
    im.materialize(d.path()).map_err(|e| format!("materialize: {e}"))?;
    let st = SqliteStorage::new(d.path()).map_err(|e| format!("the database does not open: {e:#}"))?;
    let db = db_file(d.path());
    let mut rows = dump_sql(&db).map_err(|e| format!("the database cannot be read: {e:#}"))?;
    rows.extend(proto_rows(&st, clients, ids));
    let integrity = {
        let con = rusqlite::Connection::open(&db).map_err(|e| format!("open: {e}"))?;
        let r: Result<String, _> = con.query_row("PRAGMA integrity_check", [], |r| r.get(0));
        r.unwrap_or_else(|e| format!("integrity_check failed to run: {e}"))
    };
    Ok(Recovered { rows, integrity })
}

struct Step {
    req: Req,
    client: Uuid,
}

fn gen_requests(rng: &mut Rng, n: usize, big: bool, huge: bool) -> Vec<(usize, u8, usize)> {
    // (client, kind, payload size): kind 0 add(valid) 1 add(stale) 2 snapshot(latest) 3 snapshot(stale/decline) 4 get-child 5 get-snapshot
    let sizes_small = [10usize, 200, 3900, 4000, 4100, 4200];
    let sizes_big: &[usize] = if huge { &[70_000, 300_000, 1_500_000] } else { &[70_000, 300_000] };
    let mut v = vec![];
    for i in 0..n {
        let c = rng.usize(4);
        let kind = if i < 3 { 0 } else { rng.weighted(&[50, 8, 18, 6, 10, 8]) as u8 };
        let size = if big && rng.pct(35) { *rng.pick(sizes_big) } else { *rng.pick(&sizes_small) };
        v.push((c, kind, size));
    }
    // every history ends with a client that replaces its own snapshot (twice) and another client's
    // first snapshot in between
    let c = rng.usize(4);
    let o = (c + 1) % 4;
    for (cl, kind, size) in [(c, 0u8, 200usize), (c, 2, 4100), (o, 0, 10), (c, 0, 200), (o, 2, 300), (c, 2, 9000), (c, 0, 10), (c, 2, 64)] {
        v.push((cl, kind, size));
    }
    v
}

pub fn shard_run(tier: &str, seed: u64, replay_case: Option<usize>, shard: Shard) -> ShardOut {
    let thorough = tier == "thorough";
    let mut out = ShardOut::default();
    let mut cov = Cov::default();
    if let Err(e) = vfs::register() {
        out.errors.push(e);
        return out;
    }
    let n_hist = if thorough { 160 } else { 24 };
    for hi in 0..n_hist {
        match replay_case {
            Some(c) => {
                if c / 1_000_000 != hi {
                    continue;
                }
            }
            None => {
                if !shard.mine(hi) {
                    continue;
                }
            }
        }
        let mut rng = Rng::new(seed).fork(0xC04 + hi as u64);
        let bystander = hi % 3 == 1;
        let http = hi % 4 == 2;
        let big = hi % 5 == 1;
        let nreq = if big { 6 + rng.usize(4) } else { 6 + rng.usize(10) };
        let plan = gen_requests(&mut rng, nreq, big, thorough);
        let clients = [rng.uuid(), rng.uuid(), rng.uuid(), rng.uuid()];
        // ---- record
        vfs::start_recording();
        let kind = if http { Kind::SQL_HTTP } else { Kind::SQL_LIB };
        let mut subj = match Subject::new(kind, Config::default()) {
            Ok(s) => s,
            Err(e) => {
                vfs::stop_recording();
                out.errors.push(format!("subject: {e:#}"));
                continue;
            }
        };
        let db = subj.db_path().unwrap();
        let by_con = if bystander {
            let c = rusqlite::Connection::open(&db).ok();
            if let Some(c) = &c {
                let _: Result<i64, _> = c.query_row("SELECT count(*) FROM clients", [], |r| r.get(0));
            }
            c
        } else {
            None
        };
        vfs::mark("setup-done");
        // logical states are recorded as SQL rows only; the protocol-level rows are added after the
        // run (they need the final set of version ids) by re-reading images of the recorded states
        let snap = |subj: &Subject| -> Vec<String> {
            vfs::set_recording(false);
            let r = dump_sql(&subj.db_path().unwrap()).unwrap_or_else(|e| vec![format!("DUMP ERROR {e:#}")]);
            vfs::set_recording(true);
            r
        };
        let mut state_images: Vec<ScratchDir> = vec![];
        let keep_image = |subj: &Subject, v: &mut Vec<ScratchDir>| {
            vfs::set_recording(false);
            let d = ScratchDir::new("c04state");
            let _ = crate::scratch::copy_dir(subj.dir.as_ref().unwrap().path(), d.path());
            v.push(d);
            vfs::set_recording(true);
        };
        let mut states: Vec<Vec<String>> = vec![snap(&subj)];
        keep_image(&subj, &mut state_images);
        // clients 2 and 3 start their chains from a non-nil id
        let mut latest = [Uuid::nil(), Uuid::nil(), rng.uuid(), rng.uuid()];
        let mut chain: [Vec<Uuid>; 4] = [vec![], vec![], vec![], vec![]];
        let mut descr: Vec<String> = vec![];
        let mut ok = true;
        for (k, (c, kindr, size)) in plan.iter().enumerate() {
            let data: Vec<u8> = {
                let mut r = Rng::new(seed ^ (hi as u64) << 20 ^ k as u64);
                (0..*size).map(|_| r.next_u64() as u8).collect()
            };
            let req = match kindr {
                0 => Req::AddVersion { parent: latest[*c], data },
                1 => Req::AddVersion { parent: chain[*c].first().copied().unwrap_or(Uuid::new_v4()), data },
                2 => Req::AddSnapshot { vid: latest[*c], data },
                3 => Req::AddSnapshot { vid: Uuid::new_v4(), data },
                4 => Req::GetChild { parent: chain[*c].first().copied().unwrap_or(Uuid::nil()) },
                _ => Req::GetSnapshot,
            };
            descr.push(format!("#{k} c{c} {} ({} bytes)", req.name(), size));
            // one request of every third history arrives while another process holds the database's
            // write lock for about as long as the whole lock-wait budget (4.6 - 5.3 s): it may fail (and
            // then must not have written anything, at any crash point) or be served once the lock is free
            let lock_held = hi % 3 == 1 && k == 2;
            let hold_ms = [4600u64, 5050, 4850, 5300][(hi / 3) % 4];
            let holder = if lock_held {
                let dbp = db.clone();
                let h = std::thread::spawn(move || {
                    if let Ok(con) = rusqlite::Connection::open(&dbp) {
                        if con.execute_batch("BEGIN IMMEDIATE").is_ok() {
                            std::thread::sleep(std::time::Duration::from_millis(hold_ms));
                            let _ = con.execute_batch("ROLLBACK");
                        }
                    }
                });
                std::thread::sleep(std::time::Duration::from_millis(120));
                cov.hit("write-lock-held-beyond-the-lock-wait-budget".into());
                Some(h)
            } else {
                None
            };
            vfs::mark(&format!("inv {k}"));
            let resp = subj.exec(clients[*c], &req);
            vfs::mark(&format!("ret {k}"));
            if let Some(h) = holder {
                let _ = h.join();
                if matches!(resp, Resp::Error(_)) {
                    cov.hit("write-lock-held-beyond-the-lock-wait-budget:request-failed".into());
                    states.push(snap(&subj));
                    keep_image(&subj, &mut state_images);
                    continue;
                }
            }
            if let Resp::AddOk { vid, .. } = &resp {
                latest[*c] = *vid;
                chain[*c].push(*vid);
            }
            if let Resp::Error(e) = &resp {
                out.errors.push(format!("history {hi}: request {k} failed without any fault: {e}"));
                ok = false;
                break;
            }
            states.push(snap(&subj));
            keep_image(&subj, &mut state_images);
        }
        drop(by_con);
        drop(subj);
        let events = vfs::stop_recording();
        if !ok {
            continue;
        }
        // protocol-level rows of every recorded state (read from the quiescent copies)
        let all_ids: Vec<Uuid> = chain.iter().flatten().copied().chain(latest.iter().copied()).collect();
        for (i, img) in state_images.iter().enumerate() {
            // a copy taken while the bystander connection was open may carry a live WAL: opening it
            // replays the WAL, which is exactly the quiescent logical state
            if let Ok(st) = SqliteStorage::new(img.path()) {
                let pr = proto_rows(&st, &clients, &all_ids);
                states[i].extend(pr);
            }
        }
        drop(state_images);
        out.executed += 1;
        cov.hit(format!("regime:{}:{}:{}", if bystander { "bystander" } else { "solo" }, if http { "http" } else { "lib" }, if big { "big-payloads" } else { "small-payloads" }));
        // ---- explore crash points
        let n_points_total = events.iter().filter(|e| e.is_crash_point()).count();
        let mut shadow = Shadow::default();
        let mut cur_req: Option<usize> = None; // in flight
        let mut acked: usize = 0; // states index of the last acknowledged request
        let mut seen: HashSet<(u64, usize, bool)> = HashSet::new();
        let mut point_no = 0usize;
        let mut points_in_req = 0usize;
        let stride = |n: usize| (n / if thorough { 400 } else { 80 }).max(1);
        // count crash points per request for sampling
        let mut per_req: Vec<usize> = vec![0; plan.len() + 1];
        {
            let mut r = 0usize;
            for e in &events {
                if let Ev::Mark(m) = e {
                    if let Some(k) = m.strip_prefix("inv ") {
                        r = k.parse::<usize>().unwrap_or(0) + 1;
                    }
                } else if e.is_crash_point() {
                    per_req[r.min(plan.len())] += 1;
                }
            }
        }
        let db_name = db.to_string_lossy().to_string();
        let mut checkpoint_writes_in_flight = 0u64;
        for (ei, ev) in events.iter().enumerate() {
            if let Ev::Mark(m) = ev {
                if let Some(k) = m.strip_prefix("inv ") {
                    cur_req = k.parse().ok();
                    points_in_req = 0;
                } else if let Some(k) = m.strip_prefix("ret ") {
                    let k: usize = k.parse().unwrap_or(0);
                    cur_req = None;
                    acked = k + 1;
                }
                if !m.starts_with("ret ") {
                    continue;
                }
            }
            if ev.is_crash_point() || matches!(ev, Ev::Mark(_)) {
                point_no += 1;
                points_in_req += 1;
                if let (Ev::Write { file, .. }, Some(_)) = (ev, cur_req) {
                    if *file == db_name {
                        checkpoint_writes_in_flight += 1;
                    }
                }
                let in_setup = !events[..ei].iter().any(|e| matches!(e, Ev::Mark(m) if m == "setup-done"));
                let n_here = cur_req.map(|k| per_req[k + 1]).unwrap_or(0);
                let sampled = matches!(ev, Ev::Sync { .. } | Ev::Delete { .. } | Ev::Truncate { .. } | Ev::Mark(_)) || points_in_req % stride(n_here) == 0;
                if !in_setup && sampled {
                    let case = hi * 1_000_000 + ei;
                    if replay_case.map(|c| c == case).unwrap_or(true) {
                        cov.count(&format!("crash_points_{}", ev.kind()), 1);
                        // allowed logical states
                        let allowed: Vec<&Vec<String>> = match cur_req {
                            Some(k) => vec![&states[k], &states[k + 1]],
                            None => vec![&states[acked]],
                        };
                        let allowed_norm: Vec<Vec<String>> = allowed.iter().map(|a| normalized(a)).collect();
                        let mut images: Vec<(String, Image)> = vec![("process-crash".to_string(), shadow.process_image())];
                        let mut prng = rng.fork(ei as u64);
                        images.extend(shadow.power_images(&mut prng, if thorough { 16 } else { 2 }, thorough).into_iter().map(|(n, i)| (format!("power-loss: {n}"), i)));
                        for (iname, im) in images {
                            cov.evaluations += 1;
                            let key = (im.fingerprint(), cur_req.map(|k| k + 1).unwrap_or(acked), cur_req.is_some());
                            if !seen.insert(key) {
                                cov.count("images_identical_to_an_earlier_one", 1);
                                continue;
                            }
                            cov.count(if iname.starts_with("process") { "images_process_crash" } else { "images_power_loss" }, 1);
                            let where_ = format!(
                                "history {hi} ({}{}), crash {} event #{ei} ({} on {}), {}",
                                if bystander { "bystander connection, " } else { "" },
                                if http { "HTTP" } else { "library" },
                                if matches!(ev, Ev::Mark(_)) { "right after the acknowledgement," } else { "before" },
                                ev.kind(),
                                ev.file().map(|f| f.rsplit('/').next().unwrap_or(f)).unwrap_or(""),
                                match cur_req {
                                    Some(k) => format!("request {} in flight", descr[k]),
                                    None => format!("after request {} was acknowledged", if acked > 0 { descr[acked - 1].clone() } else { "(none)".into() }),
                                }
                            );
                            let rep = json!({"origin": "c04", "case": case, "image": iname, "history": descr, "event_index": ei, "bystander": bystander, "http": http,
                                "events_before": events[ei.saturating_sub(12)..ei].iter().map(|e| match e { Ev::Write { file, off, data } => format!("write {} @{off} +{}", file.rsplit('/').next().unwrap_or(file), data.len()), o => format!("{o:?}").chars().take(120).collect() }).collect::<Vec<_>>()});
                            let bad = match recover(&im, &clients, &all_ids) {
                                Err(e) => Some(format!("{where_}: image [{iname}] {e}")),
                                Ok(r) => {
                                    if r.integrity != "ok" {
                                        Some(format!("{where_}: image [{iname}] fails integrity_check: {}", r.integrity))
                                    } else {
                                        let got = normalized(&r.rows);
                                        if allowed_norm.iter().any(|a| *a == got) {
                                            let which = allowed_norm.iter().position(|a| *a == got).unwrap();
                                            cov.hit(format!("{}|{}|recovered={}", if iname.starts_with("process") { "process-crash" } else { "power-loss" }, if cur_req.is_some() { "in-flight" } else { "acknowledged" }, if cur_req.is_some() { if which == 0 && allowed_norm[0] != allowed_norm[1] { "before" } else if allowed_norm[0] == allowed_norm[1] { "unchanged" } else { "after" } } else { "acknowledged-state" }));
                                            None
                                        } else {
                                            let missing: Vec<_> = allowed_norm.last().unwrap().iter().filter(|x| !got.contains(x)).take(2).map(|s| s.chars().take(160).collect::<String>()).collect();
                                            let extra: Vec<_> = got.iter().filter(|x| !allowed_norm.last().unwrap().contains(x)).take(2).map(|s| s.chars().take(160).collect::<String>()).collect();
                                            let vs_before: Vec<_> = allowed_norm[0].iter().filter(|x| !got.contains(x)).take(2).map(|s| s.chars().take(160).collect::<String>()).collect();
                                            let extra_b: Vec<_> = got.iter().filter(|x| !allowed_norm[0].contains(x)).take(2).map(|s| s.chars().take(160).collect::<String>()).collect();
                                            Some(format!(
                                                "{where_}: image [{iname}] (files {:?}) recovers to a state that is {}: against the later state: missing rows {missing:?}, unexpected rows {extra:?}; against the earlier state: missing {vs_before:?}, unexpected {extra_b:?}",
                                                im.files.iter().map(|(n, d)| format!("{}:{}B", n.rsplit('/').next().unwrap_or(n), d.len())).collect::<Vec<_>>(),
                                                if cur_req.is_some() { "neither the state before nor the state after the in-flight request" } else { "not the acknowledged state (acknowledged data lost or changed)" }
                                            ))
                                        }
                                    }
                                }
                            };
                            if cov.samples.len() < 3 && bad.is_none() && iname.contains("prefix") {
                                cov.samples.push(json!({"where": where_, "image": iname, "files": im.files.iter().map(|(n, d)| format!("{}:{}B", n.rsplit('/').next().unwrap_or(n), d.len())).collect::<Vec<_>>(), "verdict": "recovered to an allowed state"}));
                            }
                            if let Some(m) = bad {
                                out.found.push(Found { property: "C04".into(), signature: format!("C04:{}", m.split(": image").nth(1).unwrap_or("").split_whitespace().take(10).collect::<Vec<_>>().join(" ")), msg: m, replay: rep });
                                out.cov = cov;
                                return out;
                            }
                        }
                    }
                }
            }
            shadow.apply(ev);
        }
        cov.count("crash_points_total_in_logs", n_points_total as u64);
        if checkpoint_writes_in_flight > 0 {
            cov.hit("checkpoint-writes-while-request-in-flight".into());
        }
        if events.iter().any(|e| matches!(e, Ev::Delete { file, .. } if file.ends_with("-wal"))) {
            cov.hit("wal-deleted-at-close".into());
        }
        let _ = point_no;
        if cov.samples.is_empty() {
            cov.samples.push(json!({"history": descr, "vfs_events": events.len(), "crash_points": n_points_total}));
        }
    }
    // ---- crash while a data directory written by the pinned release is opened for the first time
    // by the code under test (start-up migrations run here)
    if replay_case.is_none() {
        if let Some(f) = upgrade_open_crashes(seed, thorough, shard, &mut cov, &mut out.errors) {
            out.found.push(f);
            out.cov = cov;
            return out;
        }
    }
    // ---- the real executable started on the states a crash leaves between two commits of one request
    if replay_case.map(|c| c == 880_000).unwrap_or(shard.k == 6 % shard.n) {
        if let Some(f) = crash_state_start(&mut cov, &mut out.errors) {
            out.found.push(f);
            out.cov = cov;
            return out;
        }
    }
    // ---- end-to-end cross-check: the real executable under a write workload, killed with kill -9
    // at random instants; after restart every acknowledged request must be present
    if replay_case.is_none() {
        let cycles = if thorough { 240 } else { 18 };
        if let Some(f) = kill_loop(seed, cycles, shard, &mut cov, &mut out.errors) {
            out.found.push(f);
        }
    }
    out.cov = cov;
    out
}

fn proto_only(rows: &[String]) -> Vec<String> {
    normalized(rows).into_iter().filter(|r| r.starts_with("proto-")).collect()
}

/// Every file-system operation issued while the current code opens (and first serves from) a
/// directory written by the pinned code is a crash point; every image must still hold exactly the
/// content the pinned code had stored. Then the real executable is started on such a directory
/// (with a 50 MB snapshot, so that any start-up copying takes time) and killed after a few
/// milliseconds, several times; the content must survive that too.
fn upgrade_open_crashes(seed: u64, thorough: bool, shard: Shard, cov: &mut Cov, errors: &mut Vec<String>) -> Option<Found> {
    use crate::checks_c19::{verify_dir, write_pinned};
    let n = if thorough { 24 } else { 6 };
    for i in 0..n {
        if !shard.mine(i + 2) {
            continue;
        }
        let src = ScratchDir::new("c04pin");
        let exp = match write_pinned(src.path(), seed.wrapping_add(0xC04_0000 + i as u64), i % 4 == 0) {
            Ok(e) => e,
            Err(e) => {
                errors.push(format!("pinned writer: {e:#}"));
                continue;
            }
        };
        if i % 3 == 1 {
            // a database with a long free list: a 2.5 MiB snapshot replaced by a small one (pinned storage API)
            use pinned_core::Storage as _;
            if let (Ok(st), Some(c)) = (pinned_sqlite::SqliteStorage::new(src.path()), exp.clients.first()) {
                if let Some(v) = c.versions.last().map(|v| v.vid) {
                    for len in [2_600_000usize, 300] {
                        if let Ok(mut t) = st.txn(c.id) {
                            let _ = t.set_snapshot(pinned_core::Snapshot { version_id: v, timestamp: chrono::Utc::now(), versions_since: 0 }, vec![5u8; len]);
                            let _ = t.commit();
                        }
                    }
                    cov.hit("upgrade-open:database-with-long-free-list".into());
                }
            }
        }
        let clients: Vec<Uuid> = exp.clients.iter().map(|c| c.id).collect();
        let mut ids: Vec<Uuid> = vec![];
        for c in &exp.clients {
            for v in &c.versions {
                ids.push(v.vid);
                ids.push(v.parent);
            }
        }
        // the logical content as the pinned writer left it (read from a copy)
        let s0 = {
            let c = ScratchDir::new("c04pin0");
            let _ = crate::scratch::copy_dir(src.path(), c.path());
            match SqliteStorage::new(c.path()) {
                Ok(st) => proto_only(&proto_rows(&st, &clients, &ids)),
                Err(e) => {
                    errors.push(format!("cannot open pinned directory: {e:#}"));
                    continue;
                }
            }
        };
        let work = ScratchDir::new("c04pinw");
        let _ = crate::scratch::copy_dir(src.path(), work.path());
        let mut shadow = Shadow::from_dir(work.path());
        vfs::start_recording();
        {
            // first open by the code under test, then one read and one write through the server
            if let Ok(mut subj) = Subject::open_dir(Kind::SQL_LIB, Config::default(), ScratchDir(work.path().to_path_buf())) {
                if let Some(c) = clients.first() {
                    let _ = subj.exec(*c, &Req::GetChild { parent: Uuid::nil() });
                }
                // keep the directory: the ScratchDir handed to the subject must not delete it
                if let Some(d) = subj.dir.take() {
                    std::mem::forget(d);
                }
            }
        }
        let events = vfs::stop_recording();
        cov.hit("upgrade-open:recorded".into());
        let mut seen: HashSet<u64> = HashSet::new();
        let mut rng = Rng::new(seed).fork(0xC04_1000 + i as u64);
        for (ei, ev) in events.iter().enumerate() {
            if ev.is_crash_point() {
                cov.count("upgrade_open_crash_points", 1);
                let mut images: Vec<(String, Image)> = vec![("process-crash".to_string(), shadow.process_image())];
                images.extend(shadow.power_images(&mut rng, if thorough { 8 } else { 2 }, false).into_iter().map(|(n, im)| (format!("power-loss: {n}"), im)));
                for (iname, im) in images {
                    cov.evaluations += 1;
                    if !seen.insert(im.fingerprint()) {
                        continue;
                    }
                    cov.count("upgrade_open_images", 1);
                    let bad = match recover(&im, &clients, &ids) {
                        Err(e) => Some(e),
                        Ok(r) => {
                            if r.integrity != "ok" {
                                Some(format!("fails integrity_check: {}", r.integrity))
                            } else if proto_only(&r.rows) != s0 {
                                let got = proto_only(&r.rows);
                                let missing: Vec<_> = s0.iter().filter(|x| !got.contains(x)).take(2).map(|s| s.chars().take(140).collect::<String>()).collect();
                                Some(format!("no longer holds what the pinned release had stored: missing {missing:?}"))
                            } else {
                                None
                            }
                        }
                    };
                    if let Some(m) = bad {
                        return Some(Found {
                            property: "C04".into(),
                            signature: format!("C04:upgrade-open {}", m.split_whitespace().take(6).collect::<Vec<_>>().join(" ")),
                            msg: format!("a data directory written by the pinned release ({} clients) is opened by the current code; crash before file-system event #{ei} ({} on {}) of that first start-up: image [{iname}] {m}", clients.len(), ev.kind(), ev.file().map(|f| f.rsplit('/').next().unwrap_or(f)).unwrap_or("")),
                            replay: json!({"origin": "upgrade-open", "case": i, "event_index": ei}),
                        });
                    }
                }
            }
            shadow.apply(ev);
        }
        if let Some((from, to, durable)) = shadow.renamed_into_place(work.path()) {
            // a file written through the VFS was renamed over another one outside the VFS. Power loss
            // right after the rename: the new name is durable, of the content only what had been synced
            let mut im = shadow.process_image();
            let key_to = im.files.keys().find(|k| k.ends_with(&to)).cloned().unwrap_or_else(|| work.path().join(&to).to_string_lossy().to_string());
            if let Some(k) = im.files.keys().find(|k| k.ends_with(&from)).cloned() {
                im.files.remove(&k);
            }
            im.files.insert(key_to, durable.clone().unwrap_or_default());
            cov.hit("upgrade-open:file-renamed-into-place-outside-the-vfs".into());
            let bad = match recover(&im, &clients, &ids) {
                Err(e) => Some(e),
                Ok(r) => {
                    if proto_only(&r.rows) != s0 {
                        Some("no longer holds what the pinned release had stored".to_string())
                    } else {
                        None
                    }
                }
            };
            if let Some(m) = bad {
                return Some(Found {
                    property: "C04".into(),
                    signature: "C04:upgrade-open rename".into(),
                    msg: format!("a data directory written by the pinned release ({} clients) is opened by the current code, which writes {from} and renames it over {to} (outside SQLite); of {from} {} bytes had been synced at that moment. Power loss right after the rename (the name is durable, unsynced content is not): the image {m}", clients.len(), durable.map(|d| d.len()).unwrap_or(0)),
                    replay: json!({"origin": "upgrade-open-rename", "case": i}),
                });
            }
        } else if let Some(why) = shadow.unexplained(work.path()) {
            errors.push(format!("first start-up of the current code on a directory written by the pinned release: the data directory is not what the recorded file I/O produces ({why}); the storage did file I/O that bypasses SQLite's VFS (direct writes or renames), which the crash model cannot follow"));
        }
        let _ = std::fs::remove_dir_all(work.path());
        // ---- the real executable killed during start-up (one worker, large directory)
        if i == 0 {
            use crate::net::{free_port, server_bin, Proc};
            let Some(bin) = server_bin() else { continue };
            let big = ScratchDir::new("c04pinbig");
            let mut exp2 = match write_pinned(big.path(), seed.wrapping_add(0xC04_2000), false) {
                Ok(e) => e,
                Err(_) => continue,
            };
            // a 50 MB snapshot written with the pinned storage code
            {
                use pinned_core::Storage as _;
                if let (Ok(st), Some(c)) = (pinned_sqlite::SqliteStorage::new(big.path()), exp2.clients.first_mut()) {
                    if let Some(v) = c.versions.last().map(|v| v.vid) {
                        let sp = crate::ops::PaySpec::new(50 * 1024 * 1024, 0, seed ^ 0xB16);
                        let ts = chrono::Utc::now() - chrono::Duration::days(3);
                        if let Ok(mut t) = st.txn(c.id) {
                            let _ = t.set_snapshot(pinned_core::Snapshot { version_id: v, timestamp: ts, versions_since: 0 }, sp.bytes());
                            let _ = t.commit();
                        }
                        c.snapshot = Some(crate::checks_c19::ExpSnap { vid: v, ts: ts.timestamp(), since: 0, pay: sp });
                    }
                }
            }
            // every cycle is a *first* start-up (fresh copy of the pinned directory), killed after a
            // delay spread log-uniformly over 0.3..150 ms, then opened again and verified
            let cycles = if thorough { 30 } else { 8 };
            for cyc in 0..cycles {
                let Some(port) = free_port() else { break };
                let addr = format!("127.0.0.1:{port}");
                let copy = ScratchDir::new("c04pinkill");
                if crate::scratch::copy_dir(big.path(), copy.path()).is_err() {
                    break;
                }
                let mut cmd = std::process::Command::new(&bin);
                cmd.args(["--listen", &addr, "--data-dir", &copy.path().to_string_lossy()]).env_clear().stdin(std::process::Stdio::null()).stdout(std::process::Stdio::null()).stderr(std::process::Stdio::null());
                let delay_us = (300.0 * (500.0f64).powf(cyc as f64 / (cycles - 1).max(1) as f64)) as u64 + rng.below(400);
                if let Ok(child) = cmd.spawn() {
                    let mut p = Proc { child, addrs: vec![] };
                    std::thread::sleep(std::time::Duration::from_micros(delay_us));
                    p.kill9();
                    cov.count("kill9_during_startup_cycles", 1);
                }
                let mut c19cov = Cov::default();
                if let Err(m) = verify_dir(copy.path(), &exp2, &mut c19cov, "pinned directory after kill -9 during start-up") {
                    return Some(Found { property: "C04".into(), signature: "C04:kill during start-up".into(), msg: format!("the real executable was started for the first time on a data directory written by the pinned release (with a 50 MB snapshot) and killed {:.1} ms later; afterwards: {m}", delay_us as f64 / 1000.0), replay: json!({"origin": "upgrade-kill", "case": cyc}) });
                }
            }
            cov.hit("upgrade-open:kill9-during-startup-survived".into());
        }
    }
    None
}

/// The HTTP add-version of a never-seen client commits the client row and then the version: a crash
/// in between leaves a client without versions (the crash explorer sees that image at the library
/// level). Here the *executable* - with and without an allow-list naming the client - is started on
/// such a directory, and on one whose client also has a snapshot-less chain: it must start, accept
/// the re-sent first version and serve it; the existing chain must be served.
fn crash_state_start(cov: &mut Cov, errors: &mut Vec<String>) -> Option<Found> {
    use crate::http::{socket_request, Framing};
    use crate::net::{free_port, server_bin, Proc};
    use crate::ops::{Req, Resp};
    use std::time::Duration;
    use taskchampion_sync_server_core::Storage;
    let Some(bin) = server_bin() else {
        errors.push("server binary not built".into());
        return None;
    };
    for allow in [false, true] {
        for with_other_client in [false, true] {
            let dir = ScratchDir::new("c04state");
            let c = Uuid::new_v4();
            let other = Uuid::new_v4();
            let mut other_first = None;
            {
                let st = match taskchampion_sync_server_storage_sqlite::SqliteStorage::new(dir.path()) {
                    Ok(s) => s,
                    Err(e) => {
                        errors.push(format!("crash-state directory: {e:#}"));
                        return None;
                    }
                };
                if with_other_client {
                    let server = taskchampion_sync_server_core::Server::new(Default::default(), st);
                    {
                        let mut t = server.txn(other).ok()?;
                        t.new_client(Uuid::nil()).ok()?;
                        t.commit().ok()?;
                    }
                    if let Ok((taskchampion_sync_server_core::AddVersionResult::Ok(v), _)) = server.add_version(other, Uuid::nil(), b"first of the other client".to_vec()) {
                        other_first = Some(v);
                    }
                    let mut t = server.txn(c).ok()?;
                    t.new_client(Uuid::nil()).ok()?;
                    t.commit().ok()?;
                } else {
                    let mut t = st.txn(c).ok()?;
                    t.new_client(Uuid::nil()).ok()?;
                    t.commit().ok()?;
                }
            }
            let label = format!("a data directory as a crash between the two commits of a new client's first add-version leaves it (client row, no version{}), executable {}", if with_other_client { "; another client has a version" } else { "" }, if allow { "with an allow-list naming the clients" } else { "without an allow-list" });
            let start = |d: &std::path::Path| -> Result<(Proc, String), String> {
                let mut last = String::new();
                for _ in 0..3 {
                    let port = free_port().ok_or("no free port")?;
                    let addr = format!("127.0.0.1:{port}");
                    let mut args: Vec<String> = vec!["--listen".into(), addr.clone(), "--data-dir".into(), d.to_string_lossy().to_string()];
                    if allow {
                        args.push("--allow-client-id".into());
                        args.push(format!("{c},{other}"));
                    }
                    match Proc::start(&bin, &args, &[], &[addr.clone()], Duration::from_secs(20)) {
                        Ok(p) => return Ok((p, addr)),
                        Err(e) => last = e,
                    }
                    std::thread::sleep(Duration::from_millis(200));
                }
                Err(last)
            };
            let (mut proc, addr) = match start(dir.path()) {
                Ok(x) => x,
                Err(e) => {
                    let control = ScratchDir::new("c04statectl");
                    return match start(control.path()) {
                        Ok((mut p, _)) => {
                            p.kill9();
                            Some(Found { property: "C04".into(), signature: "C04:crash-state does not start".into(), msg: format!("[{label}] the server does not start ({e}) although it starts on an empty directory with the same options: everything acknowledged before the crash is out of reach"), replay: json!({"origin": "crash-state", "case": 880_000}) })
                        }
                        Err(e2) => {
                            errors.push(format!("crash-state start: {e}; control: {e2}"));
                            None
                        }
                    };
                }
            };
            cov.evaluations += 1;
            cov.hit(format!("executable-on-crash-state|allow-list={allow}|other-client={with_other_client}"));
            let to = Duration::from_secs(20);
            let call = |client: Uuid, req: &Req| crate::subject::Subject::decode_http(req, &socket_request(&addr, &crate::subject::Subject::build_http(client, req), Framing::ContentLength, to));
            let fail = |m: String| Some(Found { property: "C04".into(), signature: format!("C04:crash-state {}", m.split_whitespace().take(5).collect::<Vec<_>>().join(" ")), msg: format!("[{label}] {m}"), replay: json!({"origin": "crash-state", "case": 880_000}) });
            if let Some(v) = other_first {
                match call(other, &Req::GetChild { parent: Uuid::nil() }) {
                    Resp::Found { vid, data, .. } if vid == v && data == b"first of the other client" => {}
                    o => {
                        proc.kill9();
                        return fail(format!("the other client's acknowledged version is served as {}", o.short()));
                    }
                }
            }
            let data = b"the first version, sent again after the crash".to_vec();
            let r = call(c, &Req::AddVersion { parent: Uuid::nil(), data: data.clone() });
            let Resp::AddOk { vid, .. } = r else {
                proc.kill9();
                return fail(format!("the re-sent first add-version is answered {}", r.short()));
            };
            match call(c, &Req::GetChild { parent: Uuid::nil() }) {
                Resp::Found { vid: v2, data: d2, .. } if v2 == vid && d2 == data => {}
                o => {
                    proc.kill9();
                    return fail(format!("the re-sent first version was acknowledged but is served as {}", o.short()));
                }
            }
            proc.kill9();
        }
    }
    None
}

/// The real executable under a file-size limit (`ulimit -f`, a disk quota in miniature; SIGXFSZ
/// ignored so that writes fail with an error): versions are added until the database cannot grow any
/// more and a few requests beyond. Requests may fail; every *acknowledged* version must be the child
/// of its parent right away, and at the end the chain walks from the base through exactly the
/// acknowledged versions, in order, to "no child".
pub fn quota_walk_part(property: &str, cov: &mut Cov, errors: &mut Vec<String>) -> Option<Found> {
    use crate::http::{socket_request, Framing};
    use crate::net::{free_port, server_bin, Proc};
    use crate::ops::{Req, Resp};
    use std::time::Duration;
    let Some(bin) = server_bin() else {
        errors.push("server binary not built".into());
        return None;
    };
    for (blocks, seg_len) in [(96u32, 3000usize), (300, 9000), (160, 700)] {
        let dir = ScratchDir::new("c01quota");
        let mut started = None;
        for _ in 0..3 {
            let port = free_port()?;
            let addr = format!("127.0.0.1:{port}");
            let args: Vec<String> = vec!["-c".into(), format!("trap '' XFSZ; ulimit -f {blocks} && exec \"$0\" \"$@\""), bin.to_string_lossy().to_string(), "--listen".into(), addr.clone(), "--data-dir".into(), dir.path().to_string_lossy().to_string()];
            if let Ok(p) = Proc::start(std::path::Path::new("/bin/sh"), &args, &[], &[addr.clone()], Duration::from_secs(20)) {
                started = Some((p, addr));
                break;
            }
        }
        let Some((mut proc, addr)) = started else {
            errors.push("cannot start the server executable under a file-size limit".into());
            return None;
        };
        let fail = |m: String| Some(Found { property: property.into(), signature: format!("{property}:quota {}", m.split_whitespace().take(5).collect::<Vec<_>>().join(" ")), msg: format!("[the real executable under `ulimit -f {blocks}` (a full disk in miniature), {seg_len}-byte versions] {m}"), replay: json!({"origin": "quota-walk", "case": 0}) });
        let to = Duration::from_secs(30);
        let call = |client: Uuid, req: &Req| crate::subject::Subject::decode_http(req, &socket_request(&addr, &crate::subject::Subject::build_http(client, req), Framing::ContentLength, to));
        let c = Uuid::new_v4();
        let mut acked: Vec<(Uuid, Uuid, Vec<u8>)> = vec![];
        let mut parent = Uuid::nil();
        let mut failures = 0usize;
        for i in 0..400usize {
            let data: Vec<u8> = (0..seg_len).map(|x| (x as u8).wrapping_mul(7).wrapping_add(i as u8)).collect();
            match call(c, &Req::AddVersion { parent, data: data.clone() }) {
                Resp::AddOk { vid, .. } => {
                    match call(c, &Req::GetChild { parent }) {
                        Resp::Found { vid: v2, data: d2, .. } if v2 == vid && d2 == data => {}
                        Resp::Error(_) => {}
                        o => {
                            proc.kill9();
                            return fail(format!("add-version #{i} was acknowledged with id {vid}, but the child of its parent is then served as {}", o.short()));
                        }
                    }
                    acked.push((vid, parent, data));
                    parent = vid;
                }
                Resp::Error(_) => {
                    failures += 1;
                    if failures >= 6 {
                        break;
                    }
                }
                Resp::AddConflict { expected } => {
                    // a request that failed may have taken effect (the answer was an error): follow the server
                    failures += 1;
                    if failures >= 6 {
                        break;
                    }
                    let _ = expected;
                    break;
                }
                o => {
                    proc.kill9();
                    return fail(format!("add-version #{i} was answered {}", o.short()));
                }
            }
        }
        cov.evaluations += acked.len() as u64;
        cov.hit(format!("quota-walk|limit={blocks}-blocks|failures-seen={}", failures.min(1)));
        cov.count("quota_walk_acknowledged_versions", acked.len() as u64);
        // the final walk (reads need no space; a read that fails is tried again a few times)
        let mut p = Uuid::nil();
        for (i, (vid, par, data)) in acked.iter().enumerate() {
            let mut r = call(c, &Req::GetChild { parent: p });
            for _ in 0..3 {
                if !matches!(r, Resp::Error(_)) {
                    break;
                }
                std::thread::sleep(Duration::from_millis(100));
                r = call(c, &Req::GetChild { parent: p });
            }
            match r {
                Resp::Found { vid: v2, parent: q, data: d2 } if v2 == *vid && q == *par && d2 == *data => p = v2,
                Resp::Error(_) => break,
                o => {
                    proc.kill9();
                    return fail(format!("{} versions were acknowledged; the walk from the base reaches step {i} and is answered {} where the acknowledged version {vid} belongs", acked.len(), o.short()));
                }
            }
        }
        proc.kill9();
    }
    None
}

fn kill_loop(seed: u64, cycles: usize, shard: Shard, cov: &mut Cov, errors: &mut Vec<String>) -> Option<Found> {
    use crate::http::{socket_request, Framing};
    use crate::net::{free_port, server_bin, Proc};
    use std::sync::atomic::{AtomicBool, Ordering};
    use std::sync::{Arc, Mutex};
    use std::time::Duration;
    let Some(bin) = server_bin() else {
        errors.push("server binary not built".into());
        return None;
    };
    // a few workers run all the cycles (each cycle verifies what the previous ones of the same
    // worker acknowledged)
    let kw = shard.n.min(if cycles > 50 { 6 } else { 3 });
    let mine: Vec<usize> = (0..cycles).filter(|i| shard.k < kw && i % kw == shard.k).collect();
    if mine.is_empty() {
        return None;
    }
    // one data directory per worker (kill -9 leaves whatever the page cache holds, so tmpfs is as good as a disk)
    let dir = ScratchDir::new("c04kill");
    let client = Rng::new(seed).fork(0x4B11 + shard.k as u64).uuid();
    let mut acked: Vec<(Uuid, Uuid, Vec<u8>)> = vec![];
    let mut snap: Option<(Uuid, Vec<u8>)> = None;
    let mut rng = Rng::new(seed).fork(0x4B12 + shard.k as u64);
    // odd workers run the server with an allow-list that names the client
    let allow = shard.k % 2 == 1;
    // another process' connection to the database (a backup job, an operator's shell): while it is
    // open the write-ahead log is not folded into the database when the server's connections close;
    // it stays open across the kill and the restart that follows
    let mut bystander: Option<rusqlite::Connection> = None;
    for (ci, cyc) in mine.into_iter().enumerate() {
        let port = free_port()?;
        let addr = format!("127.0.0.1:{port}");
        let mut args: Vec<String> = vec!["--listen".into(), addr.clone(), "--data-dir".into(), dir.path().to_string_lossy().to_string()];
        if allow {
            args.push("--allow-client-id".into());
            args.push(client.to_string());
        }
        let mut proc = match Proc::start(&bin, &args, &[], &[addr.clone()], Duration::from_secs(20)) {
            Ok(p) => p,
            Err(e) => {
                errors.push(format!("kill loop: {e}"));
                return None;
            }
        };
        // verify everything acknowledged so far
        let mut p = Uuid::nil();
        let mut walked = 0usize;
        loop {
            let req = Req::GetChild { parent: p };
            let r = socket_request(&addr, &Subject::build_http(client, &req), Framing::ContentLength, Duration::from_secs(20));
            match Subject::decode_http(&req, &r) {
                Resp::Found { vid, parent, data } => {
                    if walked < acked.len() {
                        let (av, ap, ad) = &acked[walked];
                        if vid != *av || parent != *ap || data != *ad {
                            return Some(Found { property: "C04".into(), signature: "C04:kill9 acknowledged version changed".into(), msg: format!("after kill -9 (cycle {cyc}) and restart, acknowledged version #{walked} ({av}) is served as v={vid}, p={parent}, {} bytes", data.len()), replay: json!({"origin": "kill9", "case": cyc}) });
                        }
                    } else if walked == acked.len() && parent == p {
                        // the request in flight at the kill was committed: adopt it
                        acked.push((vid, parent, data));
                        cov.hit("kill9:in-flight-request-was-committed".into());
                    } else {
                        return Some(Found { property: "C04".into(), signature: "C04:kill9 unexpected version".into(), msg: format!("after kill -9 (cycle {cyc}) an unexpected version {vid} follows the chain"), replay: json!({"origin": "kill9", "case": cyc}) });
                    }
                    p = vid;
                    walked += 1;
                }
                Resp::NotFound => break,
                o => {
                    return Some(Found { property: "C04".into(), signature: "C04:kill9 walk".into(), msg: format!("after kill -9 (cycle {cyc}) and restart the chain walk at {p} answers {} ({} of {} acknowledged versions walked)", o.short(), walked, acked.len()), replay: json!({"origin": "kill9", "case": cyc}) });
                }
            }
        }
        if walked < acked.len() {
            return Some(Found { property: "C04".into(), signature: "C04:kill9 acknowledged lost".into(), msg: format!("after kill -9 (cycle {cyc}) and restart only {walked} of {} acknowledged versions are present", acked.len()), replay: json!({"origin": "kill9", "case": cyc}) });
        }
        if let Some((sv, sd)) = &snap {
            let r = socket_request(&addr, &Subject::build_http(client, &Req::GetSnapshot), Framing::ContentLength, Duration::from_secs(20));
            match Subject::decode_http(&Req::GetSnapshot, &r) {
                Resp::Snap { vid, data } if (vid == *sv && data == *sd) => {}
                Resp::Snap { vid, .. } if acked.iter().position(|a| a.0 == vid) > acked.iter().position(|a| a.0 == *sv) => {} // an in-flight newer snapshot was committed
                o => return Some(Found { property: "C04".into(), signature: "C04:kill9 snapshot".into(), msg: format!("after kill -9 (cycle {cyc}) the acknowledged snapshot for {sv} is served as {}", o.short()), replay: json!({"origin": "kill9", "case": cyc}) }),
            }
        }
        cov.count("kill9_cycles", 1);
        cov.count("kill9_acknowledged_versions_verified", walked as u64);
        cov.hit(format!("kill9:allow-list={allow}:bystander-connection={}", bystander.is_some()));
        // the bystander of the previous cycle has seen the restart; every other cycle gets a new one
        bystander = None;
        if ci % 2 == 1 {
            if let Ok(c) = rusqlite::Connection::open(crate::subject::db_file(dir.path())) {
                let _: Result<i64, _> = c.query_row("SELECT count(*) FROM clients", [], |r| r.get(0));
                bystander = Some(c);
            }
        }
        // every fourth cycle: one large snapshot upload, killed the moment it is acknowledged
        let big_then_kill = ci % 4 == 2;
        let kill_now = Arc::new(AtomicBool::new(false));
        // workload in a thread; kill at a random instant
        let stop = Arc::new(AtomicBool::new(false));
        let done: Arc<Mutex<Vec<(Uuid, Uuid, Vec<u8>)>>> = Arc::new(Mutex::new(vec![]));
        let snapd: Arc<Mutex<Option<(Uuid, Vec<u8>)>>> = Arc::new(Mutex::new(None));
        let start_parent = acked.last().map(|a| a.0).unwrap_or(Uuid::nil());
        let (a2, s2, d2, sn2) = (addr.clone(), stop.clone(), done.clone(), snapd.clone());
        let wseed = rng.next_u64();
        let kn2 = kill_now.clone();
        let th = std::thread::spawn(move || {
            let mut r = Rng::new(wseed);
            let mut parent = start_parent;
            let mut i = 0;
            if big_then_kill {
                let data: Vec<u8> = (0..100).map(|_| r.next_u64() as u8).collect();
                let req = Req::AddVersion { parent, data: data.clone() };
                let resp = socket_request(&a2, &Subject::build_http(client, &req), Framing::ContentLength, Duration::from_secs(10));
                if let Resp::AddOk { vid, .. } = Subject::decode_http(&req, &resp) {
                    d2.lock().unwrap().push((vid, parent, data));
                    let n = (9usize << 20) + r.usize(3 << 20);
                    let sd = crate::ops::PaySpec::new(n, 0, wseed).bytes();
                    let sreq = Req::AddSnapshot { vid, data: sd.clone() };
                    let sr = socket_request(&a2, &Subject::build_http(client, &sreq), Framing::ContentLength, Duration::from_secs(30));
                    if sr.status == 200 {
                        *sn2.lock().unwrap() = Some((vid, sd));
                    }
                }
                kn2.store(true, Ordering::SeqCst);
                return;
            }
            while !s2.load(Ordering::SeqCst) && i < 400 {
                i += 1;
                let len = *r.pick(&[20usize, 3000, 4100, 30_000, 200_000]);
                let data: Vec<u8> = (0..len).map(|_| r.next_u64() as u8).collect();
                let req = Req::AddVersion { parent, data: data.clone() };
                let resp = socket_request(&a2, &Subject::build_http(client, &req), Framing::ContentLength, Duration::from_secs(10));
                match Subject::decode_http(&req, &resp) {
                    Resp::AddOk { vid, .. } => {
                        d2.lock().unwrap().push((vid, parent, data));
                        parent = vid;
                        if r.pct(20) {
                            let sd: Vec<u8> = (0..500).map(|_| r.next_u64() as u8).collect();
                            let sreq = Req::AddSnapshot { vid, data: sd.clone() };
                            let sr = socket_request(&a2, &Subject::build_http(client, &sreq), Framing::ContentLength, Duration::from_secs(10));
                            if sr.status == 200 {
                                *sn2.lock().unwrap() = Some((vid, sd));
                            }
                        }
                    }
                    _ => break, // the server is gone (or a conflict after an in-flight commit)
                }
            }
        });
        if big_then_kill {
            let t0 = std::time::Instant::now();
            while !kill_now.load(Ordering::SeqCst) && t0.elapsed() < Duration::from_secs(40) {
                std::thread::sleep(Duration::from_micros(200));
            }
            cov.hit("kill9:right-after-a-large-snapshot-was-acknowledged".into());
        } else {
            std::thread::sleep(Duration::from_micros(rng.range(500, 60_000)));
        }
        proc.kill9();
        stop.store(true, Ordering::SeqCst);
        let _ = th.join();
        acked.extend(done.lock().unwrap().drain(..));
        let taken = snapd.lock().unwrap().take();
        if let Some(s) = taken {
            snap = Some(s);
        }
    }
    None
}

pub fn finalize(out: ShardOut, is_replay: bool) -> CheckResult {
    let cov = out.cov;
    let mut top: Vec<(&String, &u64)> = cov.situations.iter().collect();
    top.sort_by(|a, b| b.1.cmp(a.1));
    let c = |k: &str| cov.counters.get(k).copied().unwrap_or(0);
    let distinct = c("images_process_crash") + c("images_power_loss");
    let coverage = json!({
        "evaluations": cov.evaluations,
        "distinct_nontrivial": distinct,
        "rule": "request histories (valid/rejected AddVersion, AddSnapshot, reads; 4 clients, two of them starting from a non-nil parent; payloads 10 B .. 1.5 MB around the page-overflow boundary) run on the SQLite backend through the library and the HTTP handlers with a recording VFS shim under the repository's own connections; regimes: solo (every close checkpoints and deletes the WAL) and bystander (another connection keeps the WAL alive, auto-checkpoints happen mid-request). Every recorded write/truncate/sync/delete is a crash point (sampled when a request has more than 120/400); at each, the process-crash image (all writes so far) and power-loss images (per file: content at its last sync + none / all / prefixes / single drops / single keeps / random subsets of later writes, unsynced deletes applied or undone, torn sector writes in thorough) are materialised and opened with the code under test; oracle: opens, integrity_check ok, all SQL rows equal the state before or after the in-flight request, or exactly the acknowledged state once the request had returned. distinct_nontrivial = distinct images recovered (identical images at the same point of the history are recovered once).",
        "samples": cov.samples,
        "histories": out.executed,
        "counters": cov.counters,
        "situations": top.iter().take(30).map(|(k, v)| json!({"situation": k, "n": v})).collect::<Vec<_>>(),
    });
    let required = ["upgrade-open:recorded", "regime:solo", "regime:bystander", ":http:", "power-loss|in-flight|recovered=before", "power-loss|in-flight|recovered=after", "power-loss|acknowledged|recovered=acknowledged-state", "process-crash|in-flight|recovered=after", "checkpoint-writes-while-request-in-flight", "wal-deleted-at-close"];
    let verdict = if !out.found.is_empty() {
        Verdict::Violated(out.found)
    } else if !out.errors.is_empty() {
        Verdict::Inconclusive(out.errors.join("; "))
    } else if !is_replay {
        match crate::evidence::require(&cov.situations, &required) {
            Some(r) => Verdict::Inconclusive(r),
            None => Verdict::Held,
        }
    } else {
        Verdict::Held
    };
    CheckResult {
        verdict,
        coverage,
        assumptions: vec![
            "power loss is simulated from the recorded I/O under SQLite's documented file-system assumptions: a successful xSync makes that file's content (and, for a newly created journal/WAL, its directory entry) durable; unsynced writes reach the disk in any subset; an unsynced delete may be undone".into(),
            "the -shm file is a cache rebuilt by the first connection and is dropped from every image".into(),
            "an empty client record (created by the first transaction of add-version for a new client) is identified with an absent client".into(),
        ],
        level: "fault_enumeration",
        notes: vec![],
    }
}
