//! Real-socket servers: an in-process `HttpServer` over any storage (I4) and a driver for the
//! real `taskchampion-sync-server` executable (I5).

use actix_web::{App, HttpServer};
use std::net::{TcpListener, TcpStream};
use std::path::{Path, PathBuf};
use std::process::{Child, Command, Stdio};
use std::time::{Duration, Instant};
use taskchampion_sync_server::WebServer;

pub struct SockServer {
    pub addr: String,
    handle: actix_web::dev::ServerHandle,
    thread: Option<std::thread::JoinHandle<()>>,
}

impl SockServer {
    /// Serve `web` on 127.0.0.1:<free port> with the given number of worker threads.
    pub fn start(web: WebServer, workers: usize) -> Result<SockServer, String> {
        let (tx, rx) = std::sync::mpsc::channel();
        let th = std::thread::spawn(move || {
            let sys = actix_rt::System::new();
            sys.block_on(async move {
                let srv = HttpServer::new(move || {
                    let web = web.clone();
                    App::new().configure(move |c| web.config(c))
                })
                .workers(workers)
                .disable_signals()
                .bind(("127.0.0.1", 0));
                match srv {
                    Err(e) => {
                        let _ = tx.send(Err(format!("bind: {e}")));
                    }
                    Ok(srv) => {
                        let addr = srv.addrs()[0];
                        let server = srv.run();
                        let _ = tx.send(Ok((addr.to_string(), server.handle())));
                        let _ = server.await;
                    }
                }
            });
        });
        match rx.recv_timeout(Duration::from_secs(20)) {
            Ok(Ok((addr, handle))) => Ok(SockServer { addr, handle, thread: Some(th) }),
            Ok(Err(e)) => Err(e),
            Err(_) => Err("server thread did not start".into()),
        }
    }
}

impl Drop for SockServer {
    fn drop(&mut self) {
        let h = self.handle.clone();
        // stop without waiting for keep-alive connections
        let t = std::thread::spawn(move || {
            let rt = actix_rt::Runtime::new().unwrap();
            rt.block_on(h.stop(false));
        });
        let _ = t.join();
        if let Some(th) = self.thread.take() {
            let _ = th.join();
        }
    }
}

pub fn free_port() -> Option<u16> {
    TcpListener::bind(("127.0.0.1", 0)).ok().and_then(|l| l.local_addr().ok()).map(|a| a.port())
}

pub fn server_bin() -> Option<PathBuf> {
    let p = std::env::var("VERIF_SERVER_BIN").ok().map(PathBuf::from).unwrap_or_else(|| crate::evidence::verif_dir().join("target/repo-bin/release/taskchampion-sync-server"));
    if p.is_file() {
        Some(p)
    } else {
        None
    }
}

pub struct Proc {
    pub child: Child,
    pub addrs: Vec<String>,
}

impl Proc {
    /// Start the real executable with the given arguments and environment; waits until every
    /// address in `probe_addrs` accepts connections.
    pub fn start(bin: &Path, args: &[String], env: &[(String, String)], probe_addrs: &[String], wait: Duration) -> Result<Proc, String> {
        let a: Vec<std::ffi::OsString> = args.iter().map(|s| s.into()).collect();
        let e: Vec<(String, std::ffi::OsString)> = env.iter().map(|(k, v)| (k.clone(), v.into())).collect();
        Self::start_os(bin, &a, &e, probe_addrs, wait)
    }

    /// As `start`, with arguments and environment values that need not be valid UTF-8.
    pub fn start_os(bin: &Path, args: &[std::ffi::OsString], env: &[(String, std::ffi::OsString)], probe_addrs: &[String], wait: Duration) -> Result<Proc, String> {
        Self::start_in(bin, args, env, probe_addrs, wait, None)
    }

    /// As `start_os`, in the given working directory (relative paths in the arguments refer to it).
    pub fn start_in(bin: &Path, args: &[std::ffi::OsString], env: &[(String, std::ffi::OsString)], probe_addrs: &[String], wait: Duration, cwd: Option<&Path>) -> Result<Proc, String> {
        let mut cmd = Command::new(bin);
        if let Some(d) = cwd {
            cmd.current_dir(d);
        }
        // the log level is part of the operator's environment: varied from start to start (an
        // explicit RUST_LOG in `env` wins)
        static STARTS: std::sync::atomic::AtomicUsize = std::sync::atomic::AtomicUsize::new(0);
        let level = ["warn", "info", "debug", "error", "trace"][STARTS.fetch_add(1, std::sync::atomic::Ordering::SeqCst) % 5];
        cmd.args(args).env_clear().env("RUST_LOG", level).env("PATH", "/usr/bin:/bin");
        if let Ok(tz) = std::env::var("TZ") {
            cmd.env("TZ", tz);
        }
        // a home directory of its own (inside the scratch area), as a service account has
        let home = crate::scratch::base().join("home");
        let _ = std::fs::create_dir_all(&home);
        cmd.env("HOME", &home);
        for (k, v) in env {
            cmd.env(k, v);
        }
        let child = cmd.stdin(Stdio::null()).stdout(Stdio::null()).stderr(Stdio::null()).spawn().map_err(|e| format!("spawn: {e}"))?;
        let mut p = Proc { child, addrs: probe_addrs.to_vec() };
        let t0 = Instant::now();
        loop {
            if let Ok(Some(st)) = p.child.try_wait() {
                return Err(format!("server exited at start-up with {st}"));
            }
            if probe_addrs.iter().all(|a| TcpStream::connect(a).is_ok()) {
                // the listener that answered must be this process: a server that could not bind
                // (port taken by someone else in the meantime) exits within milliseconds
                std::thread::sleep(Duration::from_millis(60));
                if let Ok(Some(st)) = p.child.try_wait() {
                    return Err(format!("server exited at start-up with {st}"));
                }
                return Ok(p);
            }
            if t0.elapsed() > wait {
                p.kill9();
                return Err("server did not start listening in time".into());
            }
            std::thread::sleep(Duration::from_millis(15));
        }
    }
    pub fn kill9(&mut self) {
        unsafe {
            libc::kill(self.child.id() as i32, libc::SIGKILL);
        }
        let _ = self.child.wait();
    }
    pub fn alive(&mut self) -> bool {
        matches!(self.child.try_wait(), Ok(None))
    }
}

impl Drop for Proc {
    fn drop(&mut self) {
        self.kill9();
    }
}
