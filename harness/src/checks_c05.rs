//! C05 — E4 fault injector, trait level: for every request of a history on the SQLite backend
//! and every storage call it makes, the call is made to fail (before or after taking effect).

use crate::dump::dump_sql;
use crate::evidence::{CheckResult, Cov, Found, Shard, ShardOut, Verdict};
use crate::gen::{generate, GenProfile};
use crate::ops::{OpKind, Req, Resp};
use crate::prng::Rng;
use crate::scratch::{copy_dir, ScratchDir};
use crate::subject::{db_file, Config, Entry, Kind, Subject};
use crate::wrap::{Call, Event, Hook, Hooked};
use serde_json::json;
use std::sync::atomic::{AtomicBool, AtomicI64, AtomicU64, Ordering};
use std::sync::{Arc, Mutex};
use taskchampion_sync_server_core::Storage;
use uuid::Uuid;

#[derive(Clone, Copy, Debug, PartialEq, Eq)]
pub enum Mode {
    Before,
    After,
}

/// Counts the storage calls of the current request and fails the armed one.
pub struct FaultHook {
    pub counter: AtomicI64,
    /// index of the call to fail (-1 = none)
    pub arm: AtomicI64,
    pub after: AtomicBool,
    pub fired: AtomicBool,
    pub log: Mutex<Vec<Event>>,
    pub begins: AtomicU64,
    pub drops: AtomicU64,
}

impl FaultHook {
    pub fn new() -> Arc<Self> {
        Arc::new(FaultHook {
            counter: AtomicI64::new(0),
            arm: AtomicI64::new(-1),
            after: AtomicBool::new(false),
            fired: AtomicBool::new(false),
            log: Mutex::new(vec![]),
            begins: AtomicU64::new(0),
            drops: AtomicU64::new(0),
        })
    }
    pub fn reset(&self, arm: i64, after: bool) {
        self.counter.store(0, Ordering::SeqCst);
        self.arm.store(arm, Ordering::SeqCst);
        self.after.store(after, Ordering::SeqCst);
        self.fired.store(false, Ordering::SeqCst);
        self.log.lock().unwrap().clear();
        self.begins.store(0, Ordering::SeqCst);
        self.drops.store(0, Ordering::SeqCst);
    }
}

impl Hook for FaultHook {
    fn before(&self, ev: &Event) -> Option<anyhow::Error> {
        if ev.call == Call::Drop {
            self.drops.fetch_add(1, Ordering::SeqCst);
            return None;
        }
        let i = self.counter.fetch_add(1, Ordering::SeqCst);
        self.log.lock().unwrap().push(*ev);
        if i == self.arm.load(Ordering::SeqCst) && !self.after.load(Ordering::SeqCst) {
            self.fired.store(true, Ordering::SeqCst);
            return Some(anyhow::anyhow!("injected storage failure before {:?}", ev.call));
        }
        None
    }
    fn after(&self, ev: &Event, ok: bool) -> Option<anyhow::Error> {
        if ev.call == Call::Drop {
            return None;
        }
        if ev.call == Call::Begin && ok {
            self.begins.fetch_add(1, Ordering::SeqCst);
        }
        let i = self.counter.load(Ordering::SeqCst) - 1;
        if ok && i == self.arm.load(Ordering::SeqCst) && self.after.load(Ordering::SeqCst) && !self.fired.load(Ordering::SeqCst) {
            self.fired.store(true, Ordering::SeqCst);
            return Some(anyhow::anyhow!("injected storage failure after {:?} took effect", ev.call));
        }
        None
    }
}

fn open_copy(src: &std::path::Path, kind: Kind, hook: &Arc<FaultHook>) -> anyhow::Result<Subject> {
    let d = ScratchDir::new("c05");
    copy_dir(src, d.path())?;
    let mut s = Subject::open_dir(kind, Config { snapshot_days: 14, snapshot_versions: 4 }, d)?;
    let h = hook.clone();
    s.wrap = Some(Arc::new(move |st: Arc<dyn Storage>| Arc::new(Hooked::new(st, h.clone())) as Arc<dyn Storage>));
    s.reconfigure(s.config, None);
    Ok(s)
}

/// SQL rows with empty client records (no versions, no snapshot) removed: the HTTP add-version
/// path legitimately commits the client record before the version.
fn normalized(rows: &[String]) -> Vec<String> {
    rows.iter()
        .filter(|r| !(r.starts_with("proto-client") && (r.contains("exists=false") || (r.contains("latest=Some(00000000-0000-0000-0000-000000000000)") && r.contains("snapshot=None")))))
        .filter(|r| !(r.starts_with("clients:") && r.contains("latest_version_id=t'00000000-0000-0000-0000-000000000000'") && r.contains("snapshot_version_id=NULL")))
        .cloned()
        .collect()
}

fn uuids_in(rows: &[String]) -> std::collections::HashSet<String> {
    let mut out = std::collections::HashSet::new();
    for r in rows {
        let b = r.as_bytes();
        let mut i = 0;
        while i + 36 <= b.len() {
            let w = &r[i..i + 36];
            if r.is_char_boundary(i) && r.is_char_boundary(i + 36) && Uuid::parse_str(w).is_ok() && w.as_bytes()[8] == b'-' {
                out.insert(w.to_lowercase());
                i += 36;
            } else {
                i += 1;
            }
        }
    }
    out
}

/// Replace every uuid that is not in `known` by a placeholder: version ids are invented at random
/// by each execution, so the post-state of two executions agree only modulo the new id.
fn mask(rows: &[String], known: &std::collections::HashSet<String>) -> Vec<String> {
    let mut out: Vec<String> = rows
        .iter()
        .map(|r| {
            let mut s = String::new();
            let mut i = 0;
            while i < r.len() {
                if i + 36 <= r.len() && r.is_char_boundary(i) && r.is_char_boundary(i + 36) {
                    let w = &r[i..i + 36];
                    if w.as_bytes()[8] == b'-' && Uuid::parse_str(w).is_ok() {
                        if known.contains(&w.to_lowercase()) {
                            s.push_str(w);
                        } else {
                            s.push_str("<new-id>");
                        }
                        i += 36;
                        continue;
                    }
                }
                let ch = r[i..].chars().next().unwrap();
                s.push(ch);
                i += ch.len_utf8();
            }
            // (protocol rows carry the time as the second tuple field of snapshot=Some((id, time, since)))
            if s.starts_with("proto-client") {
                if let Some(i) = s.find("snapshot=Some((") {
                    if let Some(c1) = s[i..].find(", ") {
                        let start = i + c1 + 2;
                        if let Some(c2) = s[start..].find(", ") {
                            s.replace_range(start..start + c2, "<time>");
                        }
                    }
                }
            }
            // the snapshot time is stamped by each execution itself
            if let Some(i) = s.find("snapshot_timestamp=i") {
                let start = i + "snapshot_timestamp=i".len();
                let end = s[start..].find(|c: char| !c.is_ascii_digit() && c != '-').map(|e| start + e).unwrap_or(s.len());
                s.replace_range(start..end, "<time>");
            }
            s
        })
        .collect();
    out.sort();
    out
}

fn state_with(s: &Subject, clients: &[Uuid], ids: &[Uuid]) -> Vec<String> {
    let mut rows = dump_sql(&s.db_path().unwrap()).unwrap_or_else(|e| vec![format!("DUMP ERROR {e:#}")]);
    // protocol-visible state through the storage API (covers data kept outside the main database
    // file); read through a fresh, un-hooked storage object on the same directory
    if let Ok(st) = taskchampion_sync_server_storage_sqlite::SqliteStorage::new(s.dir.as_ref().unwrap().path()) {
        rows.extend(crate::checks_c04::proto_rows(&st, clients, ids));
    }
    rows
}

pub fn shard_run(tier: &str, seed: u64, replay_case: Option<usize>, shard: Shard) -> ShardOut {
    let thorough = tier == "thorough";
    let mut out = ShardOut::default();
    let mut cov = Cov::default();
    let n_hist = if thorough { 400 } else { 40 };
    let vfs_ok = crate::vfs::register().is_ok();
    let mut vcase = 0usize;
    let prof = GenProfile { min_clients: 2, max_clients: 2, min_ops: 10, max_ops: if thorough { 26 } else { 20 }, valid_add_pct: 75, w_kind: [40, 14, 26, 15, 5], big_payload_pct: 8, ..Default::default() };
    for hi in 0..n_hist {
        match replay_case {
            Some(c) => {
                if c / 100_000 != hi {
                    continue;
                }
            }
            None => {
                if !shard.mine(hi) {
                    continue;
                }
            }
        }
        let h = generate(Rng::new(seed).fork(0xC05 + hi as u64).next_u64(), &prof);
        // a quarter of the histories run on a file system without shared-memory support: WAL
        // cannot be enabled and the database stays in rollback-journal mode, where a commit can be
        // refused with BUSY (a reader holds a shared lock)
        let no_wal = vfs_ok && hi % 4 == 3;
        crate::vfs::set_no_shm(no_wal);
        struct ShmReset;
        impl Drop for ShmReset {
            fn drop(&mut self) {
                crate::vfs::set_no_shm(false);
            }
        }
        let _reset = ShmReset;
        for kind in [Kind::SQL_LIB, Kind::SQL_HTTP] {
            // the reference run: the history executed without faults, a directory image before each request
            let mut main = match Subject::new(kind, Config { snapshot_days: 14, snapshot_versions: 4 }) {
                Ok(s) => s,
                Err(e) => {
                    out.errors.push(format!("subject: {e:#}"));
                    continue;
                }
            };
            let hook = FaultHook::new();
            let mut runner_clients: Vec<Uuid> = (0..h.n_clients).map(|c| crate::e1::client_uuid(h.seed, c)).collect();
            runner_clients.dedup();
            let mut reqs_flat: Vec<(usize, Req)> = vec![];
            // resolve and execute op by op (the runner API runs whole histories, so re-implement the
            // minimal loop here: resolve -> image -> execute -> observe)
            let mut ops = h.ops.clone();
            if hi % 5 == 2 {
                // one snapshot of more than a megabyte at the end (size classes may be treated differently)
                ops.push(crate::ops::Op { client: 0, kind: OpKind::AddVersion { parent: crate::ops::IdRef::Latest(0), pay: crate::ops::PaySpec::new(40, 9, h.seed ^ 0xB1) } });
                ops.push(crate::ops::Op { client: 0, kind: OpKind::AddSnapshot { vid: crate::ops::IdRef::Latest(0), pay: crate::ops::PaySpec::new(1_600_000 + hi * 7, 9, h.seed ^ 0xB16) } });
            }
            let mut chains: Vec<Vec<(Uuid, Uuid)>> = vec![vec![]; h.n_clients];
            let mut snaps: Vec<Option<Uuid>> = vec![None; h.n_clients];
            for (oi, op) in ops.iter().enumerate() {
                let c = op.client;
                let cid = runner_clients[c];
                // simple resolution against the accepted chains
                let res = |r: crate::ops::IdRef| -> Uuid {
                    use crate::ops::IdRef::*;
                    match r {
                        Nil => Uuid::nil(),
                        Latest(x) => chains[x].last().map(|p| p.0).unwrap_or(Uuid::nil()),
                        Nth(x, k) => {
                            if chains[x].is_empty() {
                                crate::e1::fresh_uuid(h.seed, 1000 + k)
                            } else {
                                chains[x][k % chains[x].len()].0
                            }
                        }
                        Back(x, k) => {
                            let n = chains[x].len();
                            if k >= 1 && k <= n {
                                chains[x][n - k].0
                            } else {
                                crate::e1::fresh_uuid(h.seed, 2000 + k)
                            }
                        }
                        Base(x) => chains[x].first().map(|p| p.1).unwrap_or(Uuid::nil()),
                        SnapVid(x) => snaps[x].unwrap_or_else(|| crate::e1::fresh_uuid(h.seed, 3000 + x)),
                        Fresh(n) => crate::e1::fresh_uuid(h.seed, n),
                        BeforeBase(x, j) => crate::e1::fresh_uuid(h.seed, 4000 + x * 10 + j),
                    }
                };
                let req = match &op.kind {
                    OpKind::AddVersion { parent, pay } | OpKind::Probe { parent, pay } => Req::AddVersion { parent: res(*parent), data: pay.bytes() },
                    OpKind::GetChild { parent } => Req::GetChild { parent: res(*parent) },
                    OpKind::AddSnapshot { vid, pay } => Req::AddSnapshot { vid: res(*vid), data: pay.bytes() },
                    OpKind::GetSnapshot | OpKind::Pause | OpKind::ShiftSnapshotTime { .. } => Req::GetSnapshot,
                    OpKind::ResendStale { k, .. } | OpKind::Resend { k } => {
                        if chains[c].is_empty() {
                            Req::GetSnapshot
                        } else {
                            let (_, p) = chains[c][k % chains[c].len()];
                            Req::AddVersion { parent: p, data: vec![1, 2, 3] }
                        }
                    }
                };
                // image of the directory before the request
                let img = ScratchDir::new("c05img");
                if let Err(e) = copy_dir(main.dir.as_ref().unwrap().path(), img.path()) {
                    out.errors.push(format!("copy: {e}"));
                    break;
                }
                let mut idlist: Vec<Uuid> = vec![];
                for p in chains.iter().flatten() {
                    idlist.push(p.0);
                    idlist.push(p.1);
                }
                let pre = state_with(&main, &runner_clients, &idlist);
                let mut known_ids = uuids_in(&pre);
                known_ids.insert(cid.to_string());
                match &req {
                    Req::AddVersion { parent, .. } | Req::GetChild { parent } => {
                        known_ids.insert(parent.to_string());
                    }
                    Req::AddSnapshot { vid, .. } => {
                        known_ids.insert(vid.to_string());
                    }
                    _ => {}
                }
                // learn the call sequence on a copy (so that `main` stays the un-faulted reference)
                hook.reset(-1, false);
                let (calls, post, ref_resp) = {
                    let mut s = match open_copy(img.path(), kind, &hook) {
                        Ok(s) => s,
                        Err(e) => {
                            out.errors.push(format!("open copy: {e:#}"));
                            break;
                        }
                    };
                    hook.reset(-1, false);
                    let r = s.exec(cid, &req);
                    let calls = hook.log.lock().unwrap().clone();
                    (calls, state_with(&s, &runner_clients, &idlist), r)
                };
                // now the real step on main
                let resp = main.exec(cid, &req);
                if let (Req::AddVersion { parent, .. }, Resp::AddOk { vid, .. }) = (&req, &resp) {
                    chains[c].push((*vid, *parent));
                }
                if let Req::AddSnapshot { vid, .. } = &req {
                    // read back what is stored
                    if let Ok(mut t) = main.storage.txn(cid) {
                        if let Ok(Some(cl)) = t.get_client() {
                            snaps[c] = cl.snapshot.map(|s| s.version_id);
                        }
                    }
                    let _ = vid;
                }
                if matches!(ref_resp, Resp::Error(_)) {
                    out.errors.push(format!("reference execution failed without faults: {}", ref_resp.short()));
                    break;
                }
                // ---- inject at every call, both modes
                for (ci, ev) in calls.iter().enumerate() {
                    for mode in [Mode::Before, Mode::After] {
                        let case = hi * 100_000 + oi * 1000 + ci * 2 + if mode == Mode::After { 1 } else { 0 } + if kind.entry == Entry::Http { 500 } else { 0 };
                        if let Some(rc) = replay_case {
                            if rc != case {
                                continue;
                            }
                        }
                        let mut s = match open_copy(img.path(), kind, &hook) {
                            Ok(s) => s,
                            Err(e) => {
                                out.errors.push(format!("open copy: {e:#}"));
                                continue;
                            }
                        };
                        // warm the server up first (a server that has already answered requests for this
                        // client may hold derived state that the failing request must not leave stale)
                        hook.reset(-1, false);
                        let l0 = chains[c].last().map(|p| p.0).unwrap_or(Uuid::nil());
                        let _ = s.exec(cid, &Req::GetChild { parent: l0 });
                        let _ = s.exec(cid, &Req::GetSnapshot);
                        hook.reset(ci as i64, mode == Mode::After);
                        let r = s.exec(cid, &req);
                        let fired = hook.fired.load(Ordering::SeqCst);
                        let begins = hook.begins.load(Ordering::SeqCst);
                        let drops = hook.drops.load(Ordering::SeqCst);
                        hook.reset(-1, false);
                        cov.evaluations += 1;
                        out.executed += 1;
                        if !fired {
                            cov.count("fault_sites_not_reached", 1);
                            continue;
                        }
                        let after_state = state_with(&s, &runner_clients, &idlist);
                        let ctx = format!("[{}] {} (request #{oi} of history {hi}) with storage call #{ci} {:?} failing {}", kind.name(), req.name(), ev.call, if mode == Mode::Before { "before taking effect" } else { "after taking effect" });
                        let rep = json!({"origin": "c05", "case": case, "history_seed": h.seed, "request_index": oi, "call_index": ci, "call": format!("{:?}", ev.call), "mode": format!("{mode:?}"), "calls": calls.iter().map(|e| format!("{:?}", e.call)).collect::<Vec<_>>()});
                        cov.hit(format!("{}|{}|{:?}|{:?}|{}", kind.name(), req.name(), ev.call, mode, r.outcome()));
                        if cov.samples.is_empty() || (cov.samples.len() < 4 && ci == 2 && mode == Mode::After) {
                            cov.samples.push(json!({"case": ctx, "response": r.short(), "state_equals_pre": normalized(&after_state) == normalized(&pre), "state_equals_post": mask(&normalized(&after_state), &known_ids) == mask(&normalized(&post), &known_ids)}));
                        }
                        let mut bad: Option<String> = None;
                        if !matches!(r, Resp::Error(_)) {
                            bad = Some(format!("{ctx}: the client received {} instead of an error", r.short()));
                        } else if let Resp::Error(e) = &r {
                            if e.contains("panic") {
                                bad = Some(format!("{ctx}: the server panicked: {e}"));
                            }
                        }
                        if bad.is_none() {
                            let eq_pre = normalized(&after_state) == normalized(&pre);
                            let eq_post = mask(&normalized(&after_state), &known_ids) == mask(&normalized(&post), &known_ids);
                            let commit_after = ev.call == Call::Commit && mode == Mode::After;
                            if !(eq_pre || (commit_after && eq_post)) {
                                let d: Vec<_> = after_state.iter().filter(|x| !pre.contains(x)).take(3).cloned().collect();
                                bad = Some(format!("{ctx}: the request failed, yet stored state is neither as before the request{}: new/changed rows {d:?}", if commit_after { " nor as after it" } else { "" }));
                            }
                        }
                        if bad.is_none() && begins != drops {
                            bad = Some(format!("{ctx}: {begins} transactions were begun but {drops} released when the request returned (leaked transaction)"));
                        }
                        if bad.is_none() {
                            let latest = chains[c].last().map(|p| p.0).unwrap_or(Uuid::nil());
                            if bad.is_none() {
                                // "later requests are served normally": the server that saw the fault must
                                // answer like a fresh server over the same stored state
                                let fresh_dir = ScratchDir::new("c05fresh");
                                let _ = copy_dir(s.dir.as_ref().unwrap().path(), fresh_dir.path());
                                if let Ok(mut fresh) = Subject::open_dir(kind, Config { snapshot_days: 14, snapshot_versions: 4 }, fresh_dir) {
                                    // the reads most likely to be answered from derived state come first
                                    // (any other request might refresh it)
                                    let mut probes: Vec<Req> = vec![];
                                    if let Req::AddVersion { parent, .. } | Req::GetChild { parent } = &req {
                                        probes.push(Req::GetChild { parent: *parent });
                                    }
                                    probes.push(Req::GetChild { parent: latest });
                                    probes.push(Req::GetSnapshot);
                                    for (v, p) in chains[c].iter().rev().take(2) {
                                        probes.push(Req::GetChild { parent: *v });
                                        probes.push(Req::GetChild { parent: *p });
                                    }
                                    probes.push(Req::GetChild { parent: Uuid::nil() });
                                    for pr in probes {
                                        let a = s.exec(cid, &pr);
                                        let b = fresh.exec(cid, &pr);
                                        cov.count("differential_follow_up_probes", 1);
                                        if a != b {
                                            bad = Some(format!("{ctx}: afterwards {} on the server that saw the failure answers {} but a fresh server over the same stored state answers {}", pr.name(), a.short(), b.short()));
                                            break;
                                        }
                                    }
                                    // ... and keeps working like it: a write, a snapshot and reads after them
                                    if bad.is_none() {
                                        let latest_of = |sub: &Subject| -> Uuid {
                                            sub.storage.txn(cid).ok().and_then(|mut t| t.get_client().ok().flatten()).map(|c| c.latest_version_id).unwrap_or(Uuid::nil())
                                        };
                                        let (la, lb) = (latest_of(&s), latest_of(&fresh));
                                        let mut steps: Vec<(&str, Req, Req)> = vec![
                                            ("AddVersion(latest)", Req::AddVersion { parent: la, data: b"after-fault".to_vec() }, Req::AddVersion { parent: lb, data: b"after-fault".to_vec() }),
                                            ("GetChildVersion(previous latest)", Req::GetChild { parent: la }, Req::GetChild { parent: lb }),
                                        ];
                                        // the client whose request failed sends it again, byte for byte, after
                                        // another replica's version has been accepted in the meantime
                                        if matches!(req, Req::AddVersion { .. } | Req::AddSnapshot { .. }) {
                                            steps.push(("the failed request sent again", req.clone(), req.clone()));
                                            steps.push(("GetChildVersion(latest)", Req::GetChild { parent: la }, Req::GetChild { parent: lb }));
                                        }
                                        for (name, ra, rb) in steps {
                                            let a = s.exec(cid, &ra);
                                            let b = fresh.exec(cid, &rb);
                                            let same = match (&a, &b) {
                                                (Resp::AddOk { urg: u1, .. }, Resp::AddOk { urg: u2, .. }) => u1 == u2,
                                                (Resp::Found { data: d1, .. }, Resp::Found { data: d2, .. }) => d1 == d2,
                                                (x, y) => x.outcome() == y.outcome(),
                                            };
                                            cov.count("differential_follow_up_probes", 1);
                                            if !same {
                                                bad = Some(format!("{ctx}: afterwards {name} on the server that saw the failure answers {} but a fresh server over the same stored state answers {}", a.short(), b.short()));
                                                break;
                                            }
                                        }
                                        if bad.is_none() {
                                            let (la, lb) = (latest_of(&s), latest_of(&fresh));
                                            let a = s.exec(cid, &Req::AddSnapshot { vid: la, data: b"snapshot-after-fault".to_vec() });
                                            let b = fresh.exec(cid, &Req::AddSnapshot { vid: lb, data: b"snapshot-after-fault".to_vec() });
                                            let ga = s.exec(cid, &Req::GetSnapshot);
                                            let gb = fresh.exec(cid, &Req::GetSnapshot);
                                            let same = a.outcome() == b.outcome() && match (&ga, &gb) {
                                                (Resp::Snap { vid: v1, data: d1 }, Resp::Snap { vid: v2, data: d2 }) => d1 == d2 && (*v1 == la) == (*v2 == lb),
                                                (x, y) => x.outcome() == y.outcome(),
                                            };
                                            if !same {
                                                bad = Some(format!("{ctx}: afterwards AddSnapshot/GetSnapshot on the server that saw the failure answer {} / {} but on a fresh server over the same stored state {} / {}", a.short(), ga.short(), b.short(), gb.short()));
                                            }
                                        }
                                    }
                                }
                            }
                            // later requests are served normally
                            let p1 = s.exec(cid, &Req::GetChild { parent: Uuid::nil() });
                            let p2 = s.exec(cid, &Req::AddVersion { parent: latest, data: b"probe".to_vec() });
                            cov.count("follow_up_probes", 2);
                            for p in [&p1, &p2] {
                                if let Resp::Error(e) = p {
                                    bad = Some(format!("{ctx}: a later un-faulted request failed: {e}"));
                                }
                            }
                            if thorough && bad.is_none() {
                                // double fault: fail the probe's first call too, then a healthy probe
                                hook.reset(0, false);
                                let _ = s.exec(cid, &Req::GetSnapshot);
                                hook.reset(-1, false);
                                let p3 = s.exec(cid, &Req::GetChild { parent: Uuid::nil() });
                                cov.count("double_fault_sequences", 1);
                                if let Resp::Error(e) = p3 {
                                    bad = Some(format!("{ctx}: after a second fault a later un-faulted request failed: {e}"));
                                }
                            }
                        }
                        if let Some(m) = bad {
                            out.found.push(Found { property: "C05".into(), signature: format!("C05:{}", m.split_whitespace().take(8).collect::<Vec<_>>().join(" ")), msg: m, replay: rep });
                            out.cov = cov;
                            return out;
                        }
                    }
                }
                // ---- layer 2: faults inside SQLite's own I/O (VFS shim), through its real error paths
                if vfs_ok {
                    use crate::vfs::{self, FaultKind, FaultSpec};
                    // learn how many operations of each kind the request performs
                    let counts: Vec<(FaultKind, u64, Vec<i32>, Vec<u64>)> = {
                        let s = match open_copy(img.path(), kind, &hook) {
                            Ok(s) => s,
                            Err(_) => continue,
                        };
                        let mut s = s;
                        hook.reset(-1, false);
                        vfs::start_recording();
                        let _ = s.exec(cid, &req);
                        drop(s);
                        let log = vfs::stop_recording();
                        let n = |k: &str| log.iter().filter(|e| e.kind() == k).count() as u64;
                        vec![
                            (FaultKind::Write, n("write"), vec![778, 13], vec![1]),
                            (FaultKind::Sync, n("sync"), vec![1034], vec![1]),
                            (FaultKind::Truncate, n("truncate"), vec![1546], vec![1]),
                            (FaultKind::Open, n("open"), vec![14], vec![1]),
                            (FaultKind::Delete, n("delete"), vec![2570], vec![1]),
                            (FaultKind::Read, 12, vec![266], vec![1]),
                            // a lock that is refused once, and one that stays refused (longer than any retry)
                            (FaultKind::Lock, if no_wal { 10 } else { 6 }, vec![5, 3850], vec![1, 1000]),
                        ]
                    };
                    // ---- an outage: the storage is unavailable for six consecutive requests (the
                    // database cannot be opened / stays locked), then it is back: the very next requests
                    // must be served normally
                    if oi % 7 == 0 {
                        for (fk, code) in [(FaultKind::Open, 14), (FaultKind::Lock, 5)] {
                            let mut s = match open_copy(img.path(), kind, &hook) {
                                Ok(s) => s,
                                Err(_) => continue,
                            };
                            hook.reset(-1, false);
                            vfs::start_recording();
                            vfs::arm(Some(FaultSpec { kind: fk, nth: 0, code, repeat: u64::MAX / 2 }));
                            let mut failed = 0;
                            for _ in 0..6 {
                                if matches!(s.exec(cid, &req), Resp::Error(_)) {
                                    failed += 1;
                                }
                                let _ = s.exec(cid, &Req::GetSnapshot);
                            }
                            vfs::arm(None);
                            let _ = vfs::stop_recording();
                            cov.evaluations += 1;
                            cov.hit(format!("outage|{}|{fk:?}|failed-requests={}", kind.name(), if failed >= 5 { "5+" } else { "fewer" }));
                            let probes = [s.exec(cid, &Req::GetChild { parent: Uuid::nil() }), s.exec(cid, &Req::GetSnapshot), s.exec(cid, &req)];
                            if let Some(Resp::Error(e)) = probes.iter().find(|p| matches!(p, Resp::Error(_))) {
                                let m = format!("[{}] after an outage of the storage during 12 consecutive requests ({fk:?} failing with code {code}; {failed} of 6 {} requests failed) the storage is available again, yet the next request is answered with an error: {e}", kind.name(), req.name());
                                out.found.push(Found { property: "C05".into(), signature: "C05:vfs outage later requests fail".into(), msg: m, replay: json!({"origin": "c05-outage", "case": hi * 100_000 + oi * 1000}) });
                                out.cov = cov;
                                return out;
                            }
                        }
                    }
                    for (fk, n, codes, repeats) in counts {
                        for nth in 0..n {
                            for code in &codes {
                              for repeat in &repeats {
                                if *repeat > 1 && *code != 5 {
                                    continue;
                                }
                                vcase += 1;
                                let stride = if thorough { 1 } else { 5 };
                                if vcase % stride != 0 {
                                    continue;
                                }
                                let mut s = match open_copy(img.path(), kind, &hook) {
                                    Ok(s) => s,
                                    Err(_) => continue,
                                };
                                hook.reset(-1, false);
                                vfs::start_recording();
                                vfs::arm(Some(FaultSpec { kind: fk, nth, code: *code, repeat: *repeat }));
                                let r = s.exec(cid, &req);
                                let fired = vfs::fired();
                                vfs::arm(None);
                                let _ = vfs::stop_recording();
                                cov.evaluations += 1;
                                out.executed += 1;
                                if fired.is_none() {
                                    cov.count("vfs_fault_sites_not_reached", 1);
                                    continue;
                                }
                                let after_state = state_with(&s, &runner_clients, &idlist);
                                let eq_pre = normalized(&after_state) == normalized(&pre);
                                let eq_post = mask(&normalized(&after_state), &known_ids) == mask(&normalized(&post), &known_ids);
                                let success = !matches!(r, Resp::Error(_));
                                cov.hit(format!("vfs{}|{}|{}|{fk:?}|code{code}{}|{}|state={}", if no_wal { "-rollback-journal" } else { "" }, kind.name(), req.name(), if *repeat > 1 { "-persistent" } else { "" }, if success { "success" } else { "error" }, if eq_pre && eq_post { "unchanged" } else if eq_pre { "pre" } else if eq_post { "post" } else { "OTHER" }));
                                let ctx = format!("[{}] {} (request #{oi} of history {hi}) with SQLite's {fk:?} operation #{nth} failing with code {code} ({})", kind.name(), req.name(), fired.as_ref().map(|f| f.1.clone()).unwrap_or_default());
                                let mut bad: Option<String> = None;
                                if let Resp::Error(e) = &r {
                                    if e.contains("panic") {
                                        bad = Some(format!("{ctx}: the server panicked: {e}"));
                                    }
                                }
                                if bad.is_none() && success && !eq_post {
                                    bad = Some(format!("{ctx}: the client received {} although the change was not committed (state equals the state before the request: {eq_pre})", r.short()));
                                }
                                if bad.is_none() && !success && !(eq_pre || eq_post) {
                                    bad = Some(format!("{ctx}: the request failed and stored state is neither as before nor as after the request"));
                                }
                                if bad.is_none() {
                                    let p1 = s.exec(cid, &Req::GetChild { parent: Uuid::nil() });
                                    let p2 = s.exec(cid, &Req::GetSnapshot);
                                    for p in [&p1, &p2] {
                                        if let Resp::Error(e) = p {
                                            bad = Some(format!("{ctx}: a later un-faulted request failed: {e}"));
                                        }
                                    }
                                }
                                if let (Some(m), true) = (&mut bad, no_wal) {
                                    m.push_str(" [database in rollback-journal mode: the file system offers no shared memory, WAL could not be enabled]");
                                }
                                if let Some(m) = bad {
                                    out.found.push(Found { property: "C05".into(), signature: format!("C05:vfs {}", m.split(": ").last().unwrap_or("").split_whitespace().take(8).collect::<Vec<_>>().join(" ")), msg: m, replay: json!({"origin": "c05-vfs", "case": hi * 100_000 + oi * 1000, "fault": format!("{fk:?} #{nth} code {code}")}) });
                                    out.cov = cov;
                                    return out;
                                }
                              }
                            }
                        }
                    }
                }
                reqs_flat.push((oi, req));
            }
        }
    }
    out.cov = cov;
    out
}

pub fn finalize(out: ShardOut, is_replay: bool) -> CheckResult {
    let cov = out.cov;
    let mut top: Vec<(&String, &u64)> = cov.situations.iter().collect();
    top.sort_by(|a, b| b.1.cmp(a.1));
    let coverage = json!({
        "evaluations": cov.evaluations,
        "distinct_nontrivial": cov.situations.len(),
        "rule": "for every request of generated histories on the SQLite backend (library and HTTP handlers) the sequence of storage calls (begin, reads, writes, commit) is learned on a copy of the data directory; then for every call index and both modes (fail before taking effect / fail after taking effect) the directory image is restored and the request re-run with that call failing. Oracle: the client gets an error (never a success, never a panic); all SQL rows equal the pre-state (or the post-state when the failing call was commit-after-effect; an empty client record is identified with an absent client); begun == released transactions at return; follow-up requests succeed; thorough adds a second fault in the follow-up. Layer 2: the same requests are re-run with the n-th xWrite / xSync / xTruncate / xOpen / xDelete / xRead / xLock of SQLite itself failing (IOERR_*, FULL, CANTOPEN, BUSY) through a VFS shim, so that the error travels through SQLite's and rusqlite's real error paths (a lock refusal also as a persistent condition; a quarter of the histories on a shim without shared-memory support, where WAL cannot be enabled, the database stays in rollback-journal mode and a commit itself can be refused with BUSY); oracle: success only with the post-state, failure only with the pre- or post-state, later requests served. distinct_nontrivial = distinct (subject, request, failing call, mode, outcome).",
        "samples": cov.samples,
        "injections": out.executed,
        "counters": cov.counters,
        "situations_top": top.iter().take(40).map(|(k, v)| json!({"situation": k, "n": v})).collect::<Vec<_>>(),
    });
    let required = ["vfs|", "vfs-rollback-journal|", "|Lock|code5-persistent|", "outage|", "|Write|code778|error|", "|Sync|code1034|", "AddVersion|Commit|After", "AddVersion|Commit|Before", "AddVersion|AddVersion|", "AddSnapshot|SetSnapshot|", "AddSnapshot|GetVersion|", "GetChildVersion|GetVersionByParent|", "AddVersion|NewClient|", "GetSnapshot|GetSnapshotData|", "|Begin|"];
    let verdict = if !out.found.is_empty() {
        Verdict::Violated(out.found)
    } else if !out.errors.is_empty() {
        Verdict::Inconclusive(out.errors.join("; "))
    } else if !is_replay {
        match crate::evidence::require(&cov.situations, &required) {
            Some(r) => Verdict::Inconclusive(r),
            None => Verdict::Held,
        }
    } else {
        Verdict::Held
    };
    CheckResult {
        verdict,
        coverage,
        assumptions: vec!["faults are synthetic errors returned at the public StorageTxn boundary (VFS-level faults through SQLite's own error paths are exercised by the crash/VFS engine)".into(), "persistent backend only, as the statement says".into()],
        level: "fault_enumeration",
        notes: vec![],
    }
}

/// C01 under storage trouble: while a chain is being walked through the HTTP handlers, each storage
/// call of each step fails once. A step may then be answered with an error (the replica tries again),
/// never with "no child" or "gone" for a parent whose child was accepted, and never with another
/// version: a replica would stop early or branch.
pub fn c01_walk_under_faults(seed: u64, cov: &mut Cov) -> Option<Found> {
    let cfg = Config { snapshot_days: 14, snapshot_versions: 4 };
    let mut base = Subject::new(Kind::SQL_LIB, cfg).ok()?;
    let c = Rng::new(seed).fork(0xC01F).uuid();
    let mut chain: Vec<(Uuid, Uuid, Vec<u8>)> = vec![];
    let mut p = Uuid::nil();
    for i in 0..4u8 {
        let data = vec![i + 1; 30 + i as usize];
        if let Resp::AddOk { vid, .. } = base.exec(c, &Req::AddVersion { parent: p, data: data.clone() }) {
            chain.push((vid, p, data));
            p = vid;
        }
    }
    if chain.len() < 4 {
        return None;
    }
    let _ = base.exec(c, &Req::AddSnapshot { vid: chain[2].0, data: b"snapshot".to_vec() });
    let img = ScratchDir::new("c01img");
    copy_dir(base.dir.as_ref().unwrap().path(), img.path()).ok()?;
    let hook = FaultHook::new();
    for kind in [Kind::SQL_HTTP, Kind::SQL_LIB] {
        for (step, (vid, par, data)) in chain.iter().enumerate() {
            let req = Req::GetChild { parent: *par };
            let n = {
                let mut s = open_copy(img.path(), kind, &hook).ok()?;
                hook.reset(-1, false);
                let _ = s.exec(c, &req);
                hook.counter.load(Ordering::SeqCst)
            };
            for idx in 0..n {
                let mut s = open_copy(img.path(), kind, &hook).ok()?;
                hook.reset(idx, false);
                let resp = s.exec(c, &req);
                let fired = hook.fired.load(Ordering::SeqCst);
                let call = hook.log.lock().unwrap().get(idx as usize).map(|e| format!("{:?}", e.call)).unwrap_or_default();
                hook.reset(-1, false);
                cov.evaluations += 1;
                if !fired {
                    continue;
                }
                cov.hit(format!("walk-under-storage-failure|{}|{call}|{}", kind.name(), resp.outcome()));
                let ok = match &resp {
                    Resp::Error(_) => true,
                    Resp::Found { vid: v, parent: q, data: d } => v == vid && q == par && d == data,
                    _ => false,
                };
                if !ok {
                    return Some(Found {
                        property: "C01".into(),
                        signature: format!("C01:walk under storage failure answered {}", resp.outcome()),
                        msg: format!("[{}] walk step {step} (GetChildVersion of a parent whose child {vid} was accepted) with storage call #{idx} ({call}) failing was answered {}: a replica walking the chain would stop or go astray instead of trying again", kind.name(), resp.short()),
                        replay: json!({"origin": "c01-walk-faults", "case": step * 100 + idx as usize}),
                    });
                }
            }
        }
    }
    None
}

/// C14 under storage failures: whenever a storage call fails while the HTTP handlers serve a
/// request, the response must say so (5xx) - not 404 "no snapshot", not 200, not 409.
pub fn c14_fault_twin(seed: u64, cov: &mut Cov) -> Option<Found> {
    let cfg = Config { snapshot_days: 14, snapshot_versions: 4 };
    let mut base = Subject::new(Kind::SQL_LIB, cfg).ok()?;
    let c = Rng::new(seed).fork(0xC14F).uuid();
    let mut chain = vec![];
    let mut p = Uuid::nil();
    for i in 0..3u8 {
        if let Resp::AddOk { vid, .. } = base.exec(c, &Req::AddVersion { parent: p, data: vec![i; 30] }) {
            chain.push(vid);
            p = vid;
        }
    }
    if chain.len() < 3 {
        return None;
    }
    let _ = base.exec(c, &Req::AddSnapshot { vid: chain[1], data: b"snapshot".to_vec() });
    let img = ScratchDir::new("c14img");
    copy_dir(base.dir.as_ref().unwrap().path(), img.path()).ok()?;
    let stranger = Rng::new(seed).fork(0xC14E).uuid();
    let reqs: Vec<(Uuid, Req)> = vec![
        (c, Req::AddVersion { parent: chain[2], data: b"next".to_vec() }),
        (c, Req::AddVersion { parent: chain[0], data: b"stale".to_vec() }),
        (c, Req::GetChild { parent: Uuid::nil() }),
        (c, Req::GetChild { parent: chain[2] }),
        (c, Req::AddSnapshot { vid: chain[2], data: b"snapshot two".to_vec() }),
        (c, Req::GetSnapshot),
        (stranger, Req::AddVersion { parent: Uuid::nil(), data: b"first".to_vec() }),
        (stranger, Req::GetSnapshot),
    ];
    let hook = FaultHook::new();
    for (ri, (client, req)) in reqs.iter().enumerate() {
        // how many storage calls does the request make through the handlers?
        let n = {
            let mut s = open_copy(img.path(), Kind::SQL_HTTP, &hook).ok()?;
            hook.reset(-1, false);
            let _ = s.exec(*client, req);
            hook.counter.load(Ordering::SeqCst)
        };
        for idx in 0..n {
            let mut s = open_copy(img.path(), Kind::SQL_HTTP, &hook).ok()?;
            hook.reset(idx, false);
            let resp = s.exec(*client, req);
            let fired = hook.fired.load(Ordering::SeqCst);
            let call = hook.log.lock().unwrap().get(idx as usize).map(|e| format!("{:?}", e.call)).unwrap_or_default();
            hook.reset(-1, false);
            cov.evaluations += 1;
            if !fired {
                continue;
            }
            let status = s.last_http.as_ref().map(|(_, r)| r.status).unwrap_or(0);
            cov.hit(format!("storage-failure-through-http|{}|{call}|status={status}", req.name()));
            if status < 500 {
                return Some(Found {
                    property: "C14".into(),
                    signature: format!("C14:storage failure answered {status}"),
                    msg: format!("{} through the HTTP handlers with storage call #{idx} ({call}) failing was answered {} ({}): the outcome of the request is a storage failure, which this response does not say", req.name(), status, resp.short()),
                    replay: json!({"origin": "c14-fault", "case": ri * 100 + idx as usize}),
                });
            }
        }
    }
    None
}
