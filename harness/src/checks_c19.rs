//! C19 — E7 compatibility engine: data directories written by the pinned code (committed corpus
//! plus directories freshly written by the vendored pinned storage crate) opened by the current
//! code.

use crate::evidence::{verif_dir, CheckResult, Cov, Found, Shard, ShardOut, Verdict};
use crate::ops::{first_diff, PaySpec, Req, Resp};
use crate::prng::Rng;
use crate::scratch::{copy_dir, ScratchDir};
use crate::subject::{Config, Kind, Subject};
use serde_json::{json, Value};
use std::path::{Path, PathBuf};
use uuid::Uuid;

// the "old release": vendored pinned crates
use pinned_core::{Server as PServer, ServerConfig as PConfig, Snapshot as PSnapshot, Storage as PStorage, AddVersionResult as PAdd};
use pinned_sqlite::SqliteStorage as PSqlite;

#[derive(Clone, Debug)]
pub struct ExpVersion {
    pub vid: Uuid,
    pub parent: Uuid,
    pub pay: PaySpec,
}

#[derive(Clone, Debug)]
pub struct ExpSnap {
    pub vid: Uuid,
    pub ts: i64,
    pub since: u32,
    pub pay: PaySpec,
}

#[derive(Clone, Debug, Default)]
pub struct ExpClient {
    pub id: Uuid,
    pub versions: Vec<ExpVersion>,
    pub snapshot: Option<ExpSnap>,
    /// a request was in flight when the directory was abandoned: one more version may exist
    pub maybe_more: bool,
}

#[derive(Clone, Debug, Default)]
pub struct Expected {
    pub clients: Vec<ExpClient>,
    pub note: String,
}

fn pay_json(p: &PaySpec) -> Value {
    json!({"len": p.len, "class": p.class, "seed": p.seed.to_string()})
}
fn pay_from(v: &Value) -> PaySpec {
    PaySpec::new(v["len"].as_u64().unwrap_or(0) as usize, v["class"].as_u64().unwrap_or(0) as u8, v["seed"].as_str().and_then(|s| s.parse().ok()).unwrap_or(0))
}

impl Expected {
    pub fn to_json(&self) -> Value {
        json!({"note": self.note, "clients": self.clients.iter().map(|c| json!({
            "id": c.id.to_string(), "maybe_more": c.maybe_more,
            "versions": c.versions.iter().map(|v| json!({"vid": v.vid.to_string(), "parent": v.parent.to_string(), "payload": pay_json(&v.pay)})).collect::<Vec<_>>(),
            "snapshot": c.snapshot.as_ref().map(|s| json!({"vid": s.vid.to_string(), "ts": s.ts, "since": s.since, "payload": pay_json(&s.pay)})),
        })).collect::<Vec<_>>()})
    }
    pub fn from_json(v: &Value) -> Expected {
        let u = |x: &Value| Uuid::parse_str(x.as_str().unwrap_or("")).unwrap_or(Uuid::nil());
        Expected {
            note: v["note"].as_str().unwrap_or("").to_string(),
            clients: v["clients"].as_array().map(|a| a.iter().map(|c| ExpClient {
                id: u(&c["id"]),
                maybe_more: c["maybe_more"].as_bool().unwrap_or(false),
                versions: c["versions"].as_array().map(|vs| vs.iter().map(|x| ExpVersion { vid: u(&x["vid"]), parent: u(&x["parent"]), pay: pay_from(&x["payload"]) }).collect()).unwrap_or_default(),
                snapshot: if c["snapshot"].is_null() { None } else { Some(ExpSnap { vid: u(&c["snapshot"]["vid"]), ts: c["snapshot"]["ts"].as_i64().unwrap_or(0), since: c["snapshot"]["since"].as_u64().unwrap_or(0) as u32, pay: pay_from(&c["snapshot"]["payload"]) }) },
            }).collect()).unwrap_or_default(),
        }
    }
}

/// Write a generated history into `dir` with the PINNED storage and protocol code.
pub fn write_pinned(dir: &Path, seed: u64, big: bool) -> anyhow::Result<Expected> {
    write_pinned_sized(dir, seed, big, 0)
}

/// `huge` > 0: one version and one snapshot of about that many bytes (legal up to 100 MiB under the
/// pinned release) are part of the directory.
pub fn write_pinned_sized(dir: &Path, seed: u64, big: bool, huge: usize) -> anyhow::Result<Expected> {
    let mut rng = Rng::new(seed).fork(0xC19);
    let st = PSqlite::new(dir)?;
    let server = PServer::new(PConfig { snapshot_days: 14, snapshot_versions: 100 }, st);
    let nclients = 1 + rng.usize(3);
    let mut exp = Expected { clients: vec![], note: format!("written in-process by the vendored pinned crates, seed {seed}") };
    for c in 0..nclients {
        // the pinned release accepts any well-formed id (v1, v7, hand-made): every other client has an
        // arbitrary 128-bit id
        let id = if c % 2 == 1 { rng.uuid_any() } else { rng.uuid() };
        let mut ec = ExpClient { id, ..Default::default() };
        {
            let mut t = server.txn(id)?;
            t.new_client(Uuid::nil())?;
            t.commit()?;
        }
        let n = 1 + rng.usize(9);
        let mut parent = if rng.pct(30) { rng.uuid() } else { Uuid::nil() };
        // a chain may start where another client's chain starts or continues (a replica re-keyed
        // to a new client id): two clients then hold versions with the same non-nil parent
        let mut earlier: Vec<Uuid> = vec![];
        for e in &exp.clients {
            for v in &e.versions {
                for u in [v.parent, v.vid] {
                    if !u.is_nil() {
                        earlier.push(u);
                    }
                }
            }
        }
        if !earlier.is_empty() && rng.pct(45) {
            parent = *rng.pick(&earlier);
        }
        let huge_at = if huge > 0 && c == 0 { Some(rng.usize(n)) } else { None };
        for i in 0..n {
            let len = if huge_at == Some(i) {
                huge
            } else if big && rng.pct(20) { *rng.pick(&[70_000usize, 300_000, 1_000_000]) } else { *rng.pick(&[1usize, 20, 200, 3900, 4100, 9000]) };
            let pay = PaySpec::new(len, (rng.below(crate::ops::PAY_CLASSES as u64)) as u8, seed.wrapping_mul(31).wrapping_add((c * 100 + i) as u64));
            match server.add_version(id, parent, pay.bytes())? {
                (PAdd::Ok(v), _) => {
                    ec.versions.push(ExpVersion { vid: v, parent, pay });
                    parent = v;
                    if let Some(s) = &mut ec.snapshot {
                        s.since += 1;
                    }
                }
                (PAdd::ExpectedParentVersion(_), _) => anyhow::bail!("unexpected conflict while writing"),
            }
            if rng.pct(25) || huge_at == Some(i) {
                let sp = PaySpec::new(if huge_at == Some(i) { huge + (1 << 20) } else { 16 + rng.usize(2000) }, if i % 3 == 2 { 10 + (i % 3) as u8 } else { 9 }, seed ^ (c * 1000 + i) as u64);
                server.add_snapshot(id, parent, sp.bytes())?;
                // what was stored (the pinned code stamps the time itself)
                let mut t = server.txn(id)?;
                if let Some(cl) = t.get_client()? {
                    if let Some(s) = cl.snapshot {
                        if s.version_id == parent {
                            ec.snapshot = Some(ExpSnap { vid: parent, ts: s.timestamp.timestamp(), since: s.versions_since, pay: sp });
                        }
                    }
                }
            }
        }
        // occasionally plant an old snapshot time through the pinned storage API
        if rng.pct(30) && !ec.versions.is_empty() && huge_at.is_none() {
            let v = ec.versions[ec.versions.len().saturating_sub(1 + rng.usize(ec.versions.len().min(4)))].vid;
            let sp = PaySpec::new(40, 9, seed ^ 0xABCD ^ c as u64);
            let ts = chrono::Utc::now() - chrono::Duration::days(rng.range(1, 400) as i64);
            let since = rng.below(50) as u32;
            let mut t = server.txn(id)?;
            t.set_snapshot(PSnapshot { version_id: v, timestamp: ts, versions_since: since }, sp.bytes())?;
            t.commit()?;
            ec.snapshot = Some(ExpSnap { vid: v, ts: ts.timestamp(), since, pay: sp });
        }
        exp.clients.push(ec);
    }
    Ok(exp)
}

/// Open a (scratch copy of a) directory with the CURRENT code and compare with the expectation;
/// then append to every chain.
pub fn verify_dir(src: &Path, exp: &Expected, cov: &mut Cov, label: &str) -> Result<(), String> {
    // how the upgraded server reaches the directory: directly through the library, through a
    // symbolic link (a volume mounted elsewhere), or as the web server with an allow-list that names
    // the stored clients
    let how = label.bytes().fold(exp.clients.len() as u64, |a, b| a.wrapping_mul(31).wrapping_add(b as u64)) % 3;
    let outer = ScratchDir::new("c19");
    let real = outer.path().join("data");
    std::fs::create_dir_all(&real).map_err(|e| format!("mkdir: {e}"))?;
    copy_dir(src, &real).map_err(|e| format!("copy: {e}"))?;
    let open_path = if how == 1 {
        let link = outer.path().join("via-link");
        std::os::unix::fs::symlink(&real, &link).map_err(|e| format!("symlink: {e}"))?;
        link
    } else {
        real.clone()
    };
    let label = &format!("{label}, opened {}", ["through the library", "through a symbolic link to the directory", "by the web server with an allow-list naming its clients"][how as usize]);
    cov.hit(format!("opened:{}", ["library", "via-symlink", "web-server-with-allow-list"][how as usize]));
    let kind = if how == 2 { Kind::SQL_HTTP } else { Kind::SQL_LIB };
    // (the inner handle does not own the files; `outer` removes them)
    let mut subj = Subject::open_dir(kind, Config::default(), ScratchDir(open_path)).map_err(|e| format!("[{label}] the current code cannot open the directory: {e:#}"))?;
    if how == 2 {
        subj.reconfigure(Config::default(), Some(exp.clients.iter().map(|c| c.id).collect()));
    }
    for c in &exp.clients {
        // client record through the storage API
        let rec = {
            let mut t = subj.storage.txn(c.id).map_err(|e| format!("[{label}] txn: {e:#}"))?;
            t.get_client().map_err(|e| format!("[{label}] client {} cannot be read: {e:#}", c.id))?
        };
        let Some(rec) = rec else {
            if c.versions.is_empty() && c.maybe_more {
                continue; // its only request was in flight when the server was killed
            }
            return Err(format!("[{label}] client {} is missing", c.id));
        };
        // walk the chain through the protocol
        let mut p = c.versions.first().map(|v| v.parent).unwrap_or(Uuid::nil());
        for (i, v) in c.versions.iter().enumerate() {
            cov.evaluations += 1;
            match subj.exec(c.id, &Req::GetChild { parent: p }) {
                Resp::Found { vid, parent, data } => {
                    let want = v.pay.bytes();
                    if vid != v.vid || parent != v.parent {
                        return Err(format!("[{label}] client {} version #{i}: served (v={vid}, p={parent}), written as (v={}, p={})", c.id, v.vid, v.parent));
                    }
                    if data != want {
                        return Err(format!("[{label}] client {} version #{i} ({} bytes): payload differs at offset {:?} ({} bytes served)", c.id, want.len(), first_diff(&data, &want), data.len()));
                    }
                    p = vid;
                }
                o => return Err(format!("[{label}] client {} version #{i} (v={}) is not served: {}", c.id, v.vid, o.short())),
            }
        }
        let mut latest = c.versions.last().map(|v| v.vid).unwrap_or(Uuid::nil());
        if c.maybe_more {
            // one in-flight version may have been committed before the kill
            if let Resp::Found { vid, parent, .. } = subj.exec(c.id, &Req::GetChild { parent: latest }) {
                if parent != latest {
                    return Err(format!("[{label}] client {}: extra version with wrong parent", c.id));
                }
                latest = vid;
                cov.hit("in-flight-version-was-committed".into());
            }
        }
        if rec.latest_version_id != latest {
            return Err(format!("[{label}] client {}: latest pointer is {} but the last written version is {latest}", c.id, rec.latest_version_id));
        }
        match subj.exec(c.id, &Req::GetChild { parent: latest }) {
            Resp::NotFound => {}
            o => return Err(format!("[{label}] client {}: child of the latest version should be not-found, got {}", c.id, o.short())),
        }
        // snapshot
        match (&c.snapshot, &rec.snapshot) {
            (None, None) => {}
            (Some(e), Some(s)) => {
                let since_ok = s.versions_since == e.since || (c.maybe_more && s.versions_since == e.since + 1);
                if s.version_id != e.vid || s.timestamp.timestamp() != e.ts || !since_ok {
                    return Err(format!("[{label}] client {}: snapshot bookkeeping served as (v={}, time={}, since={}), written as (v={}, time={}, since={})", c.id, s.version_id, s.timestamp.timestamp(), s.versions_since, e.vid, e.ts, e.since));
                }
                match subj.exec(c.id, &Req::GetSnapshot) {
                    Resp::Snap { vid, data } if vid == e.vid && data == e.pay.bytes() => {}
                    o => return Err(format!("[{label}] client {}: snapshot for {} is not served as written: {}", c.id, e.vid, o.short())),
                }
                cov.hit("snapshot-verified".into());
            }
            (e, s) => return Err(format!("[{label}] client {}: snapshot presence differs: written {:?}, served {:?}", c.id, e.as_ref().map(|x| x.vid), s.as_ref().map(|x| x.version_id))),
        }
        // append to the existing chain
        let mut par = latest;
        for k in 0..5 {
            let data = format!("appended-{k}").into_bytes();
            match subj.exec(c.id, &Req::AddVersion { parent: par, data: data.clone() }) {
                Resp::AddOk { vid, .. } => {
                    match subj.exec(c.id, &Req::GetChild { parent: par }) {
                        Resp::Found { vid: v2, data: d2, .. } if v2 == vid && d2 == data => {}
                        o => return Err(format!("[{label}] client {}: appended version cannot be read back: {}", c.id, o.short())),
                    }
                    par = vid;
                }
                o => return Err(format!("[{label}] client {}: cannot append to the existing chain: {}", c.id, o.short())),
            }
        }
        match subj.exec(c.id, &Req::AddSnapshot { vid: par, data: b"new snapshot".to_vec() }) {
            Resp::SnapOk => {}
            o => return Err(format!("[{label}] client {}: cannot add a snapshot after the upgrade: {}", c.id, o.short())),
        }
        match subj.exec(c.id, &Req::GetSnapshot) {
            Resp::Snap { vid, data } if vid == par && data == b"new snapshot" => {}
            o => return Err(format!("[{label}] client {}: new snapshot not served: {}", c.id, o.short())),
        }
        // and the old history is still there
        let mut p = c.versions.first().map(|v| v.parent).unwrap_or(Uuid::nil());
        for v in &c.versions {
            match subj.exec(c.id, &Req::GetChild { parent: p }) {
                Resp::Found { vid, .. } if vid == v.vid => p = vid,
                o => return Err(format!("[{label}] client {}: after appending, old version {} is no longer served: {}", c.id, v.vid, o.short())),
            }
        }
        if let Some(f) = c.versions.first() {
            if !f.parent.is_nil() && exp.clients.iter().any(|o| o.id != c.id && o.versions.iter().any(|v| v.parent == f.parent || v.vid == f.parent)) {
                cov.hit("client-verified:chain-starts-inside-another-clients-chain".into());
            }
        }
        cov.hit(format!("client-verified:len{}:{}", c.versions.len().min(9), if c.versions.first().map(|v| v.parent.is_nil()).unwrap_or(true) { "nil-base" } else { "id-base" }));
    }
    Ok(())
}

/// Directories in which the pinned release's client re-creation race happened (finding F1: two
/// first requests of one client, the second `new_client` replaces the client row): the client has
/// two children of one parent and an abandoned branch. Whatever the pinned release served for such a
/// directory - which child of the forked parent, found / not-found / gone for every id on either
/// branch, the snapshot - the current code must serve the same before and after appending
/// (differential against the pinned code's own answers; C07: a version that has been served as the
/// child of its parent is served for ever, also across the upgrade).
pub fn legacy_fork_part(property: &str, seed: u64, thorough: bool, cov: &mut Cov) -> Option<Found> {
    let n = if thorough { 120 } else { 24 };
    for i in 0..n {
        let mut rng = Rng::new(seed).fork(0xF0_0000 + i as u64);
        let d = ScratchDir::new("c19f");
        let client = rng.uuid();
        let a_len = 1 + i % 3;
        let b_len = 1 + (i / 3) % 3;
        let base = if i % 4 == 3 { rng.uuid() } else { Uuid::nil() };
        let snap_on_a = i % 5 == 1;
        let snap_on_b = i % 7 == 2;
        let fail = |m: String| Some(Found { property: property.into(), signature: format!("{property}:legacy-fork {}", m.split_whitespace().take(6).collect::<Vec<_>>().join(" ")), msg: format!("[directory with a re-created client, abandoned branch of {a_len}, live branch of {b_len}, base {}] {m}", if base.is_nil() { "nil" } else { "non-nil" }), replay: json!({"origin": "legacy-fork", "case": 800_000 + i}) });
        let mut queries: Vec<Req> = vec![Req::GetChild { parent: Uuid::nil() }, Req::GetChild { parent: base }, Req::GetChild { parent: rng.uuid() }, Req::GetSnapshot];
        let mut before: Vec<(Req, Resp)> = vec![];
        let latest;
        {
            let server = match crate::pinned::new_server(d.path(), 14, 100) {
                Ok(s) => s,
                Err(e) => return fail(format!("INCONCLUSIVE pinned writer: {e:#}")).map(|mut f| { f.signature = "harness-error".into(); f }),
            };
            let mut ids: Vec<Uuid> = vec![];
            let mut parent = base;
            for k in 0..a_len {
                match crate::pinned::exec(&server, client, &Req::AddVersion { parent, data: format!("abandoned-{k}").into_bytes() }) {
                    Resp::AddOk { vid, .. } => { ids.push(vid); parent = vid; }
                    _ => return None,
                }
            }
            if snap_on_a {
                let _ = crate::pinned::exec(&server, client, &Req::AddSnapshot { vid: parent, data: b"snapshot on the abandoned branch".to_vec() });
            }
            // the second first request's client creation
            {
                let mut t = server.txn(client).ok()?;
                t.new_client(Uuid::nil()).ok()?;
                t.commit().ok()?;
            }
            let mut parent = base;
            for k in 0..b_len {
                match crate::pinned::exec(&server, client, &Req::AddVersion { parent, data: format!("live-{k}").into_bytes() }) {
                    Resp::AddOk { vid, .. } => { ids.push(vid); parent = vid; }
                    _ => return None,
                }
            }
            if snap_on_b {
                let _ = crate::pinned::exec(&server, client, &Req::AddSnapshot { vid: parent, data: b"snapshot on the live branch".to_vec() });
            }
            latest = parent;
            for v in &ids {
                queries.push(Req::GetChild { parent: *v });
            }
            for q in &queries {
                before.push((q.clone(), crate::pinned::exec(&server, client, q)));
            }
        }
        cov.hit(format!("legacy-fork-directory:abandoned{a_len}:live{b_len}:{}", if base.is_nil() { "nil-base" } else { "id-base" }));
        let kind = if i % 2 == 0 { Kind::SQL_LIB } else { Kind::SQL_HTTP };
        let mut subj = match Subject::open_dir(kind, Config::default(), ScratchDir(d.path().to_path_buf())) {
            Ok(s) => s,
            Err(e) => return fail(format!("the current code cannot open the directory: {e:#}")),
        };
        for round in 0..2 {
            for (q, want) in &before {
                if round == 1 && matches!(q, Req::GetChild { parent } if *parent == latest) {
                    continue;
                }
                if round == 1 && matches!(q, Req::GetSnapshot) {
                    continue;
                }
                cov.evaluations += 1;
                let got = subj.exec(client, q);
                if got.short() != want.short() || got != *want {
                    return fail(format!("{} was answered {} by the pinned release and is answered {} by the current code{}", match q { Req::GetChild { parent } => format!("GetChildVersion({})", if *parent == base { "the forked parent".to_string() } else { parent.to_string() }), o => o.name().to_string() }, want.short(), got.short(), if round == 1 { " after appending to the live branch" } else { "" }));
                }
            }
            if round == 0 {
                let mut par = latest;
                for k in 0..2 {
                    match subj.exec(client, &Req::AddVersion { parent: par, data: format!("appended-{k}").into_bytes() }) {
                        Resp::AddOk { vid, .. } => par = vid,
                        o => return fail(format!("cannot append to the live branch: {}", o.short())),
                    }
                }
                if let Err(e) = subj.reopen() {
                    return fail(format!("the directory cannot be reopened after appending: {e:#}"));
                }
            }
        }
        cov.count("legacy_fork_answers_compared", (before.len() * 2) as u64);
    }
    None
}

/// Directories "left behind by a crash" of the pinned release at its very beginning: the pinned
/// storage's first initialisation and first requests are recorded through the VFS shim; at every
/// file-system event the process-crash image and some power-loss images are opened by the current
/// code, which must start and serve (a new client can append and read back, the old client's chain
/// is readable without errors).
pub fn pinned_init_crashes(seed: u64, thorough: bool, cov: &mut Cov) -> Option<Found> {
    use crate::crash::Shadow;
    use crate::vfs;
    if vfs::register().is_err() {
        return None;
    }
    let work = ScratchDir::new("c19init");
    let x = Rng::new(seed).fork(0x1917).uuid();
    let mut shadow = Shadow::from_dir(work.path());
    vfs::start_recording();
    {
        if let Ok(st) = PSqlite::new(work.path()) {
            let server = PServer::new(PConfig { snapshot_days: 14, snapshot_versions: 100 }, st);
            if let Ok(mut t) = server.txn(x) {
                let _ = t.new_client(Uuid::nil());
                let _ = t.commit();
            }
            let mut p = Uuid::nil();
            for i in 0..3u8 {
                if let Ok((PAdd::Ok(v), _)) = server.add_version(x, p, vec![i; 40]) {
                    p = v;
                }
            }
            let _ = server.add_snapshot(x, p, vec![7; 300]);
        }
    }
    let events = vfs::stop_recording();
    let mut rng = Rng::new(seed).fork(0x1918);
    let mut seen = std::collections::HashSet::new();
    for (ei, ev) in events.iter().enumerate() {
        if ev.is_crash_point() {
            let mut images = vec![("process-crash".to_string(), shadow.process_image())];
            images.extend(shadow.power_images(&mut rng, if thorough { 6 } else { 1 }, false).into_iter().map(|(n, im)| (format!("power-loss: {n}"), im)));
            for (iname, im) in images {
                if !seen.insert(im.fingerprint()) {
                    continue;
                }
                cov.evaluations += 1;
                cov.count("pinned_first_start_crash_images", 1);
                let d = ScratchDir::new("c19img");
                if im.materialize(d.path()).is_err() {
                    continue;
                }
                let fail = |m: String| {
                    Some(Found {
                        property: "C19".into(),
                        signature: format!("C19:pinned first start crash {}", m.split_whitespace().take(6).collect::<Vec<_>>().join(" ")),
                        msg: format!("the pinned release crashed during its first start-up / first requests (before file-system event #{ei}: {} on {}; image [{iname}]); opened by the current code, {m}", ev.kind(), ev.file().map(|f| f.rsplit('/').next().unwrap_or(f)).unwrap_or("")),
                        replay: json!({"origin": "pinned-init-crash", "case": 900_000 + ei}),
                    })
                };
                let mut subj = match Subject::open_dir(Kind::SQL_LIB, Config::default(), d) {
                    Ok(s) => s,
                    Err(e) => return fail(format!("the directory does not open: {e:#}")),
                };
                // the old client's chain: whatever had been committed is readable, no errors
                let mut p = Uuid::nil();
                for _ in 0..4 {
                    match subj.exec(x, &Req::GetChild { parent: p }) {
                        Resp::Found { vid, .. } => p = vid,
                        Resp::NotFound | Resp::NoSuchClient => break,
                        o => return fail(format!("reading the old client's chain at {p} answers {}", o.short())),
                    }
                }
                if let Resp::Error(e) = subj.exec(x, &Req::GetSnapshot) {
                    return fail(format!("GetSnapshot of the old client fails: {e}"));
                }
                // appending: the old client continues its chain, a new client starts one
                let newc = rng.uuid();
                for (c, parent) in [(x, p), (newc, Uuid::nil())] {
                    match subj.exec(c, &Req::AddVersion { parent, data: b"after the crash".to_vec() }) {
                        Resp::AddOk { vid, .. } => match subj.exec(c, &Req::GetChild { parent }) {
                            Resp::Found { vid: v2, data, .. } if v2 == vid && data == b"after the crash" => {}
                            o => return fail(format!("a version appended after the upgrade cannot be read back: {}", o.short())),
                        },
                        o => return fail(format!("no version can be appended (client {}): {}", if c == x { "of the old directory" } else { "new" }, o.short())),
                    }
                }
                cov.hit("pinned-first-start-crash-image:served".into());
            }
        }
        shadow.apply(ev);
    }
    None
}

/// Directories written by the pinned release, served by the CURRENT EXECUTABLE, which is given the
/// directory the way the old deployment named it: as an absolute path, as a relative path, as a
/// relative path whose first component is literally `~`.
pub fn executable_part(seed: u64, thorough: bool, cov: &mut Cov, errors: &mut Vec<String>) -> Option<Found> {
    use crate::http::{socket_request, Framing};
    use std::time::Duration;
    let Some(bin) = crate::net::server_bin() else {
        errors.push("the server executable is not built".into());
        return None;
    };
    use std::os::unix::ffi::OsStrExt;
    // (the last one is a Latin-1 name on disk: not valid UTF-8, legal on this platform)
    let forms: [(&str, &[u8]); 5] = [("absolute", b""), ("relative", b"state/db"), ("relative-tilde", b"~/tss"), ("relative-dotted", b"./a/../a/data"), ("relative-not-utf8", b"donn\xe9es/db")];
    for (fi, (form, rel)) in forms.iter().enumerate() {
        let rel: &std::ffi::OsStr = std::ffi::OsStr::from_bytes(rel);
        for rep in 0..(if thorough { 6 } else { 1 }) {
            let outer = ScratchDir::new("c19bin");
            let data = if rel.is_empty() { outer.path().join("data") } else { outer.path().join(rel) };
            if std::fs::create_dir_all(&data).is_err() {
                continue;
            }
            let wseed = Rng::new(seed).fork(0x19B0 + (fi * 10 + rep) as u64).next_u64();
            let Ok(exp) = write_pinned(&data, wseed, rep % 2 == 1) else { continue };
            let Some(port) = crate::net::free_port() else { continue };
            let addr = format!("127.0.0.1:{port}");
            let given: std::ffi::OsString = if rel.is_empty() { data.as_os_str().to_os_string() } else { rel.to_os_string() };
            let args: Vec<std::ffi::OsString> = vec!["--listen".into(), addr.clone().into(), "--data-dir".into(), given];
            let mut proc = match crate::net::Proc::start_in(&bin, &args, &[], &[addr.clone()], Duration::from_secs(20), Some(outer.path())) {
                Ok(p) => p,
                Err(e) => {
                    return Some(Found { property: "C19".into(), signature: "C19:executable does not start".into(), msg: format!("the current executable, given a data directory written by the pinned release as a {form} path ({rel:?}), does not start: {e}"), replay: json!({"origin": "c19-executable", "case": 950_000 + fi}) });
                }
            };
            let to = Duration::from_secs(20);
            let fail = |m: String| Some(Found { property: "C19".into(), signature: format!("C19:executable {}", m.split_whitespace().take(6).collect::<Vec<_>>().join(" ")), msg: format!("the current executable, given a data directory written by the pinned release as a {form} path ({rel:?}): {m}"), replay: json!({"origin": "c19-executable", "case": 950_000 + fi}) });
            for c in &exp.clients {
                let mut p = c.versions.first().map(|v| v.parent).unwrap_or(Uuid::nil());
                for (i, v) in c.versions.iter().enumerate() {
                    let req = Req::GetChild { parent: p };
                    let r = Subject::decode_http(&req, &socket_request(&addr, &Subject::build_http(c.id, &req), Framing::ContentLength, to));
                    cov.evaluations += 1;
                    match r {
                        Resp::Found { vid, data, .. } if vid == v.vid && data == v.pay.bytes() => p = vid,
                        o => {
                            proc.kill9();
                            return fail(format!("version #{i} of client {} is not served as written: {}", c.id, o.short()));
                        }
                    }
                }
                if let Some(es) = &c.snapshot {
                    let r = Subject::decode_http(&Req::GetSnapshot, &socket_request(&addr, &Subject::build_http(c.id, &Req::GetSnapshot), Framing::ContentLength, to));
                    if !matches!(&r, Resp::Snap { vid, data } if *vid == es.vid && *data == es.pay.bytes()) {
                        proc.kill9();
                        return fail(format!("the snapshot of client {} is not served as written: {}", c.id, r.short()));
                    }
                }
                let req = Req::AddVersion { parent: p, data: b"appended through the executable".to_vec() };
                let r = Subject::decode_http(&req, &socket_request(&addr, &Subject::build_http(c.id, &req), Framing::ContentLength, to));
                if !matches!(r, Resp::AddOk { .. }) {
                    proc.kill9();
                    return fail(format!("a version cannot be appended to the chain of client {}: {}", c.id, r.short()));
                }
            }
            proc.kill9();
            cov.hit(format!("executable-on-pinned-directory:{form}"));
        }
    }
    None
}

pub fn fixtures_dir() -> PathBuf {
    verif_dir().join("fixtures")
}

pub fn shard_run(tier: &str, seed: u64, replay_case: Option<usize>, shard: Shard) -> ShardOut {
    let thorough = tier == "thorough";
    let mut out = ShardOut::default();
    let mut cov = Cov::default();
    // ---- committed corpus
    let mut corpus: Vec<PathBuf> = std::fs::read_dir(fixtures_dir()).map(|rd| rd.flatten().map(|e| e.path()).filter(|p| p.join("expected.json").is_file()).collect()).unwrap_or_default();
    corpus.sort();
    if corpus.is_empty() {
        out.errors.push("no fixture corpus found".into());
    }
    for (i, f) in corpus.iter().enumerate() {
        match replay_case {
            Some(c) => {
                if c != i {
                    continue;
                }
            }
            None => {
                if !shard.mine(i) {
                    continue;
                }
            }
        }
        let exp = match std::fs::read_to_string(f.join("expected.json")).ok().and_then(|s| serde_json::from_str::<Value>(&s).ok()) {
            Some(v) => Expected::from_json(&v),
            None => {
                out.errors.push(format!("bad expected.json in {}", f.display()));
                continue;
            }
        };
        let name = f.file_name().unwrap().to_string_lossy().to_string();
        out.executed += 1;
        cov.hit(format!("corpus:{name}"));
        if f.join("data/taskchampion-sync-server.sqlite3-wal").is_file() {
            cov.hit("corpus-with-leftover-wal".into());
        }
        if cov.samples.len() < 2 {
            cov.samples.push(json!({"fixture": name, "note": exp.note, "clients": exp.clients.len(), "versions": exp.clients.iter().map(|c| c.versions.len()).collect::<Vec<_>>()}));
        }
        if let Err(m) = verify_dir(&f.join("data"), &exp, &mut cov, &format!("fixture {name}")) {
            out.found.push(Found { property: "C19".into(), signature: format!("C19:{}", m.split("] ").nth(1).unwrap_or("").split_whitespace().take(6).collect::<Vec<_>>().join(" ")), msg: m, replay: json!({"origin": "corpus", "case": i, "fixture": name}) });
            out.cov = cov;
            return out;
        }
    }
    // ---- left behind by a crash of the pinned release during its first start
    if replay_case.map(|c| c >= 900_000 && c < 950_000).unwrap_or(shard.k == 3 % shard.n) {
        if let Some(f) = pinned_init_crashes(seed, thorough, &mut cov) {
            out.found.push(f);
            out.cov = cov;
            return out;
        }
    }
    // ---- directories in which the pinned release's client re-creation race happened
    if replay_case.map(|c| c >= 800_000 && c < 900_000).unwrap_or(shard.k == 5 % shard.n) {
        if let Some(f) = legacy_fork_part("C19", seed, thorough, &mut cov) {
            if f.signature == "harness-error" {
                out.errors.push(f.msg);
            } else {
                out.found.push(f);
                out.cov = cov;
                return out;
            }
        }
    }
    // ---- served by the current executable under several spellings of the directory
    if replay_case.map(|c| c >= 950_000).unwrap_or(shard.k == 4 % shard.n) {
        if let Some(f) = executable_part(seed, thorough, &mut cov, &mut out.errors) {
            out.found.push(f);
            out.cov = cov;
            return out;
        }
    }
    // ---- freshly written by the vendored pinned crates
    let n = if thorough { 4000 } else { 480 };
    for i in 0..n {
        let case = 1000 + i;
        match replay_case {
            Some(c) => {
                if c != case {
                    continue;
                }
            }
            None => {
                if !shard.mine(i) {
                    continue;
                }
            }
        }
        let d = ScratchDir::new("c19w");
        let s = Rng::new(seed).fork(0x19_0000 + i as u64).next_u64();
        // a few directories hold payloads of 17-40 MiB (thorough: up to the 100 MiB limit)
        let huge = if i % 120 == 7 { *Rng::new(s).pick(&[17usize << 20, (16 << 20) + 4096, 33 << 20, 40 << 20]) } else if thorough && i % 1000 == 501 { (100 << 20) - 1024 } else { 0 };
        if huge > 0 {
            cov.hit(format!("fresh-pinned-directory-with-{}MiB-payloads", huge >> 20));
        }
        let exp = match write_pinned_sized(d.path(), s, i % 8 == 0, huge) {
            Ok(e) => e,
            Err(e) => {
                out.errors.push(format!("pinned writer failed: {e:#}"));
                continue;
            }
        };
        out.executed += 1;
        cov.hit("fresh-pinned-directory".into());
        if let Err(m) = verify_dir(d.path(), &exp, &mut cov, &format!("fresh directory #{i} written by the pinned code")) {
            out.found.push(Found { property: "C19".into(), signature: format!("C19:{}", m.split("] ").nth(1).unwrap_or("").split_whitespace().take(6).collect::<Vec<_>>().join(" ")), msg: m, replay: json!({"origin": "fresh", "case": case, "writer_seed": s.to_string()}) });
            out.cov = cov;
            return out;
        }
    }
    out.cov = cov;
    out
}

pub fn finalize(out: ShardOut, is_replay: bool) -> CheckResult {
    let cov = out.cov;
    let mut top: Vec<(&String, &u64)> = cov.situations.iter().collect();
    top.sort_by(|a, b| b.1.cmp(a.1));
    let coverage = json!({
        "evaluations": cov.evaluations,
        "distinct_nontrivial": cov.situations.len(),
        "rule": "(a) committed corpus /verif/fixtures/*: data directories produced once by the pinned tree a6bc6ed (pinned executable over HTTP, pinned library, kill -9 mid-workload leaving a live WAL, copy taken while a second connection kept the WAL un-checkpointed, payloads up to 1 MB) each with expected.json; (b) directories freshly written on every run by a verbatim vendored copy of the pinned core+sqlite crates linked into the harness. Each directory is copied to scratch and opened by the current code: every client, version (ids, parent, payload bytes regenerated from its spec), latest pointer, snapshot (id, whole-second time, versions-since, bytes) must be served as written; then 5 versions and a snapshot are appended to every chain and the old history re-read. evaluations = versions verified; distinct_nontrivial = distinct fixtures / client shapes. Directories left behind by a crash of the pinned release during its first start-up and first requests: every file-system event of that run is a crash point whose process-crash and power-loss images are opened by the current code, which must start, read the old chain without errors and accept appended versions. A third of all directories are opened through a symbolic link, a third by a web server with an allow-list naming the stored clients.",
        "samples": cov.samples,
        "directories": out.executed,
        "situations": top.iter().take(40).map(|(k, v)| json!({"situation": k, "n": v})).collect::<Vec<_>>(),
    });
    let required = ["corpus:", "corpus-with-leftover-wal", "fresh-pinned-directory", "snapshot-verified", "id-base", "nil-base", "chain-starts-inside-another-clients-chain", "MiB-payloads", "pinned-first-start-crash-image:served", "executable-on-pinned-directory:relative-tilde"];
    let verdict = if !out.found.is_empty() {
        Verdict::Violated(out.found)
    } else if !out.errors.is_empty() {
        Verdict::Inconclusive(out.errors.join("; "))
    } else if !is_replay {
        match crate::evidence::require(&cov.situations, &required) {
            Some(r) => Verdict::Inconclusive(r),
            None => Verdict::Held,
        }
    } else {
        Verdict::Held
    };
    CheckResult { verdict, coverage, assumptions: vec!["'the pinned release' is represented by the pinned sources compiled with today's toolchain and by the committed corpus; other historical releases are out of scope".into()], level: "exploration", notes: vec![] }
}

// ------------------------------------------------------------------------------------------
// corpus generation (run once, with the PINNED executable given by PINNED_BIN)

pub fn gen_fixtures(out_dir: &Path) -> anyhow::Result<()> {
    use crate::http::{socket_request, Framing};
    use crate::net::{free_port, Proc};
    use std::time::Duration;
    std::fs::create_dir_all(out_dir)?;
    let save = |name: &str, src: &Path, exp: &Expected| -> anyhow::Result<()> {
        let d = out_dir.join(name);
        let _ = std::fs::remove_dir_all(&d);
        copy_dir(src, &d.join("data"))?;
        // the -shm file is a transient cache; keep it only where the scenario is about leftovers
        std::fs::write(d.join("expected.json"), serde_json::to_string_pretty(&exp.to_json())?)?;
        Ok(())
    };
    // 1..8: written by the pinned library
    for i in 0..8u64 {
        let d = ScratchDir::new("fx");
        let mut exp = write_pinned(d.path(), 7000 + i, i % 3 == 0)?;
        exp.note = format!("written by the pinned library code (a6bc6ed), generator seed {}", 7000 + i);
        save(&format!("lib-{i:02}"), d.path(), &exp)?;
    }
    // 9: copied while a second connection keeps the WAL un-checkpointed
    {
        let d = ScratchDir::new("fx");
        let st = PSqlite::new(d.path())?;
        drop(st);
        let keep = rusqlite::Connection::open(d.path().join("taskchampion-sync-server.sqlite3"))?;
        let _: i64 = keep.query_row("SELECT count(*) FROM clients", [], |r| r.get(0))?;
        let mut exp = write_pinned(d.path(), 7100, true)?;
        exp.note = "written by the pinned library code while a second connection kept the write-ahead log un-checkpointed; files copied with the WAL (and -shm) in place".into();
        save("lib-live-wal", d.path(), &exp)?;
        drop(keep);
    }
    // 10..: the pinned executable over HTTP; two of them killed with kill -9 mid-workload
    if let Ok(bin) = std::env::var("PINNED_BIN") {
        for (name, kill) in [("http-clean", false), ("http-kill9-a", true), ("http-kill9-b", true)] {
            let d = ScratchDir::new("fx");
            let port = free_port().ok_or_else(|| anyhow::anyhow!("no port"))?;
            let addr = format!("127.0.0.1:{port}");
            let mut proc = Proc::start(Path::new(&bin), &["--listen".into(), addr.clone(), "--data-dir".into(), d.path().to_string_lossy().to_string()], &[], &[addr.clone()], Duration::from_secs(20)).map_err(|e| anyhow::anyhow!(e))?;
            let mut rng = Rng::new(if name.ends_with('b') { 7301 } else { 7300 });
            let mut exp = Expected { clients: vec![], note: format!("written over HTTP by the pinned executable (a6bc6ed){}", if kill { ", killed with kill -9 while a request was in flight; -wal/-shm left as found" } else { ", stopped between requests" }) };
            let ids = [rng.uuid(), rng.uuid()];
            for id in ids {
                exp.clients.push(ExpClient { id, ..Default::default() });
            }
            let total = 14 + rng.usize(6);
            let kill_at = total - 1;
            for k in 0..total {
                let c = rng.usize(2);
                let parent = exp.clients[c].versions.last().map(|v| v.vid).unwrap_or(Uuid::nil());
                let pay = PaySpec::new(*rng.pick(&[5usize, 300, 4000, 4200, 60_000]), rng.below(10) as u8, 9000 + k as u64);
                let req = Req::AddVersion { parent, data: pay.bytes() };
                if kill && k == kill_at {
                    // fire the request and kill the server while it is in flight
                    let a2 = addr.clone();
                    let h = Subject::build_http(exp.clients[c].id, &Req::AddVersion { parent, data: PaySpec::new(900_000, 0, 1).bytes() });
                    let t = std::thread::spawn(move || {
                        let _ = socket_request(&a2, &h, Framing::ContentLength, Duration::from_secs(5));
                    });
                    std::thread::sleep(Duration::from_millis(if name.ends_with('b') { 4 } else { 1 }));
                    proc.kill9();
                    let _ = t.join();
                    exp.clients[c].maybe_more = true;
                    break;
                }
                let h = Subject::build_http(exp.clients[c].id, &req);
                let r = socket_request(&addr, &h, Framing::ContentLength, Duration::from_secs(20));
                match Subject::decode_http(&req, &r) {
                    Resp::AddOk { vid, .. } => {
                        exp.clients[c].versions.push(ExpVersion { vid, parent, pay });
                        if let Some(s) = &mut exp.clients[c].snapshot {
                            s.since += 1;
                        }
                    }
                    o => anyhow::bail!("fixture write failed: {}", o.short()),
                }
                if k == 5 || k == 9 {
                    let sp = PaySpec::new(500, 9, 9900 + k as u64);
                    let v = exp.clients[c].versions.last().unwrap().vid;
                    let req = Req::AddSnapshot { vid: v, data: sp.bytes() };
                    let r = socket_request(&addr, &Subject::build_http(exp.clients[c].id, &req), Framing::ContentLength, Duration::from_secs(20));
                    if r.status != 200 {
                        anyhow::bail!("snapshot write failed");
                    }
                    exp.clients[c].snapshot = Some(ExpSnap { vid: v, ts: 0, since: 0, pay: sp });
                }
            }
            proc.kill9();
            drop(proc);
            // read the stored snapshot times with the pinned code from a copy
            let copy = ScratchDir::new("fxc");
            copy_dir(d.path(), copy.path())?;
            {
                let st = PSqlite::new(copy.path())?;
                for c in exp.clients.iter_mut() {
                    let mut t = st.txn(c.id)?;
                    if let (Some(cl), Some(s)) = (t.get_client()?, c.snapshot.as_mut()) {
                        if let Some(cs) = cl.snapshot {
                            s.ts = cs.timestamp.timestamp();
                        }
                    }
                }
            }
            exp.clients.retain(|c| !c.versions.is_empty() || c.maybe_more);
            save(name, d.path(), &exp)?;
        }
    } else {
        eprintln!("PINNED_BIN not set: HTTP fixtures skipped");
    }
    Ok(())
}
