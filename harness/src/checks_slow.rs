//! Slow storage (thorough tier): one storage call of a request takes longer than the customary
//! deadlines (30 s, 60 s). A slow backend is not a failed one: whatever the server answers must
//! agree with what is stored once the call has returned. Either the request gets its ordinary
//! outcome and its ordinary effect, or it is answered with an error and has no effect at all -
//! also not a late one (the state is read again after the slow call has surely finished).
//! C02 / C18 use the outcome-and-state oracle; C20 asks for the caching directive on whatever
//! response arrives; C14 asks that a non-error answer is the ordinary one.

use crate::dump::dump_storage;
use crate::evidence::{Cov, Found};
use crate::ops::{Req, Resp};
use crate::prng::Rng;
use crate::subject::{Config, Kind, Subject};
use crate::wrap::{Call, Event, Hook, Hooked};
use serde_json::json;
use std::sync::atomic::{AtomicBool, AtomicU64, Ordering};
use std::sync::Arc;
use std::time::{Duration, Instant};
use taskchampion_sync_server_core::Storage;
use uuid::Uuid;

struct SlowHook {
    armed: AtomicBool,
    call: Call,
    millis: u64,
    fired: AtomicU64,
    done: AtomicBool,
}

impl Hook for SlowHook {
    fn before(&self, ev: &Event) -> Option<anyhow::Error> {
        if ev.call == self.call && self.armed.swap(false, Ordering::SeqCst) {
            self.fired.fetch_add(1, Ordering::SeqCst);
            std::thread::sleep(Duration::from_millis(self.millis));
            self.done.store(true, Ordering::SeqCst);
        }
        None
    }
}

#[derive(Clone, Copy, Debug)]
enum Probe {
    AddLatest,
    AddStale,
    AddFirst,
    SnapLatest,
    GetChildNil,
    GetSnap,
}

struct CaseOut {
    label: String,
    err: Option<String>,
    inconclusive: Option<String>,
    evaluations: u64,
}

fn one_case(property: &str, kind: Kind, probe: Probe, call: Call, millis: u64, seed: u64) -> CaseOut {
    let label = format!("{}|{probe:?}|slow={call:?}|{}s", kind.name(), millis / 1000);
    let mut out = CaseOut { label: label.clone(), err: None, inconclusive: None, evaluations: 0 };
    let hook = Arc::new(SlowHook { armed: AtomicBool::new(false), call, millis, fired: AtomicU64::new(0), done: AtomicBool::new(false) });
    let h2 = hook.clone();
    let wrap: crate::subject::StorageWrap = Arc::new(move |st: Arc<dyn Storage>| Arc::new(Hooked::new(st, h2.clone())) as Arc<dyn Storage>);
    let mut subj = match Subject::with(kind, Config { snapshot_days: 14, snapshot_versions: 100 }, None, Some(wrap)) {
        Ok(s) => s,
        Err(e) => {
            out.inconclusive = Some(format!("subject: {e:#}"));
            return out;
        }
    };
    let mut rng = Rng::new(seed).fork(0x510);
    let c = rng.uuid();
    let stranger = rng.uuid();
    let mut chain = vec![];
    let mut p = Uuid::nil();
    for i in 0..3u8 {
        match subj.exec(c, &Req::AddVersion { parent: p, data: vec![i + 1; 40] }) {
            Resp::AddOk { vid, .. } => {
                chain.push(vid);
                p = vid;
            }
            o => {
                out.inconclusive = Some(format!("setup: {}", o.short()));
                return out;
            }
        }
    }
    let _ = subj.exec(c, &Req::AddSnapshot { vid: chain[1], data: b"first snapshot".to_vec() });
    let (client, req) = match probe {
        Probe::AddLatest => (c, Req::AddVersion { parent: chain[2], data: b"next version".to_vec() }),
        Probe::AddStale => (c, Req::AddVersion { parent: chain[0], data: b"stale".to_vec() }),
        Probe::AddFirst => (stranger, Req::AddVersion { parent: Uuid::nil(), data: b"first of a new client".to_vec() }),
        Probe::SnapLatest => (c, Req::AddSnapshot { vid: chain[2], data: b"second snapshot".to_vec() }),
        Probe::GetChildNil => (c, Req::GetChild { parent: Uuid::nil() }),
        Probe::GetSnap => (c, Req::GetSnapshot),
    };
    let known = [c, stranger];
    let before = dump_storage(subj.storage.as_ref(), &known, &chain);
    hook.armed.store(true, Ordering::SeqCst);
    let t0 = Instant::now();
    let resp = subj.exec(client, &req);
    let answered_after = t0.elapsed();
    let http = subj.last_http.as_ref().map(|(_, r)| r.clone());
    if hook.fired.load(Ordering::SeqCst) == 0 {
        out.inconclusive = Some(format!("{label}: the request made no {call:?} call"));
        return out;
    }
    // the slow call has returned (or will, shortly): wait for it, and a little longer for whatever
    // follows it
    let wait_until = Instant::now() + Duration::from_millis(millis + 5_000);
    while !hook.done.load(Ordering::SeqCst) && Instant::now() < wait_until {
        std::thread::sleep(Duration::from_millis(50));
    }
    std::thread::sleep(Duration::from_millis(1_500));
    let after = dump_storage(subj.storage.as_ref(), &known, &chain);
    out.evaluations = 1;
    let fail = |m: String| Some(format!("[{label}] {} with one storage call ({call:?}) taking {} s was answered after {:.1} s with {}: {m}", req.name(), millis / 1000, answered_after.as_secs_f64(), http.as_ref().map(|r| r.describe()).unwrap_or_else(|| resp.short())));
    if property == "C20" {
        if let Some(r) = &http {
            if r.failure.is_none() {
                let cc = r.header("cache-control").unwrap_or("");
                if !cc.to_ascii_lowercase().contains("no-store") {
                    out.err = fail("the response does not forbid caching".into());
                }
            }
        }
        return out;
    }
    let unchanged = before == after;
    match (&resp, probe) {
        (Resp::Error(_), _) => {
            if !unchanged {
                out.err = fail(format!("an error answer, but the stored state changed: {}", before.diff(&after)));
            }
        }
        (Resp::AddOk { vid, .. }, Probe::AddLatest) | (Resp::AddOk { vid, .. }, Probe::AddFirst) => {
            let parent = if matches!(probe, Probe::AddLatest) { chain[2] } else { Uuid::nil() };
            match subj.exec(client, &Req::GetChild { parent }) {
                Resp::Found { vid: v2, .. } if v2 == *vid => {}
                o => out.err = fail(format!("acknowledged, but the child of its parent is then served as {}", o.short())),
            }
        }
        (Resp::AddConflict { expected }, Probe::AddStale) => {
            if *expected != chain[2] {
                out.err = fail(format!("the rejection names {expected}, the latest version is {}", chain[2]));
            } else if !unchanged {
                out.err = fail(format!("a rejection, but the stored state changed: {}", before.diff(&after)));
            }
        }
        (Resp::SnapOk, Probe::SnapLatest) => match subj.exec(client, &Req::GetSnapshot) {
            Resp::Snap { vid, data } if vid == chain[2] && data == b"second snapshot" => {}
            o => out.err = fail(format!("acknowledged, but the snapshot is then served as {}", o.short())),
        },
        (Resp::Found { vid, data, .. }, Probe::GetChildNil) => {
            if *vid != chain[0] || *data != vec![1u8; 40] {
                out.err = fail("not the stored first version".into());
            } else if !unchanged {
                out.err = fail(format!("a read, but the stored state changed: {}", before.diff(&after)));
            }
        }
        (Resp::Snap { vid, data }, Probe::GetSnap) => {
            if *vid != chain[1] || data != b"first snapshot" {
                out.err = fail("not the stored snapshot".into());
            } else if !unchanged {
                out.err = fail(format!("a read, but the stored state changed: {}", before.diff(&after)));
            }
        }
        (o, _) => out.err = fail(format!("neither the ordinary outcome of this request nor an error ({})", o.outcome())),
    }
    out
}

/// All cases run at the same time, each on its own server in its own thread; the wall-clock cost
/// is one slow call.
pub fn slow_storage_part(property: &str, seed: u64, cov: &mut Cov, errors: &mut Vec<String>) -> Option<Found> {
    let cases: Vec<(Probe, Call)> = vec![
        (Probe::AddLatest, Call::Commit),
        (Probe::AddLatest, Call::AddVersion),
        (Probe::AddLatest, Call::GetClient),
        (Probe::AddStale, Call::GetClient),
        (Probe::AddFirst, Call::NewClient),
        (Probe::AddFirst, Call::Commit),
        (Probe::SnapLatest, Call::SetSnapshot),
        (Probe::SnapLatest, Call::Commit),
        (Probe::GetChildNil, Call::GetVersionByParent),
        (Probe::GetSnap, Call::GetSnapshotData),
    ];
    let mut handles = vec![];
    for kind in [Kind::MEM_HTTP, Kind::SQL_HTTP] {
        for (i, (probe, call)) in cases.iter().enumerate() {
            // the customary deadlines: half a minute everywhere, a minute for the writes in memory
            let mut waits = vec![33_000u64];
            if kind == Kind::MEM_HTTP && i < 2 {
                waits.push(64_000);
            }
            for millis in waits {
                let (property, probe, call) = (property.to_string(), *probe, *call);
                handles.push(std::thread::spawn(move || one_case(&property, kind, probe, call, millis, seed.wrapping_add(i as u64))));
            }
        }
    }
    let mut found = None;
    for (i, h) in handles.into_iter().enumerate() {
        match h.join() {
            Ok(o) => {
                cov.evaluations += o.evaluations;
                if let Some(e) = o.inconclusive {
                    errors.push(format!("slow storage: {e}"));
                } else {
                    cov.hit(format!("slow-storage|{}", o.label));
                }
                if let (Some(m), None) = (o.err, &found) {
                    found = Some(Found { property: property.into(), signature: format!("{property}:slow-storage {}", o.label), msg: m, replay: json!({"origin": "slow-storage", "case": i}) });
                }
            }
            Err(_) => errors.push("slow storage: a case panicked".into()),
        }
    }
    found
}

/// A server (re)started while another program holds the database exclusively for longer than the
/// lock-wait budget (a backup tool in exclusive locking mode, an operator's shell with an open
/// write transaction). The start may fail or wait; once the other program is gone, a start succeeds
/// and every accepted version and the snapshot are served as before (C07: restarts included).
pub fn locked_open_part(property: &str, cov: &mut Cov) -> Option<Found> {
    use taskchampion_sync_server_storage_sqlite::SqliteStorage;
    for mode in ["exclusive-locking-mode", "open-write-transaction"] {
        let fail = |m: String| Some(Found { property: property.into(), signature: format!("{property}:locked-open {mode}"), msg: format!("[a storage opened while another program holds the database ({mode}) for 6 s] {m}"), replay: json!({"origin": "locked-open", "case": 0}) });
        let mut subj = Subject::new(Kind::SQL_LIB, Config::default()).ok()?;
        let c = Uuid::new_v4();
        let mut chain = vec![];
        let mut p = Uuid::nil();
        for i in 0..3u8 {
            if let Resp::AddOk { vid, .. } = subj.exec(c, &Req::AddVersion { parent: p, data: vec![i + 7; 50] }) {
                chain.push((vid, p));
                p = vid;
            }
        }
        if chain.len() < 3 {
            return None;
        }
        let _ = subj.exec(c, &Req::AddSnapshot { vid: chain[1].0, data: b"a snapshot".to_vec() });
        let reads = |s: &mut Subject| -> Vec<Resp> {
            let mut v: Vec<Resp> = chain.iter().map(|(_, par)| s.exec(c, &Req::GetChild { parent: *par })).collect();
            v.push(s.exec(c, &Req::GetSnapshot));
            v
        };
        let before = reads(&mut subj);
        let dir = subj.dir.as_ref()?.path().to_path_buf();
        let db = crate::subject::db_file(&dir);
        // (the storage opens a connection per transaction: none is open now)
        let other = rusqlite::Connection::open(&db).ok()?;
        let locked = if mode == "exclusive-locking-mode" {
            other.execute_batch("PRAGMA locking_mode=EXCLUSIVE; BEGIN EXCLUSIVE;").is_ok()
        } else {
            other.execute_batch("BEGIN IMMEDIATE; CREATE TABLE IF NOT EXISTS operators_scratch (x);").is_ok()
        };
        if !locked {
            continue;
        }
        let t0 = Instant::now();
        let dir2 = dir.clone();
        let opener = std::thread::spawn(move || SqliteStorage::new(&dir2).map(|_| ()).map_err(|e| format!("{e:#}")));
        std::thread::sleep(Duration::from_millis(6_000));
        let _ = other.execute_batch("ROLLBACK;");
        drop(other);
        let opened = opener.join().ok()?;
        cov.evaluations += 1;
        cov.hit(format!("locked-open|{mode}|open-{}", if opened.is_ok() { "succeeded" } else { "failed" }));
        let waited = t0.elapsed().as_secs_f64();
        if let Err(e) = subj.reopen() {
            return fail(format!("the first start {} after {waited:.1} s; once the other program was gone the storage could not be opened any more: {e:#}", if opened.is_ok() { "succeeded" } else { "failed" }));
        }
        let after = reads(&mut subj);
        if after != before {
            let i = (0..before.len()).find(|i| after[*i] != before[*i]).unwrap_or(0);
            return fail(format!("the first start {} after {waited:.1} s; once the other program was gone, read #{i} ({}) is answered {} (before: {})", if opened.is_ok() { "succeeded" } else { "failed" }, if i < 3 { "a version of the chain" } else { "the snapshot" }, after[i].short(), before[i].short()));
        }
    }
    None
}
