//! State-aware, adversarially biased generator of symbolic histories.

use crate::ops::{IdRef, Op, OpKind, PaySpec};
use crate::prng::Rng;

#[derive(Clone, Debug)]
pub struct GenProfile {
    pub min_clients: usize,
    pub max_clients: usize,
    pub min_ops: usize,
    pub max_ops: usize,
    /// weights: AddVersion, GetChild, AddSnapshot, GetSnapshot, Probe
    pub w_kind: [u32; 5],
    /// percent of AddVersions that quote the latest version (valid adds)
    pub valid_add_pct: u32,
    /// percent chance that a client's first version has a non-nil parent
    pub nonnil_base_pct: u32,
    /// align clients (all bases nil, same payload lengths) so that a missing client filter hits
    pub aligned: bool,
    pub big_payload_pct: u32,
    /// bursts of consecutive AddSnapshots
    pub snapshot_bursts: bool,
    /// percent chance that a client's chain starts from another client's version (and that
    /// snapshot / child-version arguments point into the other client's chain)
    pub entangle_pct: u32,
    /// chance per 10000 operations of a 1.1 s pause
    pub pause_per_10k: u32,
    /// chance per 1000 operations that a client's stored snapshot ages / is post-dated by days
    pub shift_per_1k: u32,
}

impl Default for GenProfile {
    fn default() -> Self {
        GenProfile {
            min_clients: 2,
            max_clients: 4,
            min_ops: 20,
            max_ops: 120,
            w_kind: [45, 20, 18, 7, 10],
            valid_add_pct: 60,
            nonnil_base_pct: 35,
            aligned: false,
            big_payload_pct: 4,
            snapshot_bursts: true,
            entangle_pct: 0,
            pause_per_10k: 0,
            shift_per_1k: 10,
        }
    }
}

#[derive(Clone, Debug)]
pub struct History {
    pub seed: u64,
    pub n_clients: usize,
    pub ops: Vec<Op>,
}

/// What the generator believes about a client (assuming correct behaviour); used only to bias
/// choices — resolution always happens against what each subject actually answered.
#[derive(Clone, Default)]
struct Belief {
    len: usize,
    base_nonnil: bool,
    has_snap: bool,
}

pub fn payload(rng: &mut Rng, uniq: u64, big_pct: u32, aligned: bool) -> PaySpec {
    let len = if aligned {
        24
    } else if rng.pct(big_pct) {
        *rng.pick(&[3900usize, 4096, 4200, 9000, 70_000, 300_000])
    } else {
        match rng.below(10) {
            0 => 1,
            1 => 2 + rng.usize(6),
            _ => 8 + rng.usize(200),
        }
    };
    let class = if aligned {
        1
    } else if rng.pct(70) {
        9
    } else {
        rng.below(crate::ops::PAY_CLASSES as u64) as u8
    };
    PaySpec::new(len, class, uniq)
}

pub fn generate(seed: u64, prof: &GenProfile) -> History {
    let mut rng = Rng::new(seed);
    let n_clients = prof.min_clients + rng.usize(prof.max_clients - prof.min_clients + 1);
    let n_ops = prof.min_ops + rng.usize(prof.max_ops - prof.min_ops + 1);
    let mut bel: Vec<Belief> = vec![Belief::default(); n_clients];
    let mut last_snap_pay: Vec<Option<PaySpec>> = vec![None; n_clients];
    let mut ops = Vec::with_capacity(n_ops);
    let mut fresh_n = 0usize;
    let mut uniq = seed.wrapping_mul(1000003);
    let mut burst_left = 0usize;
    let mut burst_client = 0usize;
    while ops.len() < n_ops {
        uniq = uniq.wrapping_add(1);
        let c = if burst_left > 0 { burst_client } else { rng.usize(n_clients) };
        let other = |rng: &mut Rng| -> usize {
            if n_clients == 1 {
                0
            } else {
                let mut o = rng.usize(n_clients - 1);
                if o >= c {
                    o += 1;
                }
                o
            }
        };
        let mut fresh = |rng: &mut Rng| -> IdRef {
            if fresh_n > 0 && rng.pct(30) {
                IdRef::Fresh(rng.usize(fresh_n)) // stale fresh: an id used before
            } else {
                fresh_n += 1;
                IdRef::Fresh(fresh_n - 1)
            }
        };
        if prof.shift_per_1k > 0 && rng.below(1000) < prof.shift_per_1k as u64 {
            ops.push(Op { client: c, kind: OpKind::ShiftSnapshotTime { days_older: *rng.pick(&[1i64, 13, 14, 15, 21, 22, 100, 400, 5000, 20_300, -1, -2, -30]) } });
            continue;
        }
        if prof.pause_per_10k > 0 && rng.below(10_000) < prof.pause_per_10k as u64 {
            ops.push(Op { client: c, kind: OpKind::Pause });
            continue;
        }
        let k = if burst_left > 0 {
            burst_left -= 1;
            2
        } else {
            rng.weighted(&prof.w_kind)
        };
        let b = bel[c].clone();
        let kind = match k {
            0 | 4 => {
                // AddVersion / Probe
                let parent = if b.len == 0 && n_clients > 1 && rng.pct(prof.entangle_pct) {
                    let o = other(&mut rng);
                    match rng.below(4) {
                        0 => IdRef::SnapVid(o),
                        1 => IdRef::Latest(o),
                        _ => IdRef::Back(o, 1 + rng.usize(3)),
                    }
                } else if b.len == 0 {
                    if prof.aligned || !rng.pct(prof.nonnil_base_pct) {
                        IdRef::Nil
                    } else if rng.pct(70) {
                        fresh(&mut rng)
                    } else {
                        let o = other(&mut rng);
                        IdRef::Nth(o, rng.usize(4))
                    }
                } else if rng.pct(prof.valid_add_pct) {
                    IdRef::Latest(c)
                } else if k == 0 && rng.pct(12) {
                    let kind = if rng.pct(50) {
                        OpKind::Resend { k: rng.usize(b.len) }
                    } else {
                        // mostly the latest version's bytes with an older parent
                        let k = if rng.pct(70) { b.len - 1 } else { rng.usize(b.len) };
                        OpKind::ResendStale { k, j: rng.usize(b.len) }
                    };
                    ops.push(Op { client: c, kind });
                    continue;
                } else {
                    match rng.weighted(&[10, 25, 10, 15, 25, 10, 5]) {
                        0 => IdRef::Nil,
                        1 => IdRef::Back(c, 2 + rng.usize(b.len.max(2))),
                        2 => IdRef::Base(c),
                        3 => fresh(&mut rng),
                        4 => {
                            let o = other(&mut rng);
                            if rng.pct(50) {
                                IdRef::Latest(o)
                            } else {
                                IdRef::Nth(o, rng.usize(6))
                            }
                        }
                        5 => IdRef::SnapVid(c),
                        _ => IdRef::Nth(c, rng.usize(b.len)),
                    }
                };
                let pay = payload(&mut rng, uniq, prof.big_payload_pct, prof.aligned);
                let valid = b.len == 0 || parent == IdRef::Latest(c);
                if valid {
                    if b.len == 0 {
                        bel[c].base_nonnil = parent != IdRef::Nil;
                    }
                    bel[c].len += 1;
                }
                if k == 4 {
                    OpKind::Probe { parent, pay }
                } else {
                    OpKind::AddVersion { parent, pay }
                }
            }
            1 => {
                let parent = if rng.pct(prof.entangle_pct / 3) {
                    IdRef::BeforeBase(c, 1 + rng.usize(3))
                } else { match rng.weighted(&[20, 35, 10, 10, 10, 15]) {
                    0 => IdRef::Latest(c),
                    1 => IdRef::Nth(c, rng.usize(b.len.max(1))),
                    2 => IdRef::Base(c),
                    3 => IdRef::Nil,
                    4 => fresh(&mut rng),
                    _ => {
                        let o = other(&mut rng);
                        if rng.pct(50) {
                            IdRef::Latest(o)
                        } else {
                            IdRef::Nth(o, rng.usize(6))
                        }
                    }
                } };
                OpKind::GetChild { parent }
            }
            2 => {
                let vid = if n_clients > 1 && rng.pct(prof.entangle_pct / 2) {
                    let o = other(&mut rng);
                    match rng.below(6) {
                        0 => IdRef::Base(c),
                        1 => IdRef::SnapVid(o),
                        2 | 3 => IdRef::BeforeBase(c, 1 + rng.usize(3)),
                        _ => IdRef::Back(o, 1 + rng.usize(5)),
                    }
                } else {
                  match rng.weighted(&[68, 5, 8, 6, 8, 5]) {
                    0 => {
                        // positions counted back from the latest; emphasise the window boundary
                        let kk = match rng.weighted(&[20, 12, 12, 14, 16, 16, 6, 4]) {
                            i => i + 1,
                        };
                        IdRef::Back(c, kk)
                    }
                    1 => IdRef::Nil,
                    2 => IdRef::Base(c),
                    3 => fresh(&mut rng),
                    4 => {
                        let o = other(&mut rng);
                        if rng.pct(50) {
                            IdRef::SnapVid(o)
                        } else {
                            IdRef::Back(o, 1 + rng.usize(5))
                        }
                    }
                    _ => IdRef::SnapVid(c),
                  }
                };
                if prof.snapshot_bursts && burst_left == 0 && rng.pct(25) {
                    burst_left = 1 + rng.usize(5);
                    burst_client = c;
                }
                bel[c].has_snap = bel[c].has_snap || b.len > 0;
                // snapshot payloads are always tagged so that every upload has distinct bytes
                // (a few snapshots are larger than 1 MiB and not a whole number of MiB / KiB)
                let len = if prof.aligned { 24 } else if rng.pct(3) { *rng.pick(&[300_000usize, 300_000, 1_048_576 + 123, 2_621_563, 65_537]) } else { 16 + rng.usize(120) };
                // after a snapshot upload that names another client's version, that client often
                // uploads a snapshot for the very same version
                if let IdRef::Back(o, kk) = vid {
                    if o != c && rng.pct(50) {
                        ops.push(Op { client: c, kind: OpKind::AddSnapshot { vid, pay: PaySpec::new(len, 9, uniq) } });
                        uniq = uniq.wrapping_add(1);
                        ops.push(Op { client: o, kind: OpKind::AddSnapshot { vid: IdRef::Back(o, kk), pay: PaySpec::new(len, 9, uniq) } });
                        continue;
                    }
                }
                // now and then a replica sends the very bytes of its previous snapshot upload again,
                // for whatever version it is at by then
                let pay = match last_snap_pay[c] {
                    Some(p) if !prof.aligned && rng.pct(7) => p,
                    _ => PaySpec::new(len, 9, uniq),
                };
                last_snap_pay[c] = Some(pay);
                OpKind::AddSnapshot { vid, pay }
            }
            _ => OpKind::GetSnapshot,
        };
        ops.push(Op { client: c, kind });
    }
    History { seed, n_clients, ops }
}
