//! C12, urgency part (E1u): planted snapshot ages / versions-since counters for generated
//! configurations, one real AddVersion each, compared with the exact-arithmetic specification.

use crate::e1::spec_urgency;
use crate::evidence::{Cov, Found, Shard, ShardOut};
use crate::ops::{Req, Resp, Urg};
use crate::prng::Rng;
use crate::subject::{Config, Kind, Subject};
use serde_json::json;
use taskchampion_sync_server_core::Snapshot;
use uuid::Uuid;

const MAX_AGE_DAYS: i64 = 50_000_000;

fn version_targets() -> Vec<u32> {
    let third = (1u64 << 32) / 3; // 1431655765
    vec![0, 1, 2, 3, 5, 7, 100, 101, (1u32 << 31) - 1, 1u32 << 31, third as u32, third as u32 + 1, third as u32 + 2, 2_000_000_000, u32::MAX - 1, u32::MAX]
}

fn day_targets() -> Vec<i64> {
    let third = i64::MAX / 3;
    vec![0, 1, 2, 3, 14, 15, 1 << 62, third - 1, third, third + 1, third + 2, i64::MAX - 1, i64::MAX]
}

fn points_u32(t: u32) -> Vec<u32> {
    let t = t as u64;
    let h = t * 3 / 2;
    let mut v: Vec<u64> = vec![0, t.saturating_sub(1), t, t + 1, h.saturating_sub(1), h, h + 1, 2 * t, 254, 255, 256, 65_534, 65_535, 65_536, 900_000_000, (u32::MAX - 1) as u64];
    v.retain(|x| *x <= (u32::MAX - 1) as u64);
    v.sort();
    v.dedup();
    v.into_iter().map(|x| x as u32).collect()
}

fn points_days(t: i64) -> Vec<i64> {
    let t = t as i128;
    let h = t * 3 / 2;
    // a snapshot stamped ahead of the server's clock (clock stepped back) has a negative age
    let mut v: Vec<i128> = vec![-400, -2, -1, 0, t - 1, t, t + 1, h - 1, h, h + 1, 2 * t, MAX_AGE_DAYS as i128];
    // snapshots stamped at remarkable instants of the time scale (a device whose clock was not set:
    // the Unix epoch and its neighbourhood; 10^8 and 10^9 seconds; before 1970; 1901)
    let now = chrono::Utc::now().timestamp() as i128;
    for stamp in [0i128, 86_400, 31_536_000, 100_000_000, 99_999_999, -100_000_000, 1_000_000_000, -1, -86_400, -2_147_483_648, 45_000_000] {
        v.push((now - stamp) / 86_400);
    }
    v.retain(|x| *x >= -400 && *x <= MAX_AGE_DAYS as i128);
    v.sort();
    v.dedup();
    v.into_iter().map(|x| x as i64).collect()
}

struct Conv {
    before_ok: bool,
    after_ok: bool,
}

/// One planted case: returns the observed urgency (or an error string).
fn plant_and_add(subj: &mut Subject, client: Uuid, age_days: i64, since: u32, extra_secs: i64) -> Result<Urg, String> {
    // a first real version creates the client through the protocol
    let v1 = match subj.exec(client, &Req::AddVersion { parent: Uuid::nil(), data: b"first".to_vec() }) {
        Resp::AddOk { vid, .. } => vid,
        o => return Err(format!("first AddVersion failed: {}", o.short())),
    };
    {
        let mut txn = subj.storage.txn(client).map_err(|e| format!("txn: {e:#}"))?;
        // whole days plus a fraction of a day (the age in days is the floor of the elapsed time)
        let ts = chrono::Utc::now() - chrono::Duration::seconds(age_days * 86400 + extra_secs);
        txn.set_snapshot(Snapshot { version_id: v1, timestamp: ts, versions_since: since }, b"planted snapshot".to_vec())
            .map_err(|e| format!("set_snapshot: {e:#}"))?;
        txn.commit().map_err(|e| format!("commit: {e:#}"))?;
    }
    match subj.exec(client, &Req::AddVersion { parent: v1, data: b"second".to_vec() }) {
        Resp::AddOk { urg, .. } => {
            // the stored counter must have advanced by exactly one
            let mut txn = subj.storage.txn(client).map_err(|e| format!("txn: {e:#}"))?;
            match txn.get_client().map_err(|e| format!("get_client: {e:#}"))?.and_then(|c| c.snapshot) {
                Some(s) if s.versions_since == since + 1 => Ok(urg),
                Some(s) => Err(format!("COUNTER: versions-since was {since} before an accepted AddVersion and is {} after it", s.versions_since)),
                None => Err("COUNTER: the snapshot record disappeared".into()),
            }
        }
        o => Err(o.short()),
    }
}

pub fn shard_run(tier: &str, seed: u64, replay_case: Option<usize>, shard: Shard) -> ShardOut {
    let thorough = tier == "thorough";
    let mut out = ShardOut::default();
    let mut cov = Cov::default();
    // configurations
    let mut configs: Vec<(Config, &'static str)> = vec![];
    for v in version_targets() {
        for d in if thorough { day_targets() } else { vec![0, 14, 15, i64::MAX] } {
            configs.push((Config { snapshot_days: d, snapshot_versions: v }, "sweep-versions"));
        }
    }
    for d in day_targets() {
        for v in if thorough { version_targets() } else { vec![0, 7, 100, u32::MAX] } {
            configs.push((Config { snapshot_days: d, snapshot_versions: v }, "sweep-days"));
        }
    }
    let mut rng = Rng::new(seed).fork(0xC12);
    let n_rand = if thorough { 1500 } else { 200 };
    for _ in 0..n_rand {
        let v = match rng.below(4) {
            0 => rng.below(20) as u32,
            1 => rng.below(2000) as u32,
            2 => (rng.next_u64() >> 32) as u32,
            _ => u32::MAX - rng.below(1000) as u32,
        };
        let d = match rng.below(4) {
            0 => rng.below(10) as i64,
            1 => rng.below(400) as i64,
            2 => (rng.next_u64() >> 1) as i64,
            _ => i64::MAX - rng.below(1000) as i64,
        };
        configs.push((Config { snapshot_days: d, snapshot_versions: v }, if rng.pct(50) { "sweep-versions" } else { "sweep-days" }));
    }
    // configurations given to the real executable on its command line (zero, one, odd, overflowing
    // and extreme targets): the same planted sweeps, served by the binary
    let n_lib = configs.len();
    if crate::net::server_bin().is_some() {
        let third_v = ((1u64 << 32) / 3) as u32;
        let third_d = i64::MAX / 3;
        let mut bin_cfgs: Vec<(i64, u32)> = vec![(14, 0), (0, 4), (0, 0), (1, 1), (2, 3), (i64::MAX, u32::MAX), (third_d + 1, third_v + 1), (15, 101)];
        if thorough {
            for _ in 0..24 {
                bin_cfgs.push((*rng.pick(&day_targets()), *rng.pick(&version_targets())));
            }
        }
        for (d, v) in bin_cfgs {
            configs.push((Config { snapshot_days: d, snapshot_versions: v }, "sweep-versions"));
            configs.push((Config { snapshot_days: d, snapshot_versions: v }, "sweep-days"));
        }
    } else {
        out.errors.push("the server executable is not built".into());
    }
    let lib_kinds = [Kind::MEM_LIB, Kind::SQL_LIB, Kind::MEM_HTTP, Kind::SQL_HTTP];
    let bin_kind = [Kind { backend: crate::subject::Backend::Sqlite, entry: crate::subject::Entry::Http, reopen_pct: 0, socket: true, peers: false, pinned_first: false }];
    let mut conv = Conv { before_ok: true, after_ok: true };
    for (ci, (cfg, sweep)) in configs.iter().enumerate() {
        match replay_case {
            Some(c) => {
                if c != 1_000_000 + ci {
                    continue;
                }
            }
            None => {
                if !shard.mine(ci) {
                    continue;
                }
            }
        }
        out.executed += 1;
        let binary = ci >= n_lib;
        let kinds: &[Kind] = if binary { &bin_kind } else { &lib_kinds };
        for kind in kinds.iter().copied() {
            if binary {
                cov.count("configurations_served_by_the_real_executable", 1);
            }
            let kname = if binary { "sqlite/http+executable".to_string() } else { kind.name() };
            let made = if binary { Subject::with_binary(*cfg, None, 0) } else { Subject::new(kind, *cfg) };
            let mut subj = match made {
                Ok(s) => s,
                Err(e) => {
                    out.errors.push(format!("cannot create subject: {e:#}"));
                    continue;
                }
            };
            let mut pts: Vec<(i64, u32)> = if *sweep == "sweep-versions" {
                points_u32(cfg.snapshot_versions).into_iter().map(|s| (0i64, s)).collect()
            } else {
                points_days(cfg.snapshot_days).into_iter().map(|a| (a, 0u32)).collect()
            };
            // the swept measure combined with the other measure held inside its low band and
            // beyond its high threshold (urgency must be the maximum of the two)
            let other_fixed: Vec<(i64, u32)> = {
                let d = cfg.snapshot_days as i128;
                let v = cfg.snapshot_versions as u64;
                let mut o = vec![];
                if *sweep == "sweep-versions" {
                    for a in [d, d * 3 / 2] {
                        if a >= 0 && a <= MAX_AGE_DAYS as i128 {
                            o.push((a as i64, 0u32));
                        }
                    }
                } else {
                    for s in [v, v * 3 / 2] {
                        if s <= (u32::MAX - 1) as u64 {
                            o.push((0i64, s as u32));
                        }
                    }
                }
                o
            };
            let base_pts = pts.clone();
            for (fa, fs) in &other_fixed {
                for (a, s) in &base_pts {
                    pts.push((a + fa, s + fs));
                }
            }
            let mut prev: Option<(Urg, (i64, u32))> = None;
            let mut first_low: Option<i128> = None;
            let mut first_high: Option<i128> = None;
            for (pi, (age, since)) in pts.iter().enumerate() {
                let client = Rng::new(seed).fork((ci * 1000 + pi) as u64).uuid();
                cov.evaluations += 1;
                // alternate between 'N days and half an hour' and 'N days, 23 hours and a half'
                let extra = if (pi + ci) % 2 == 0 { 1800 } else { 23 * 3600 + 1800 };
                let got = plant_and_add(&mut subj, client, *age, *since, extra);
                let want_before = spec_urgency(cfg, Some((*age, *since)));
                let want_after = spec_urgency(cfg, Some((*age, since.saturating_add(1))));
                // a negative elapsed time: "whole days" may be taken by flooring or by truncating
                // towards zero; both readings are accepted
                let neg_alt: Option<(Urg, Urg)> = if *age < 0 { Some((spec_urgency(cfg, Some((*age + 1, *since))), spec_urgency(cfg, Some((*age + 1, since.saturating_add(1)))))) } else { None };
                let case = json!({"origin": "planted", "case": 1_000_000 + ci, "subject": kname.clone(), "snapshot_days": cfg.snapshot_days, "snapshot_versions": cfg.snapshot_versions, "age_days": age, "versions_since": since});
                match got {
                    Err(e) => {
                        out.found.push(Found {
                            property: "C12".into(),
                            msg: if e.starts_with("COUNTER") { format!("on {}: {e} (the counter must equal the number of versions accepted since the snapshot was stored)", kname) } else { format!("with targets (days={}, versions={}) and a snapshot aged {age} days with {since} versions since, AddVersion on {} did not succeed: {e}", cfg.snapshot_days, cfg.snapshot_versions, kname) },
                            signature: format!("C12:computation-fails days={} versions={}", cfg.snapshot_days, cfg.snapshot_versions),
                            replay: case,
                        });
                        out.cov = cov;
                        return out;
                    }
                    Ok(u) => {
                        let m = if *sweep == "sweep-versions" { *since as i128 } else { *age as i128 };
                        if pi < base_pts.len() && u >= Urg::Low && first_low.is_none() {
                            first_low = Some(m);
                        }
                        if pi < base_pts.len() && u == Urg::High && first_high.is_none() {
                            first_high = Some(m);
                        }
                        cov.hit(format!("plant{}:{}:{}:{:?}", if binary { "-executable" } else { "" }, sweep, class_of(cfg, *sweep), u));
                        if u != want_before && neg_alt.map(|n| u != n.0).unwrap_or(true) {
                            conv.before_ok = false;
                        }
                        if u != want_after && neg_alt.map(|n| u != n.1).unwrap_or(true) {
                            conv.after_ok = false;
                        }
                        if !conv.before_ok && !conv.after_ok {
                            out.found.push(Found {
                                property: "C12".into(),
                                msg: format!(
                                    "with targets (days={}, versions={}) and a snapshot aged {age} days with {since} versions since, an accepted AddVersion on {} reported urgency {u:?}; the specification gives {want_before:?} (or {want_after:?} if the version being added is counted)",
                                    cfg.snapshot_days, cfg.snapshot_versions, kname
                                ),
                                signature: format!("C12:urgency days={} versions={} age={age} since={since}", cfg.snapshot_days, cfg.snapshot_versions),
                                replay: case,
                            });
                            out.cov = cov;
                            return out;
                        }
                        if let Some((pu, pm)) = prev {
                            let grew = *age >= pm.0 && *since >= pm.1 && pm.0 >= 0;
                            if grew && u < pu {
                                out.found.push(Found {
                                    property: "C12".into(),
                                    msg: format!(
                                        "urgency decreased from {pu:?} at (age days, versions since)={pm:?} to {u:?} at {:?} with targets (days={}, versions={}) on {}",
                                        (age, since), cfg.snapshot_days, cfg.snapshot_versions, kname
                                    ),
                                    signature: format!("C12:non-monotone days={} versions={}", cfg.snapshot_days, cfg.snapshot_versions),
                                    replay: case,
                                });
                                out.cov = cov;
                                return out;
                            }
                        }
                        prev = Some((u, (*age, *since)));
                        if cov.samples.len() < 3 && pi == 2 {
                            cov.samples.push(json!({"planted": {"snapshot_days": cfg.snapshot_days, "snapshot_versions": cfg.snapshot_versions, "age_days": age, "versions_since": since, "subject": kname}, "observed_urgency": format!("{u:?}")}));
                        }
                    }
                }
            }
            if let (Some(l), Some(h)) = (first_low, first_high) {
                cov.count("threshold_order_checks", 1);
                if h < l {
                    out.found.push(Found {
                        property: "C12".into(),
                        msg: format!("observed high threshold ({h}) below observed low threshold ({l}) with targets (days={}, versions={})", cfg.snapshot_days, cfg.snapshot_versions),
                        signature: "C12:high-below-low".into(),
                        replay: json!({"origin": "planted", "case": 1_000_000 + ci}),
                    });
                    out.cov = cov;
                    return out;
                }
            }
        }
    }
    // ---- directories written by the pinned release (vendored crates), opened by the current code:
    // the versions-since counter and the snapshot time must carry over, so that the first AddVersion
    // after the upgrade reports the urgency the stored values call for
    let n_up = if thorough { 400 } else { 36 };
    for i in 0..n_up {
        if replay_case.is_some() || !shard.mine(i + 5) {
            continue;
        }
        let d = crate::scratch::ScratchDir::new("c12up");
        let wseed = Rng::new(seed).fork(0xC12_0000 + i as u64).next_u64();
        let Ok(exp) = crate::checks_c19::write_pinned(d.path(), wseed, false) else { continue };
        let cfg = Config { snapshot_days: *Rng::new(wseed).pick(&[14i64, 2, 100, 400]), snapshot_versions: *Rng::new(wseed ^ 1).pick(&[2u32, 4, 6, 10, 30, 100]) };
        let mut subj = match Subject::open_dir(Kind::SQL_LIB, cfg, d) {
            Ok(s) => s,
            Err(e) => {
                out.errors.push(format!("open pinned directory: {e:#}"));
                continue;
            }
        };
        for c in &exp.clients {
            let Some(es) = &c.snapshot else { continue };
            let Some(last) = c.versions.last() else { continue };
            cov.evaluations += 1;
            let rec = subj.storage.txn(c.id).ok().and_then(|mut t| t.get_client().ok().flatten()).and_then(|r| r.snapshot);
            let case = json!({"origin": "pinned-upgrade", "case": 2_000_000 + i, "writer_seed": wseed.to_string()});
            match rec {
                Some(s) if s.versions_since == es.since && s.timestamp.timestamp() == es.ts => {}
                o => {
                    out.found.push(Found {
                        property: "C12".into(),
                        msg: format!("a directory written by the pinned release holds a snapshot with {} versions since, stamped {}; opened by the current code the client record reads {:?}", es.since, es.ts, o.map(|s| (s.versions_since, s.timestamp.timestamp()))),
                        signature: "C12:upgrade counter".into(),
                        replay: case,
                    });
                    out.cov = cov;
                    return out;
                }
            }
            let age = (chrono::Utc::now().timestamp() - es.ts) / 86400;
            let want = (spec_urgency(&cfg, Some((age, es.since))), spec_urgency(&cfg, Some((age, es.since.saturating_add(1)))));
            match subj.exec(c.id, &Req::AddVersion { parent: last.vid, data: b"first version after the upgrade".to_vec() }) {
                Resp::AddOk { urg, .. } => {
                    cov.hit(format!("pinned-upgrade:first-add-version:{urg:?}"));
                    if urg != want.0 && urg != want.1 {
                        out.found.push(Found {
                            property: "C12".into(),
                            msg: format!("first AddVersion after opening a directory written by the pinned release (snapshot aged {age} days, {} versions since; targets days={}, versions={}) reported urgency {urg:?}; the stored values call for {:?}", es.since, cfg.snapshot_days, cfg.snapshot_versions, want.0),
                            signature: "C12:upgrade urgency".into(),
                            replay: case,
                        });
                        out.cov = cov;
                        return out;
                    }
                }
                o => {
                    out.errors.push(format!("pinned-upgrade: AddVersion on the latest version answered {}", o.short()));
                }
            }
        }
    }
    cov.count(if conv.before_ok { "convention_before_consistent" } else { "convention_before_refuted" }, 1);
    cov.count(if conv.after_ok { "convention_after_consistent" } else { "convention_after_refuted" }, 1);
    out.cov = cov;
    out
}

fn class_of(cfg: &Config, sweep: &str) -> String {
    if sweep == "sweep-versions" {
        match cfg.snapshot_versions {
            0 => "t=0".into(),
            1 => "t=1".into(),
            x if x < 1000 => format!("t={}", if x % 2 == 1 { "small-odd" } else { "small-even" }),
            x if x as u64 * 3 > u32::MAX as u64 => "t=overflowing-u32".into(),
            _ => "t=large".into(),
        }
    } else {
        match cfg.snapshot_days {
            0 => "t=0".into(),
            1 => "t=1".into(),
            x if x < 1000 => format!("t={}", if x % 2 == 1 { "small-odd" } else { "small-even" }),
            x if x as i128 * 3 > i64::MAX as i128 => "t=overflowing-i64".into(),
            _ => "t=large".into(),
        }
    }
}
