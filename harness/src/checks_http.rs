//! E5 — request-grammar engine: C15 (malformed/oversized requests), C16 (allow-list) and C20
//! (Cache-Control on every response).

use crate::dump::{dump_sql, dump_storage, Dump};
use crate::evidence::{CheckResult, Cov, Found, Shard, ShardOut, Verdict};
use crate::http::{HttpReq, HttpResp, CT_HISTORY, CT_SNAPSHOT};
use crate::prng::Rng;
use crate::subject::{Backend, Config, Entry, Kind, Subject};
use crate::wrap::{AccessLog, Call, Event, Hook, Hooked};
use serde_json::{json, Value};
use std::collections::{BTreeMap, HashSet};
use std::sync::atomic::{AtomicBool, Ordering};
use std::sync::{Arc, Mutex};
use taskchampion_sync_server_core::Storage;
use uuid::Uuid;

pub const LIMIT: usize = 100 * 1024 * 1024;

/// Hook that records accesses and can be switched to fail every `txn()` (to obtain 5xx on purpose).
pub struct LogAndFail {
    pub log: Arc<AccessLog>,
    pub fail: AtomicBool,
}

impl Hook for LogAndFail {
    fn before(&self, ev: &Event) -> Option<anyhow::Error> {
        self.log.before(ev);
        if self.fail.load(Ordering::SeqCst) && ev.call == Call::Begin {
            return Some(anyhow::anyhow!("injected storage failure"));
        }
        None
    }
}

pub struct Fixture {
    pub subj: Subject,
    pub clients: Vec<Uuid>,
    /// per client: accepted version ids in order
    pub chains: Vec<Vec<Uuid>>,
    pub ids: Vec<Uuid>,
    pub hook: Arc<LogAndFail>,
    pub last_dump: Option<Dump>,
    /// client ids introduced by requests (so that the trait-level dump covers them)
    pub extra_clients: Vec<Uuid>,
}

impl Fixture {
    /// A server holding non-trivial state: 3 clients with chains (nil and non-nil base) and
    /// snapshots, built through protocol requests.
    pub fn new(backend: Backend, seed: u64, allow: Option<HashSet<Uuid>>) -> anyhow::Result<Fixture> {
        let hook = Arc::new(LogAndFail { log: AccessLog::new(), fail: AtomicBool::new(false) });
        let h2 = hook.clone();
        let wrap: crate::subject::StorageWrap = Arc::new(move |st: Arc<dyn Storage>| Arc::new(Hooked::new(st, h2.clone())) as Arc<dyn Storage>);
        let kind = Kind { backend, entry: Entry::Http, reopen_pct: 0, socket: false, peers: false, pinned_first: false };
        // state is built with no allow-list in force ("data from before the list was introduced")
        let subj = Subject::with(kind, Config { snapshot_days: 14, snapshot_versions: 4 }, None, Some(wrap))?;
        let mut rng = Rng::new(seed).fork(0xF1C5);
        let clients: Vec<Uuid> = (0..3).map(|i| if i == 0 { rng.uuid() } else { rng.uuid_any() }).collect();
        let mut f = Fixture { subj, clients, chains: vec![vec![]; 3], ids: vec![], hook, last_dump: None, extra_clients: vec![] };
        for c in 0..3 {
            let n = 3 + c * 2;
            let mut parent = if c == 1 { rng.uuid() } else { Uuid::nil() };
            f.ids.push(parent);
            for i in 0..n {
                let body: Vec<u8> = (0..(10 + i * 7)).map(|x| (x as u8).wrapping_mul(31).wrapping_add(c as u8)).collect();
                let r = f.subj.http(&HttpReq::new("POST", &format!("/v1/client/add-version/{parent}")).header("X-Client-Id", &f.clients[c].to_string()).header("Content-Type", CT_HISTORY).body(body));
                let v = r.header("X-Version-Id").and_then(|s| Uuid::parse_str(s).ok()).ok_or_else(|| anyhow::anyhow!("fixture: add-version failed: {}", r.describe()))?;
                f.chains[c].push(v);
                f.ids.push(v);
                parent = v;
                if i == n - 2 {
                    let r = f.subj.http(&HttpReq::new("POST", &format!("/v1/client/add-snapshot/{v}")).header("X-Client-Id", &f.clients[c].to_string()).header("Content-Type", CT_SNAPSHOT).body(vec![0x5a; 33 + c]));
                    if r.status != 200 {
                        anyhow::bail!("fixture: add-snapshot failed: {}", r.describe());
                    }
                }
            }
        }
        if allow.is_some() {
            f.subj.reconfigure(f.subj.config, allow);
        }
        f.hook.log.take();
        f.last_dump = Some(f.dump());
        Ok(f)
    }

    pub fn dump(&self) -> Dump {
        let mut known = self.clients.clone();
        known.extend(self.extra_clients.iter().copied());
        let mut d = if self.subj.kind.backend == Backend::Mem {
            dump_storage(self.subj.storage.as_ref(), &known, &self.ids)
        } else {
            dump_storage(self.subj.storage.as_ref(), &known, &[])
        };
        if let Some(p) = self.subj.db_path() {
            d.sql = Some(dump_sql(&p).unwrap_or_else(|e| vec![format!("SQL DUMP ERROR {e:#}")]));
        }
        d
    }
}

// ------------------------------------------------------------------------------------------
// grammar

#[derive(Clone, Copy, Debug, PartialEq, Eq, Hash)]
pub enum Route {
    Index,
    AddVersion,
    GetChild,
    AddSnapshot,
    GetSnapshot,
    /// near misses and unknown routes: (template index)
    Other(usize),
}

const OTHER_ROUTES: [(&str, bool /*certainly unknown (must refuse)*/); 16] = [
    ("/v1/client/snapshot/", false),
    ("//v1/client/snapshot", false),
    ("/v1//client/get-child-version/{id}", false),
    ("/V1/Client/Snapshot", false),
    ("/v1/client/snapshot/extra", true),
    ("/v1/client/add-version/{id}/extra", true),
    ("/v1/client/add-version/", true),
    ("/v1/client/add-version", true),
    ("/v2/client/snapshot", true),
    ("/v1/client/unknown", true),
    ("/v1/client/add-snapshot/{id}/", false),
    ("/index.html", true),
    // the collection paths above the protocol's routes (every method, DELETE and PUT included)
    ("/v1/client", true),
    ("/v1/client/", false),
    ("/v1", true),
    ("/v1/client/{id}", true),
];

const ODD_HEADERS: [(&str, &str); 8] = [
    ("Accept-Encoding", "identity;q=0"),
    ("Accept-Encoding", "*;q=0"),
    ("Accept-Encoding", "gzip, br"),
    ("Accept-Encoding", "compress, identity;q=0"),
    ("Accept", "text/html"),
    ("If-None-Match", "*"),
    ("If-Modified-Since", "Sat, 01 Jan 2028 00:00:00 GMT"),
    ("Range", "bytes=0-3"),
];

const METHODS: [&str; 7] = ["GET", "POST", "PUT", "DELETE", "HEAD", "PATCH", "OPTIONS"];

#[derive(Clone, Copy, Debug, PartialEq, Eq, Hash)]
pub enum Cid {
    Absent,
    Empty,
    NonAscii,
    Short35,
    Long37,
    NonHex,
    Known,
    Unknown,
    Braced,
    Urn,
    Simple,
    Upper,
    DupSame,
    DupDifferent,
    LeadingSpace,
    TrailingSpace,
}
const CIDS: [Cid; 16] = [
    Cid::Absent, Cid::Empty, Cid::NonAscii, Cid::Short35, Cid::Long37, Cid::NonHex, Cid::Known, Cid::Unknown, Cid::Braced, Cid::Urn,
    Cid::Simple, Cid::Upper, Cid::DupSame, Cid::DupDifferent, Cid::LeadingSpace, Cid::TrailingSpace,
];

#[derive(Clone, Copy, Debug, PartialEq, Eq, Hash)]
pub enum Pid {
    Latest,
    Ancestor,
    Nil,
    Random,
    NonUuid,
    TooLong,
    Percent,
    Empty,
    Braced,
    Urn,
    Simple,
}
const PIDS: [Pid; 11] = [Pid::Latest, Pid::Ancestor, Pid::Nil, Pid::Random, Pid::NonUuid, Pid::TooLong, Pid::Percent, Pid::Empty, Pid::Braced, Pid::Urn, Pid::Simple];

#[derive(Clone, Copy, Debug, PartialEq, Eq, Hash)]
pub enum Ct {
    Exact,
    Absent,
    Wrong,
    Upper,
    WithParam,
    OtherRoutes,
    /// the right media type with a structured-syntax suffix (`+json`): a different media type
    Suffixed,
    /// the right media type with trailing characters / a prefix of it
    NearMiss,
}
const CTS: [Ct; 8] = [Ct::Exact, Ct::Absent, Ct::Wrong, Ct::Upper, Ct::WithParam, Ct::OtherRoutes, Ct::Suffixed, Ct::NearMiss];

#[derive(Clone, Copy, Debug, PartialEq, Eq, Hash)]
pub enum Body {
    Empty,
    One,
    SmallChunks,
    EmptyChunksOnly,
}
const BODIES: [Body; 4] = [Body::Empty, Body::One, Body::SmallChunks, Body::EmptyChunksOnly];

#[derive(Clone, Copy, Debug, PartialEq, Eq)]
pub enum Class {
    MustRefuse,
    MustServe,
    Ambiguous,
}

#[derive(Clone, Copy, Debug)]
pub struct Gram {
    pub route: Route,
    pub method: usize,
    pub cid: Cid,
    pub pid: Pid,
    pub ct: Ct,
    pub body: Body,
}

impl Gram {
    fn has_id(&self) -> bool {
        match self.route {
            Route::AddVersion | Route::GetChild | Route::AddSnapshot => true,
            Route::Other(i) => OTHER_ROUTES[i].0.contains("{id}"),
            _ => false,
        }
    }
    fn is_post_route(&self) -> bool {
        matches!(self.route, Route::AddVersion | Route::AddSnapshot)
    }
    fn proper_method(&self) -> Option<&'static str> {
        match self.route {
            Route::Index | Route::GetChild | Route::GetSnapshot => Some("GET"),
            Route::AddVersion | Route::AddSnapshot => Some("POST"),
            Route::Other(_) => None,
        }
    }

    /// Classification by the property's statement; everything the statement does not settle is
    /// Ambiguous (only the universal rules apply).
    pub fn class(&self) -> Class {
        let m = METHODS[self.method];
        if let Route::Other(i) = self.route {
            return if OTHER_ROUTES[i].1 { Class::MustRefuse } else { Class::Ambiguous };
        }
        if Some(m) != self.proper_method() {
            return if m == "HEAD" || m == "OPTIONS" { Class::Ambiguous } else { Class::MustRefuse };
        }
        if self.route == Route::Index {
            return Class::MustServe;
        }
        let mut amb = false;
        match self.cid {
            Cid::Absent | Cid::Empty | Cid::NonAscii | Cid::Short35 | Cid::Long37 | Cid::NonHex => return Class::MustRefuse,
            Cid::Known | Cid::Unknown => {}
            _ => amb = true,
        }
        if self.has_id() {
            match self.pid {
                Pid::NonUuid | Pid::TooLong | Pid::Empty => return Class::MustRefuse,
                Pid::Latest | Pid::Ancestor | Pid::Nil | Pid::Random => {}
                _ => amb = true,
            }
        }
        if self.is_post_route() {
            match self.ct {
                Ct::Absent | Ct::Wrong | Ct::OtherRoutes | Ct::Suffixed | Ct::NearMiss => return Class::MustRefuse,
                Ct::Exact => {}
                _ => amb = true,
            }
            match self.body {
                Body::Empty | Body::EmptyChunksOnly => return Class::MustRefuse,
                _ => {}
            }
        }
        if amb {
            Class::Ambiguous
        } else {
            Class::MustServe
        }
    }

    pub fn key(&self) -> String {
        format!("{:?}|{}|cid={:?}|pid={:?}|ct={:?}|body={:?}", self.route, METHODS[self.method], self.cid, if self.has_id() { Some(self.pid) } else { None }, if self.is_post_route() || METHODS[self.method] == "POST" { Some(self.ct) } else { None }, self.body)
    }

    pub fn build(&self, fx: &Fixture, rng: &mut Rng) -> HttpReq {
        let c = 0usize; // the "known" client
        let known = fx.clients[c];
        let chain = &fx.chains[c];
        let idtxt = |u: Uuid| u.to_string();
        let pid = match self.pid {
            Pid::Latest => idtxt(*chain.last().unwrap()),
            Pid::Ancestor => idtxt(chain[0]),
            Pid::Nil => idtxt(Uuid::nil()),
            Pid::Random => idtxt(if rng.pct(50) { rng.uuid() } else { rng.uuid_any() }),
            Pid::NonUuid => "not-a-uuid".to_string(),
            Pid::TooLong => "ab".repeat(2048),
            Pid::Percent => idtxt(*chain.last().unwrap()).replace('-', "%2D"),
            Pid::Empty => String::new(),
            Pid::Braced => format!("%7B{}%7D", chain.last().unwrap()),
            Pid::Urn => format!("urn:uuid:{}", chain.last().unwrap()),
            Pid::Simple => chain.last().unwrap().simple().to_string(),
        };
        let path = match self.route {
            Route::Index => "/".to_string(),
            Route::AddVersion => format!("/v1/client/add-version/{pid}"),
            Route::GetChild => format!("/v1/client/get-child-version/{pid}"),
            Route::AddSnapshot => format!("/v1/client/add-snapshot/{pid}"),
            Route::GetSnapshot => "/v1/client/snapshot".to_string(),
            Route::Other(i) => OTHER_ROUTES[i].0.replace("{id}", &pid),
        };
        let mut r = HttpReq::new(METHODS[self.method], &path);
        let k = known.to_string();
        match self.cid {
            Cid::Absent => {}
            Cid::Empty => r = r.header("X-Client-Id", ""),
            Cid::NonAscii => r = r.header_bytes("X-Client-Id", &[0xff, 0xfe, b'a']),
            Cid::Short35 => r = r.header("X-Client-Id", &k[..35]),
            Cid::Long37 => r = r.header("X-Client-Id", &format!("{k}0")),
            Cid::NonHex => r = r.header("X-Client-Id", &k.replacen(|c: char| c.is_ascii_hexdigit(), "g", 1)),
            Cid::Known => r = r.header("X-Client-Id", &k),
            Cid::Unknown => r = r.header("X-Client-Id", &(if rng.pct(50) { rng.uuid() } else { rng.uuid_any() }).to_string()),
            Cid::Braced => r = r.header("X-Client-Id", &format!("{{{k}}}")),
            Cid::Urn => r = r.header("X-Client-Id", &format!("urn:uuid:{k}")),
            Cid::Simple => r = r.header("X-Client-Id", &known.simple().to_string()),
            Cid::Upper => r = r.header("X-Client-Id", &k.to_uppercase()),
            Cid::DupSame => r = r.header("X-Client-Id", &k).header("X-Client-Id", &k),
            Cid::DupDifferent => r = r.header("X-Client-Id", &k).header("X-Client-Id", &fx.clients[1].to_string()),
            Cid::LeadingSpace => r = r.header("X-Client-Id", &format!(" {k}")),
            Cid::TrailingSpace => r = r.header("X-Client-Id", &format!("{k} ")),
        }
        let own_ct = match self.route {
            Route::AddSnapshot => CT_SNAPSHOT,
            _ => CT_HISTORY,
        };
        let other_ct = if own_ct == CT_HISTORY { CT_SNAPSHOT } else { CT_HISTORY };
        let sends_body = METHODS[self.method] == "POST" || METHODS[self.method] == "PUT" || METHODS[self.method] == "PATCH";
        if sends_body {
            match self.ct {
                Ct::Exact => r = r.header("Content-Type", own_ct),
                Ct::Absent => {}
                Ct::Wrong => r = r.header("Content-Type", "application/json"),
                Ct::Upper => r = r.header("Content-Type", &own_ct.to_uppercase()),
                Ct::WithParam => r = r.header("Content-Type", &format!("{own_ct}; charset=utf-8")),
                Ct::OtherRoutes => r = r.header("Content-Type", other_ct),
                Ct::Suffixed => r = r.header("Content-Type", &format!("{own_ct}+{}", if rng.pct(50) { "json" } else { "zstd" })),
                Ct::NearMiss => r = r.header("Content-Type", &if rng.pct(50) { format!("{own_ct}s") } else { own_ct[..own_ct.len() - 1].to_string() }),
            }
            match self.body {
                Body::Empty => {}
                Body::One => r = r.body(vec![b'x']),
                Body::SmallChunks => r = r.body_chunks(vec![vec![1, 2, 3], vec![], vec![4], vec![5; 100]]),
                Body::EmptyChunksOnly => r = r.body_chunks(vec![vec![], vec![]]),
            }
        }
        r
    }
}

pub fn grammar(thorough: bool, seed: u64) -> Vec<Gram> {
    let mut out = vec![];
    let mut routes = vec![Route::Index, Route::AddVersion, Route::GetChild, Route::AddSnapshot, Route::GetSnapshot];
    for i in 0..OTHER_ROUTES.len() {
        routes.push(Route::Other(i));
    }
    let mut sel = Rng::new(seed).fork(0x6A11);
    for route in routes {
        for method in 0..METHODS.len() {
            for cid in CIDS {
                for pid in PIDS {
                    for ct in CTS {
                        for body in BODIES {
                            let g = Gram { route, method, cid, pid, ct, body };
                            // drop dimensions that do not apply
                            if !g.has_id() && pid != Pid::Latest {
                                continue;
                            }
                            let sends_body = matches!(METHODS[method], "POST" | "PUT" | "PATCH");
                            if !sends_body && (ct != Ct::Exact || body != Body::Empty) {
                                continue;
                            }
                            // count off-nominal dimensions; in quick mode sample the dull corners
                            let mut off = 0;
                            if matches!(route, Route::Other(_)) {
                                off += 1;
                            }
                            if Some(METHODS[method]) != g.proper_method() {
                                off += 1;
                            }
                            if !matches!(cid, Cid::Known) {
                                off += 1;
                            }
                            if g.has_id() && !matches!(pid, Pid::Latest) {
                                off += 1;
                            }
                            if sends_body && ct != Ct::Exact {
                                off += 1;
                            }
                            if sends_body && body != Body::One {
                                off += 1;
                            }
                            let keep = if thorough {
                                off <= 4 || sel.pct(50)
                            } else {
                                off <= 3 || sel.pct(6)
                            };
                            if keep {
                                out.push(g);
                            }
                        }
                    }
                }
            }
        }
    }
    out
}

fn is_protocol_status(g: &Gram, s: u16) -> bool {
    match g.route {
        Route::Index => s == 200,
        Route::AddVersion => s == 200 || s == 409,
        Route::GetChild => s == 200 || s == 404 || s == 410,
        Route::AddSnapshot => s == 200 || s == 404,
        Route::GetSnapshot => s == 200 || s == 404,
        Route::Other(_) => false,
    }
}

pub fn no_store(resp: &HttpResp) -> bool {
    resp.headers
        .iter()
        .filter(|(k, _)| k.eq_ignore_ascii_case("cache-control"))
        .any(|(_, v)| v.split(',').any(|d| d.trim().eq_ignore_ascii_case("no-store")))
}

/// Execute one grammar request on the fixture and judge it (C15 rules); returns a violation
/// message if any. `c20` additionally returns whether the response forbids caching.
pub fn exec_and_judge(fx: &mut Fixture, g: &Gram, req: &HttpReq, cov: &mut Cov) -> (HttpResp, Option<String>) {
    // a client id this request introduces must be part of the dump before the request is made
    if let Some(cid) = req.headers.iter().find(|(k, _)| k.eq_ignore_ascii_case("x-client-id")).and_then(|(_, v)| std::str::from_utf8(v).ok()).and_then(|s| Uuid::parse_str(s.trim()).ok()) {
        if !fx.clients.contains(&cid) && !fx.extra_clients.contains(&cid) {
            fx.extra_clients.push(cid);
            if fx.extra_clients.len() > 40 {
                fx.extra_clients.remove(0);
            }
            fx.last_dump = Some(fx.dump());
        }
    }
    fx.hook.log.take();
    let resp = fx.subj.http(req);
    cov.evaluations += 1;
    let class = g.class();
    cov.hit(format!("{:?}|{}|{:?}|status={}", g.route, METHODS[g.method], class, resp.status));
    let after = fx.dump();
    let changed = fx.last_dump.as_ref().map(|b| *b != after).unwrap_or(false);
    let diff = if changed { fx.last_dump.as_ref().unwrap().diff(&after) } else { String::new() };
    fx.last_dump = Some(after);
    // keep the fixture's view of the chain current
    if resp.status == 200 && g.route == Route::AddVersion && METHODS[g.method] == "POST" {
        if let Some(v) = resp.header("X-Version-Id").and_then(|s| Uuid::parse_str(s).ok()) {
            // which client? the known one unless the id was another client's
            if matches!(g.cid, Cid::Unknown) {
                fx.ids.push(v);
            } else {
                fx.chains[0].push(v);
                fx.ids.push(v);
            }
        }
    }
    if let Some(f) = &resp.failure {
        return (resp.clone(), Some(format!("request {} made the server fail: {f}", req.describe())));
    }
    if resp.status >= 500 {
        return (resp.clone(), Some(format!("request {} was answered {} (server error)", req.describe(), resp.status)));
    }
    let mutating_ok = resp.status == 200 && METHODS[g.method] == "POST" && matches!(g.route, Route::AddVersion | Route::AddSnapshot | Route::Other(_));
    if changed && !mutating_ok {
        return (resp.clone(), Some(format!("request {} was answered {} yet stored state changed: {diff}", req.describe(), resp.status)));
    }
    match class {
        Class::MustRefuse => {
            if !(400..500).contains(&resp.status) {
                return (resp.clone(), Some(format!("request {} must be refused with a 4xx but was answered {}", req.describe(), resp.status)));
            }
            if changed {
                return (resp.clone(), Some(format!("refused request {} changed stored state: {diff}", req.describe())));
            }
        }
        Class::MustServe => {
            if !is_protocol_status(g, resp.status) {
                return (resp.clone(), Some(format!("well-formed request {} was answered {} which is not a protocol outcome of this route", req.describe(), resp.status)));
            }
        }
        Class::Ambiguous => {
            if !(is_protocol_status(g, resp.status) || (400..500).contains(&resp.status) || resp.status == 200 || resp.status == 204) {
                return (resp.clone(), Some(format!("request {} was answered {}", req.describe(), resp.status)));
            }
        }
    }
    (resp, None)
}

fn found(prop: &str, msg: String, replay: Value) -> Found {
    Found { property: prop.into(), signature: format!("{prop}:{}", msg.split_whitespace().take(8).collect::<Vec<_>>().join(" ")), msg, replay }
}

/// Uploads whose body transfer breaks off (in-process: the payload stream reports an error after
/// some chunks): the request must be refused and change nothing.
fn broken_body_cases(fx: &mut Fixture, cov: &mut Cov) -> Option<Found> {
    for route in [Route::AddVersion, Route::AddSnapshot] {
        for (name, nchunks, fail_after) in [("error-before-any-chunk", 0usize, 0usize), ("error-after-1-chunk", 3, 1), ("error-after-2-chunks", 3, 2), ("error-after-all-chunks", 2, 2)] {
            for client_new in [false, true] {
                let c = 0;
                let id = *fx.chains[c].last().unwrap();
                let cid = if client_new { Uuid::new_v4() } else { fx.clients[c] };
                let (path, ct) = match route {
                    Route::AddVersion => (format!("/v1/client/add-version/{}", if client_new { Uuid::nil() } else { id }), CT_HISTORY),
                    _ => (format!("/v1/client/add-snapshot/{id}"), CT_SNAPSHOT),
                };
                if !fx.extra_clients.contains(&cid) && client_new {
                    fx.extra_clients.push(cid);
                }
                fx.last_dump = Some(fx.dump());
                let mut req = HttpReq::new("POST", &path).header("X-Client-Id", &cid.to_string()).header("Content-Type", ct).body_chunks((0..nchunks).map(|i| vec![b'a' + i as u8; 40 + i]).collect());
                req.fail_after = Some(fail_after);
                let resp = fx.subj.http(&req);
                cov.evaluations += 1;
                cov.hit(format!("broken-body:{:?}:{name}:{}:status={}", route, if client_new { "never-seen-client" } else { "known-client" }, resp.status));
                let after = fx.dump();
                let changed = fx.last_dump.as_ref().map(|b| *b != after).unwrap_or(false);
                let diff = if changed { fx.last_dump.as_ref().unwrap().diff(&after) } else { String::new() };
                fx.last_dump = Some(after);
                if resp.status == 200 && route == Route::AddVersion && !client_new {
                    if let Some(v) = resp.header("X-Version-Id").and_then(|s| Uuid::parse_str(s).ok()) {
                        fx.chains[c].push(v);
                        fx.ids.push(v);
                    }
                }
                let desc = format!("POST {path} whose body transfer fails ({name}, {})", if client_new { "never-seen client" } else { "known client" });
                if resp.status >= 500 && resp.failure.is_none() || resp.failure.as_ref().map(|f| f.contains("panic")).unwrap_or(false) {
                    return Some(found("C15", format!("{desc} made the server fail: {}", resp.describe()), json!({"origin": "broken-body", "case": name})));
                }
                if (200..300).contains(&resp.status) {
                    return Some(found("C15", format!("{desc} was answered {} (the truncated upload was accepted) instead of being refused", resp.status), json!({"origin": "broken-body", "case": name})));
                }
                if changed {
                    return Some(found("C15", format!("{desc} was refused ({}) but stored state changed: {diff}", resp.status), json!({"origin": "broken-body", "case": name})));
                }
                // the next uploads on the same route (same worker): an empty body is still refused and
                // changes nothing, a legal body is accepted and stored as sent
                let empty = HttpReq::new("POST", &path).header("X-Client-Id", &cid.to_string()).header("Content-Type", ct);
                let r2 = fx.subj.http(&empty);
                let after2 = fx.dump();
                cov.evaluations += 1;
                cov.hit(format!("after-broken-body:{:?}:empty-body:status={}", route, r2.status));
                if !(400..500).contains(&r2.status) || fx.last_dump.as_ref().map(|b| *b != after2).unwrap_or(false) {
                    return Some(found("C15", format!("an empty-bodied POST {path} right after {desc} was answered {} (stored state changed: {})", r2.status, fx.last_dump.as_ref().map(|b| b.diff(&after2)).unwrap_or_default()), json!({"origin": "broken-body", "case": name})));
                }
                if !client_new {
                    // (a snapshot is only stored for a version newer than the snapshot's: move on first)
                    if route == Route::AddSnapshot {
                        let l0 = *fx.chains[c].last().unwrap();
                        let r = fx.subj.http(&HttpReq::new("POST", &format!("/v1/client/add-version/{l0}")).header("X-Client-Id", &cid.to_string()).header("Content-Type", CT_HISTORY).body(b"one more version".to_vec()));
                        match r.header("X-Version-Id").and_then(|s| Uuid::parse_str(s).ok()) {
                            Some(v) if r.status == 200 => {
                                fx.chains[c].push(v);
                                fx.ids.push(v);
                            }
                            _ => return Some(found("C15", format!("a legal add-version right after {desc} was answered {}", r.describe()), json!({"origin": "broken-body", "case": name}))),
                        }
                    }
                    let latest = *fx.chains[c].last().unwrap();
                    let body = format!("sent-whole-after-{name}").into_bytes();
                    let p3 = match route {
                        Route::AddVersion => format!("/v1/client/add-version/{latest}"),
                        _ => format!("/v1/client/add-snapshot/{latest}"),
                    };
                    let r3 = fx.subj.http(&HttpReq::new("POST", &p3).header("X-Client-Id", &cid.to_string()).header("Content-Type", ct).body(body.clone()));
                    cov.evaluations += 1;
                    cov.hit(format!("after-broken-body:{:?}:legal-body:status={}", route, r3.status));
                    if r3.status != 200 {
                        return Some(found("C15", format!("a legal POST {p3} ({} bytes) right after {desc} was answered {}", body.len(), r3.describe()), json!({"origin": "broken-body", "case": name})));
                    }
                    let back = match route {
                        Route::AddVersion => fx.subj.http(&HttpReq::new("GET", &format!("/v1/client/get-child-version/{latest}")).header("X-Client-Id", &cid.to_string())),
                        _ => fx.subj.http(&HttpReq::new("GET", "/v1/client/snapshot").header("X-Client-Id", &cid.to_string())),
                    };
                    if back.status != 200 || back.body != body {
                        return Some(found("C15", format!("a legal POST {p3} ({} bytes) right after {desc} was accepted, but what is stored for it is served as {} with {} bytes (first difference at {:?})", body.len(), back.status, back.body.len(), crate::ops::first_diff(&back.body, &body)), json!({"origin": "broken-body", "case": name})));
                    }
                    if route == Route::AddVersion {
                        if let Some(v) = r3.header("X-Version-Id").and_then(|s| Uuid::parse_str(s).ok()) {
                            fx.chains[c].push(v);
                            fx.ids.push(v);
                        }
                    }
                    fx.last_dump = Some(fx.dump());
                }
            }
        }
    }
    None
}

/// Large-body cases around the 100 MiB limit (in-process, exact chunk control).
fn large_body_cases(fx: &mut Fixture, cov: &mut Cov, tap: &mut dyn FnMut(&HttpReq, &HttpResp), only: Option<&[&str]>) -> Option<Found> {
    for route in [Route::AddVersion, Route::AddSnapshot] {
        let variants: Vec<(&str, Vec<Vec<u8>>, bool)> = vec![
            ("limit-1/one-chunk", vec![vec![7u8; LIMIT - 1]], true),
            ("limit/one-chunk", vec![vec![7u8; LIMIT]], true),
            ("limit/1MiB-chunks", (0..100).map(|_| vec![9u8; 1024 * 1024]).collect(), true),
            ("limit+1/one-chunk", vec![vec![7u8; LIMIT + 1]], false),
            ("limit+1/1MiB-chunks+1", {
                let mut v: Vec<Vec<u8>> = (0..100).map(|_| vec![9u8; 1024 * 1024]).collect();
                v.push(vec![1]);
                v
            }, false),
            ("limit+1/limit-then-1", vec![vec![7u8; LIMIT], vec![1]], false),
        ];
        for (name, chunks, ok) in variants {
            if let Some(o) = only {
                if !o.contains(&name) {
                    continue;
                }
            }
            let c = 0;
            let id = *fx.chains[c].last().unwrap();
            let (path, ct) = match route {
                Route::AddVersion => (format!("/v1/client/add-version/{id}"), CT_HISTORY),
                _ => (format!("/v1/client/add-snapshot/{id}"), CT_SNAPSHOT),
            };
            let req = HttpReq::new("POST", &path).header("X-Client-Id", &fx.clients[c].to_string()).header("Content-Type", ct).body_chunks(chunks);
            let resp = fx.subj.http(&req);
            tap(&req, &resp);
            cov.evaluations += 1;
            cov.hit(format!("large:{:?}:{name}:status={}", route, resp.status));
            let after = fx.dump();
            let changed = fx.last_dump.as_ref().map(|b| *b != after).unwrap_or(false);
            fx.last_dump = Some(after);
            let desc = format!("POST {path} with body {name}");
            if resp.failure.is_some() || resp.status >= 500 {
                return Some(found("C15", format!("[{}] {desc} made the server fail: {}", fx.subj.kind.name(), resp.describe()), json!({"origin": "large", "case": name})));
            }
            if ok {
                if resp.status != 200 {
                    return Some(found("C15", format!("{desc} (within the 100 MiB limit) was refused: {}", resp.describe()), json!({"origin": "large", "case": name})));
                }
                if route == Route::AddVersion {
                    if let Some(v) = resp.header("X-Version-Id").and_then(|s| Uuid::parse_str(s).ok()) {
                        fx.chains[c].push(v);
                        fx.ids.push(v);
                    }
                    // read it back: the stored segment must have the uploaded length
                    let rb = fx.subj.http(&HttpReq::new("GET", &format!("/v1/client/get-child-version/{id}")).header("X-Client-Id", &fx.clients[c].to_string()));
                    let want = req.body_len();
                    if rb.status != 200 || rb.body.len() != want {
                        return Some(found("C15", format!("{desc} was accepted but reading it back gives status {} with {} bytes (uploaded {want})", rb.status, rb.body.len()), json!({"origin": "large", "case": name})));
                    }
                }
            } else {
                if !(400..500).contains(&resp.status) {
                    return Some(found("C15", format!("{desc} (above the 100 MiB limit) was answered {} instead of a 4xx", resp.status), json!({"origin": "large", "case": name})));
                }
                if changed {
                    return Some(found("C15", format!("{desc} was refused but stored state changed"), json!({"origin": "large", "case": name})));
                }
            }
        }
    }
    None
}

#[derive(Default)]
pub struct Tally {
    pub by: BTreeMap<String, u64>,
    pub missing: Vec<String>,
}

pub fn route_class(path: &str) -> &'static str {
    if path == "/" {
        "index"
    } else if path.starts_with("/v1/client/add-version/") && path.matches('/').count() == 4 {
        "add-version"
    } else if path.starts_with("/v1/client/get-child-version/") && path.matches('/').count() == 4 {
        "get-child-version"
    } else if path.starts_with("/v1/client/add-snapshot/") && path.matches('/').count() == 4 {
        "add-snapshot"
    } else if path == "/v1/client/snapshot" {
        "get-snapshot"
    } else {
        "unknown-route"
    }
}

/// C15 and C20 share the grammar run; `prop` selects whose oracle reports.
pub fn shard_run_grammar(prop: &str, tier: &str, seed: u64, replay_case: Option<usize>, shard: Shard) -> ShardOut {
    let thorough = tier == "thorough";
    let mut out = ShardOut::default();
    let mut cov = Cov::default();
    let grams = grammar(thorough, seed);
    let backends: Vec<Backend> = vec![Backend::Mem, Backend::Sqlite];
    let tally: Arc<Mutex<Tally>> = Arc::new(Mutex::new(Tally::default()));
    let c20_found: Arc<Mutex<Option<(String, String)>>> = Arc::new(Mutex::new(None));
    let mk_tap = |tally: Arc<Mutex<Tally>>, c20: Arc<Mutex<Option<(String, String)>>>| -> crate::http::Tap {
        Arc::new(move |req: &HttpReq, resp: &HttpResp| {
            if resp.failure.is_some() && resp.status == 0 {
                return;
            }
            let key = format!("{}|{}|{}", route_class(&req.path), req.method, resp.status);
            let mut t = tally.lock().unwrap();
            *t.by.entry(key).or_insert(0) += 1;
            if !no_store(resp) {
                let mut c = c20.lock().unwrap();
                if c.is_none() {
                    *c = Some((req.describe(), resp.describe()));
                }
            }
        })
    };
    // C20 only: a server with an allow-list, so that 403 refusals are produced as well
    if prop == "C20" && replay_case.map(|c| c >= 30_000_000 && c < 40_000_000).unwrap_or(true) {
        let probe_clients = Fixture::new(Backend::Mem, seed, None).map(|f| f.clients.clone());
        if let Ok(cl) = probe_clients {
            let list: HashSet<Uuid> = [cl[0], cl[2]].into_iter().collect();
            if let Ok(mut fx) = Fixture::new(Backend::Mem, seed, Some(list)) {
                fx.subj.set_tap(mk_tap(tally.clone(), c20_found.clone()));
                let mut rng = Rng::new(seed).fork(0xE5A);
                for (gi, g) in grams.iter().enumerate() {
                    let req = g.build(&fx, &mut rng);
                    let mine = match replay_case {
                        Some(c) => c == 30_000_000 + gi,
                        None => shard.mine(gi) && (gi % 3 == 0 || matches!(g.cid, Cid::Unknown)),
                    };
                    if !mine || !crate::http::HttpApp::expressible(&req) {
                        continue;
                    }
                    let req = if gi % 6 == 5 { let (k, v) = ODD_HEADERS[(gi / 6) % ODD_HEADERS.len()]; req.header(k, v) } else { req };
                    let resp = fx.subj.http(&req);
                    cov.evaluations += 1;
                    out.executed += 1;
                    cov.hit(format!("allowlisted-server|{:?}|{}|status={}", g.route, METHODS[g.method], resp.status));
                    if resp.status == 200 && g.route == Route::AddVersion && METHODS[g.method] == "POST" {
                        if let Some(v) = resp.header("X-Version-Id").and_then(|s| Uuid::parse_str(s).ok()) {
                            fx.chains[0].push(v);
                        }
                    }
                    if let Some((rq, rs)) = c20_found.lock().unwrap().clone() {
                        out.found.push(found("C20", format!("[mem/http with allow-list] response to {rq} does not forbid caching (no Cache-Control: no-store): {rs}"), json!({"origin": "grammar-allowlist", "case": 30_000_000 + gi, "gram": g.key()})));
                        out.cov = cov;
                        return out;
                    }
                }
            }
        }
    }
    for (bi, backend) in backends.iter().enumerate() {
        // the SQLite fixture sees a tenth of the grammar in quick mode (requests that reach the
        // storage cost ~100x more there)
        let mut fx = match Fixture::new(*backend, seed, None) {
            Ok(f) => f,
            Err(e) => {
                out.errors.push(format!("fixture: {e:#}"));
                continue;
            }
        };
        fx.subj.set_tap(mk_tap(tally.clone(), c20_found.clone()));
        let mut rng = Rng::new(seed).fork(0xE5 + bi as u64);
        for (gi, g) in grams.iter().enumerate() {
            let case = bi * 10_000_000 + gi;
            match replay_case {
                Some(c) => {
                    if c != case {
                        // still build the request to keep the rng stream aligned
                        let _ = g.build(&fx, &mut rng);
                        continue;
                    }
                }
                None => {
                    let _unused = ();
                    if !shard.mine(gi) {
                        let _ = g.build(&fx, &mut rng);
                        continue;
                    }
                    if *backend == Backend::Sqlite && !thorough && gi % 7 != 0 && g.class() != Class::MustServe {
                        let _ = g.build(&fx, &mut rng);
                        continue;
                    }
                }
            }
            let mut req = g.build(&fx, &mut rng);
            if !crate::http::HttpApp::expressible(&req) {
                cov.count("not_expressible_in_process", 1);
                continue;
            }
            // legal but unusual request headers (content negotiation, conditional requests)
            let odd = gi % 6 == 5;
            if odd {
                let (k, v) = ODD_HEADERS[(gi / 6) % ODD_HEADERS.len()];
                req = req.header(k, v);
            }
            out.executed += 1;
            let (resp, problem) = exec_and_judge(&mut fx, g, &req, &mut cov);
            // such headers may legitimately change a status (e.g. 406): only the universal rules
            // (no 5xx, state changes only on a 200 POST to an add route) are kept for them
            let problem = if odd { problem.filter(|m| m.contains("server error") || m.contains("made the server fail") || m.contains("stored state changed")) } else { problem };
            if odd {
                cov.hit(format!("odd-header|status={}", resp.status));
            }
            if cov.samples.is_empty() || (cov.samples.len() < 4 && gi % 997 == 3) {
                cov.samples.push(json!({"request": req.describe(), "class": format!("{:?}", g.class()), "response_status": resp.status, "cache_control": resp.header("cache-control")}));
            }
            if prop == "C15" {
                if let Some(m) = problem {
                    out.found.push(found("C15", format!("[{}] {m}", fx.subj.kind.name()), json!({"origin": "grammar", "case": case, "gram": g.key()})));
                    out.cov = cov;
                    return out;
                }
            }
            if prop == "C20" {
                if let Some((rq, rs)) = c20_found.lock().unwrap().clone() {
                    out.found.push(found("C20", format!("[{}] response to {rq} does not forbid caching (no Cache-Control: no-store): {rs}", fx.subj.kind.name()), json!({"origin": "grammar", "case": case, "gram": g.key()})));
                    out.cov = cov;
                    return out;
                }
            }
        }
        // 5xx on purpose (C20): every route with a failing storage
        if replay_case.is_none() && shard.k == 0 {
            fx.hook.fail.store(true, Ordering::SeqCst);
            let k = fx.clients[0].to_string();
            let id = *fx.chains[0].last().unwrap();
            let reqs = vec![
                HttpReq::new("POST", &format!("/v1/client/add-version/{id}")).header("X-Client-Id", &k).header("Content-Type", CT_HISTORY).body(vec![1]),
                HttpReq::new("GET", &format!("/v1/client/get-child-version/{id}")).header("X-Client-Id", &k),
                HttpReq::new("POST", &format!("/v1/client/add-snapshot/{id}")).header("X-Client-Id", &k).header("Content-Type", CT_SNAPSHOT).body(vec![1]),
                HttpReq::new("GET", "/v1/client/snapshot").header("X-Client-Id", &k),
            ];
            for r in reqs {
                let resp = fx.subj.http(&r);
                cov.evaluations += 1;
                cov.hit(format!("forced-5xx|{}|status={}", route_class(&r.path), resp.status));
            }
            fx.hook.fail.store(false, Ordering::SeqCst);
            if prop == "C20" {
                if let Some((rq, rs)) = c20_found.lock().unwrap().clone() {
                    out.found.push(found("C20", format!("response to {rq} (storage failing on purpose) does not forbid caching: {rs}"), json!({"origin": "forced-5xx", "case": 0})));
                    out.cov = cov;
                    return out;
                }
            }
        }
        if replay_case.is_none() && shard.k == (5 % shard.n) && prop == "C20" {
            let k = fx.clients[0].to_string();
            let id = *fx.chains[0].last().unwrap();
            for r in operational_requests(&k, id) {
                let resp = fx.subj.http(&r);
                cov.evaluations += 1;
                cov.hit(format!("operational|{}|status={}", if r.method == "OPTIONS" { "preflight-or-options" } else { "well-known-path" }, resp.status));
            }
            if let Some((rq, rs)) = c20_found.lock().unwrap().clone() {
                out.found.push(found("C20", format!("[{}] response to {rq} does not forbid caching: {rs}", fx.subj.kind.name()), json!({"origin": "operational", "case": 0})));
                out.cov = cov;
                return out;
            }
        }
        if replay_case.is_none() && shard.k == (4 % shard.n) && prop == "C15" {
            if let Some(f) = broken_body_cases(&mut fx, &mut cov) {
                out.found.push(f);
                out.cov = cov;
                return out;
            }
        }
        // the 100 MiB cases: one worker, in-memory backend (thorough: SQLite as well)
        // the 100 MiB cases: in-memory backend on one worker, SQLite on another (quick: only the body
        // of exactly the limit on SQLite)
        if replay_case.is_none() && shard.k == (if *backend == Backend::Mem { 1 } else { 6 } % shard.n) && prop == "C15" {
            let t2 = tally.clone();
            let c2 = c20_found.clone();
            let tapf = mk_tap(t2, c2);
            let mut tapm = |a: &HttpReq, b: &HttpResp| tapf(a, b);
            let only: Option<&[&str]> = if *backend == Backend::Sqlite && !thorough { Some(&["limit/one-chunk", "limit-1/one-chunk"]) } else { None };
            if let Some(f) = large_body_cases(&mut fx, &mut cov, &mut tapm, only) {
                out.found.push(f);
                out.cov = cov;
                return out;
            }
        }
    }
    // ---- a sample of the grammar over a real socket (actix's HTTP/1 codec in the path), including
    // requests the in-process request type cannot express
    if replay_case.is_none() && shard.k == (2 % shard.n) {
        if let Some(f) = socket_sample(prop, seed, if thorough { 6000 } else { 400 }, &grams, &mut cov, &mut out.errors) {
            out.found.push(f);
            out.cov = cov;
            return out;
        }
    }
    if replay_case.is_none() && shard.k == (3 % shard.n) {
        if let Some(f) = binary_sample(prop, seed, if thorough { 2000 } else { 200 }, &grams, &mut cov, &mut out.errors) {
            out.found.push(f);
            out.cov = cov;
            return out;
        }
    }
    // ---- C15: a body far above the limit, streamed to the real executable running under a memory
    // limit (a container): refused or cut off, and the server is still there afterwards
    if prop == "C15" && replay_case.map(|c| c == 60_000_000).unwrap_or(shard.k == (4 % shard.n)) {
        if let Some(f) = limited_memory_oversize(&mut cov, &mut out.errors) {
            out.found.push(f);
            out.cov = cov;
            return out;
        }
    }
    // ---- conditional and range requests on the download routes
    if prop == "C20" && replay_case.map(|c| c == 70_000_000).unwrap_or(shard.k == (5 % shard.n)) {
        if let Some(f) = conditional_download_part("C20", seed, &mut cov) {
            out.found.push(f);
            out.cov = cov;
            return out;
        }
    }
    // C20 also rides on protocol histories (all outcome kinds through the handlers)
    if prop == "C20" && replay_case.is_none() {
        let n_hist = if thorough { 600 } else { 120 };
        for i in 0..n_hist {
            if !shard.mine(i) {
                continue;
            }
            let h = crate::gen::generate(Rng::new(seed).fork(0xC20 + i as u64).next_u64(), &crate::gen::GenProfile::default());
            for kind in [Kind::MEM_HTTP, Kind::SQL_HTTP] {
                let mut subj = match Subject::new(kind, Config { snapshot_days: 14, snapshot_versions: 4 }) {
                    Ok(s) => s,
                    Err(_) => continue,
                };
                subj.set_tap(mk_tap(tally.clone(), c20_found.clone()));
                let r = crate::e1::Runner::new(&mut subj, &h, crate::e1::Monitors::default());
                let o = r.run();
                cov.evaluations += o.cov.evaluations;
                if let Some((rq, rs)) = c20_found.lock().unwrap().clone() {
                    out.found.push(found("C20", format!("[{}] response to {rq} does not forbid caching: {rs}", kind.name()), json!({"origin": "history", "case": 20_000_000 + i})));
                    out.cov = cov;
                    return out;
                }
            }
        }
    }
    for (k, v) in tally.lock().unwrap().by.iter() {
        *cov.situations.entry(format!("resp|{k}")).or_insert(0) += *v;
    }
    out.cov = cov;
    out
}

pub fn finalize_grammar(prop: &str, tier: &str, out: ShardOut, is_replay: bool) -> CheckResult {
    let cov = out.cov;
    let mut top: Vec<(&String, &u64)> = cov.situations.iter().collect();
    top.sort_by(|a, b| b.1.cmp(a.1));
    let statuses: HashSet<String> = cov.situations.keys().filter(|k| k.starts_with("resp|")).map(|k| k.rsplit('|').next().unwrap().to_string()).collect();
    let rule = if prop == "C15" {
        "grammar product route x method x client-id form x path-id form x content-type form x body class (dull corners sampled), executed in-process against servers holding 3 clients with chains and snapshots on both backends; each request is classified must-refuse / must-serve / ambiguous from the statement; universal rules: never 5xx/panic, stored state (full dump) changes only on a 200 POST to an add route; must-refuse => 4xx and unchanged state; bodies of limit-1, limit (one chunk, 1 MiB chunks) accepted and read back, limit+1 (one chunk, many chunks, limit then 1 byte) refused; uploads whose body transfer breaks off after 0/1/2/all chunks (known and never-seen clients) must be refused and change nothing; chunked uploads of 4 GiB on both upload routes to the real executable running under a 3 GiB address-space limit (refused or cut off, the process stays alive and serves, nothing stored). distinct_nontrivial = distinct (route, method, class, status) plus response tallies."
    } else {
        "every response produced by the grammar run (all routes, methods, refusals, unknown routes), by protocol histories through the handlers (200/404/409/410) and by requests against a storage that fails on purpose (500) is inspected by a tap in the HTTP client layer: Cache-Control must contain the no-store directive; so must every answer to conditional and range requests (If-None-Match with the version id quoted / weak / in a list / `*`, If-Match, If-(Un)Modified-Since, Range in all forms; GET and HEAD) on both download routes for clients that have versions and a snapshot. distinct_nontrivial = distinct (route class, method, status) triples observed."
    };
    let coverage = json!({
        "evaluations": cov.evaluations,
        "distinct_nontrivial": cov.situations.len(),
        "rule": rule,
        "samples": cov.samples,
        "requests_executed": out.executed,
        "statuses_observed": statuses.iter().cloned().collect::<Vec<_>>(),
        "counters": cov.counters,
        "situations_top": top.iter().take(50).map(|(k, v)| json!({"situation": k, "n": v})).collect::<Vec<_>>(),
        "process_level_situations": cov.situations.iter().filter(|(k, _)| k.starts_with("memory-limited-executable|") || k.starts_with("stalled-oversize|") || k.starts_with("slow-storage|") || k.starts_with("conditional|") || k.starts_with("announced-") || k.contains("|long-stall|")).map(|(k, v)| json!({"situation": k, "n": v})).collect::<Vec<_>>(),
    });
    let mut required: Vec<&str> = vec!["status=200", "status=400", "status=404"];
    if prop == "C15" {
        required.extend(["broken-body:AddVersion:error-after-1-chunk", "broken-body:AddSnapshot:error-after-2-chunks", "large:AddVersion:limit/one-chunk:status=200", "large:AddVersion:limit+1/one-chunk:status=400", "large:AddSnapshot:limit+1/limit-then-1:status=400", "MustRefuse", "MustServe", "Ambiguous", "memory-limited-executable|add-snapshot", "memory-limited-executable|add-version"]);
    } else {
        required.extend(["|409", "|410", "|500", "|403", "unknown-route|", "conditional|snapshot|GET|If-None-Match", "conditional|get-child-version|GET|Range", "conditional|snapshot|HEAD|If-Modified-Since"]);
    }
    let verdict = if !out.found.is_empty() {
        Verdict::Violated(out.found)
    } else if !out.errors.is_empty() {
        Verdict::Inconclusive(out.errors.join("; "))
    } else if !is_replay {
        match crate::evidence::require(&cov.situations, &required) {
            Some(r) => Verdict::Inconclusive(r),
            None => Verdict::Held,
        }
    } else {
        Verdict::Held
    };
    CheckResult {
        verdict,
        coverage,
        assumptions: vec![
            "requests are delivered in-process to the application service (actix's HTTP/1 codec is exercised separately over sockets); requests the in-process request type cannot express are counted, not judged".into(),
            "alternative spellings of a valid UUID, HEAD/OPTIONS, path near-misses and case/parameter variants of the content type are 'ambiguous': only the universal rules apply".into(),
        ],
        level: "exploration",
        notes: vec![],
    }
}

// ------------------------------------------------------------------------------------------
// C16

#[derive(Clone, Copy, Debug, PartialEq, Eq)]
enum IdClass {
    Listed,
    UnlistedWithData,
    UnlistedUnknown,
    Malformed,
    AltListed(u8),
    AltUnlisted(u8),
    /// no X-Client-Id at all; the (unlisted) id travels under another header name
    OtherHeader(u8),
    /// an unlisted id that is bit-wise close or related to a listed one (halves swapped, one bit
    /// flipped, bytes reversed, complement, both halves changed by the same pattern, ...)
    NearListed(u8),
}

const NEAR_FORMS: u8 = 8;

fn near_id(listed: Uuid, form: u8) -> Uuid {
    let x = listed.as_u128();
    let y = match form {
        0 => (x << 64) | (x >> 64),
        1 => x ^ 1,
        2 => x ^ (1u128 << 127),
        3 => u128::from_le_bytes(x.to_be_bytes()),
        4 => !x,
        5 => x ^ ((0x5a5a_0000_1234_5678u128 << 64) | 0x5a5a_0000_1234_5678u128),
        6 => x ^ (0xffu128 << 64),
        _ => x.wrapping_add(1),
    };
    let y = if y == x { x ^ 2 } else { y };
    Uuid::from_u128(y)
}

const OTHER_ID_HEADERS: [&str; 6] = ["X-Client-Key", "Client-Id", "X-ClientId", "X-Client", "Authorization", "Cookie"];

#[derive(Clone, Copy, Debug, PartialEq, Eq)]
enum Validity {
    WellFormed,
    BadContentType,
    EmptyBody,
}

fn alt_spelling(u: Uuid, form: u8) -> String {
    match form % 4 {
        0 => u.to_string().to_uppercase(),
        1 => format!("{{{u}}}"),
        2 => format!("urn:uuid:{u}"),
        _ => u.simple().to_string(),
    }
}

fn c16_request(fx: &Fixture, endpoint: usize, idtext: &str, owner: usize, validity: Validity, nil_path: bool) -> HttpReq {
    let chain = &fx.chains[owner];
    let latest = if nil_path { Uuid::nil() } else { *chain.last().unwrap() };
    let first = if nil_path { Uuid::nil() } else { chain[0] };
    let (method, path, ct) = match endpoint {
        0 => ("POST", format!("/v1/client/add-version/{latest}"), Some(CT_HISTORY)),
        1 => ("GET", format!("/v1/client/get-child-version/{first}"), None),
        2 => ("POST", format!("/v1/client/add-snapshot/{latest}"), Some(CT_SNAPSHOT)),
        _ => ("GET", "/v1/client/snapshot".to_string(), None),
    };
    let mut r = HttpReq::new(method, &path).header("X-Client-Id", idtext);
    if let Some(ct) = ct {
        match validity {
            Validity::BadContentType => r = r.header("Content-Type", "text/plain").body(vec![1, 2, 3]),
            Validity::EmptyBody => r = r.header("Content-Type", ct),
            Validity::WellFormed => r = r.header("Content-Type", ct).body(vec![1, 2, 3]),
        }
    }
    r
}

pub fn shard_run_c16(tier: &str, seed: u64, replay_case: Option<usize>, shard: Shard) -> ShardOut {
    let thorough = tier == "thorough";
    let mut out = ShardOut::default();
    let mut cov = Cov::default();
    let mut case = 0usize;
    for backend in [Backend::Mem, Backend::Sqlite] {
        for list_kind in 0..4usize {
            case += 1;
            if let Some(c) = replay_case {
                if c / 1000 != case {
                    continue;
                }
            } else if !shard.mine(case) {
                continue;
            }
            // twin without a list: same construction, used for "served exactly as if no list existed"
            let mut twin = match Fixture::new(backend, seed, None) {
                Ok(f) => f,
                Err(e) => {
                    let m = format!("{e:#}");
                    if m.contains("add-version failed: 4") || m.contains("add-snapshot failed: 4") {
                        // building the server's state uses only well-formed requests with well-formed
                        // client ids and no allow-list in force
                        out.found.push(found("C16", format!("with no allow-list configured a well-formed request carrying a well-formed client id was refused while building the test state: {m}"), json!({"origin": "c16-fixture", "case": case})));
                        out.cov = cov;
                        return out;
                    }
                    out.errors.push(format!("fixture: {m}"));
                    continue;
                }
            };
            let probe = match Fixture::new(backend, seed, None) {
                Ok(f) => f,
                Err(e) => {
                    out.errors.push(format!("fixture: {e:#}"));
                    continue;
                }
            };
            let a = probe.clients[0];
            let b = probe.clients[2];
            let nodata = Rng::new(seed).fork(0xC16).uuid_any();
            let list: Option<HashSet<Uuid>> = match list_kind {
                0 => None,
                1 => Some(HashSet::new()),
                2 => Some([a].into_iter().collect()),
                _ => Some([a, b, nodata].into_iter().collect()),
            };
            drop(probe);
            let mut fx = match Fixture::new(backend, seed, list.clone()) {
                Ok(f) => f,
                Err(e) => {
                    out.errors.push(format!("fixture: {e:#}"));
                    continue;
                }
            };
            let unlisted_data = fx.clients[1];
            let unknown = Rng::new(seed).fork(0xC16 + 1).uuid_any();
            let mut classes = vec![IdClass::Listed, IdClass::UnlistedWithData, IdClass::UnlistedUnknown, IdClass::Malformed];
            for f in 0..4u8 {
                classes.push(IdClass::AltListed(f));
                classes.push(IdClass::AltUnlisted(f));
            }
            for f in 0..OTHER_ID_HEADERS.len() as u8 {
                classes.push(IdClass::OtherHeader(f));
            }
            for f in 0..NEAR_FORMS {
                classes.push(IdClass::NearListed(f));
            }
            let mut sub = 0usize;
            for endpoint in 0..4usize {
                for idc in &classes {
                    for (validity, nil_path) in [(Validity::WellFormed, false), (Validity::BadContentType, false), (Validity::EmptyBody, false), (Validity::WellFormed, true)] {
                        if (endpoint == 1 || endpoint == 3) && validity != Validity::WellFormed {
                            continue;
                        }
                        if nil_path && endpoint == 3 {
                            continue;
                        }
                        sub += 1;
                        if let Some(c) = replay_case {
                            if c % 1000 != sub {
                                continue;
                            }
                        }
                        let listed_id = a;
                        let in_list = |u: &Uuid| list.as_ref().map(|l| l.contains(u)).unwrap_or(true);
                        // (text of the header, which fixture client's chain to quote, whether the id is effectively allowed)
                        let (idtext, owner, subject_id): (String, usize, Option<Uuid>) = match idc {
                            IdClass::Listed => (listed_id.to_string(), 0, Some(listed_id)),
                            IdClass::UnlistedWithData => (unlisted_data.to_string(), 1, Some(unlisted_data)),
                            IdClass::UnlistedUnknown => (unknown.to_string(), 1, Some(unknown)),
                            IdClass::Malformed => ("this-is-not-a-uuid".to_string(), 0, None),
                            IdClass::AltListed(f) => (alt_spelling(listed_id, *f), 0, Some(listed_id)),
                            IdClass::AltUnlisted(f) => (alt_spelling(unlisted_data, *f), 1, Some(unlisted_data)),
                            IdClass::OtherHeader(_) => (unlisted_data.to_string(), 1, Some(unlisted_data)),
                            IdClass::NearListed(f) => {
                                let n = near_id(listed_id, *f);
                                (n.to_string(), 1, Some(n))
                            }
                        };
                        let mut req = c16_request(&fx, endpoint, &idtext, owner, validity, nil_path);
                        let mut treq = c16_request(&twin, endpoint, &idtext, owner, validity, nil_path);
                        if let IdClass::OtherHeader(f) = idc {
                            let name = OTHER_ID_HEADERS[*f as usize];
                            let val = match name {
                                "Authorization" => format!("Bearer {idtext}"),
                                "Cookie" => format!("client_id={idtext}"),
                                _ => idtext.clone(),
                            };
                            for r in [&mut req, &mut treq] {
                                r.headers.retain(|(k, _)| k != "X-Client-Id");
                                r.headers.push((name.to_string(), val.as_bytes().to_vec()));
                            }
                        }
                        fx.hook.log.take();
                        let before = fx.dump();
                        let resp = fx.subj.http(&req);
                        let accesses = fx.hook.log.take().len();
                        let after = fx.dump();
                        let changed = before != after;
                        cov.evaluations += 1;
                        out.executed += 1;
                        let allowed = subject_id.map(|u| in_list(&u)).unwrap_or(false);
                        let ctx = format!("[{} list={}] {}", fx.subj.kind.name(), match list_kind { 0 => "absent", 1 => "empty", 2 => "one", _ => "many" }, req.describe());
                        cov.hit(format!("list={}|ep={}|{:?}|{:?}|status={}|access={}", list_kind, endpoint, match idc { IdClass::AltListed(_) => IdClass::AltListed(0), IdClass::AltUnlisted(_) => IdClass::AltUnlisted(0), IdClass::OtherHeader(_) => IdClass::OtherHeader(0), IdClass::NearListed(_) => IdClass::NearListed(0), o => *o }, validity, resp.status, accesses > 0));
                        if cov.samples.is_empty() || (cov.samples.len() < 4 && sub % 13 == 5) {
                            cov.samples.push(json!({"context": ctx, "status": resp.status, "storage_accesses": accesses, "state_changed": changed}));
                        }
                        let rep = json!({"origin": "c16-matrix", "case": case * 1000 + sub});
                        let mut bad: Option<String> = None;
                        if resp.failure.is_some() || resp.status >= 500 {
                            bad = Some(format!("{ctx}: server failed: {}", resp.describe()));
                        }
                        let canonical = matches!(idc, IdClass::Listed | IdClass::UnlistedWithData | IdClass::UnlistedUnknown | IdClass::NearListed(_));
                        let alt = matches!(idc, IdClass::AltListed(_) | IdClass::AltUnlisted(_) | IdClass::OtherHeader(_));
                        if bad.is_none() {
                            if *idc == IdClass::Malformed {
                                if !(400..500).contains(&resp.status) || accesses > 0 || changed {
                                    bad = Some(format!("{ctx}: malformed client id answered {} with {accesses} storage accesses (state changed: {changed})", resp.status));
                                }
                            } else if !allowed {
                                // any other client id than the listed ones
                                if canonical && validity == Validity::WellFormed && resp.status != 403 {
                                    bad = Some(format!("{ctx}: client id is not on the allow-list but the request was answered {} instead of 403", resp.status));
                                } else if !(400..500).contains(&resp.status) {
                                    bad = Some(format!("{ctx}: client id is not on the allow-list but the request was answered {}", resp.status));
                                } else if accesses > 0 {
                                    bad = Some(format!("{ctx}: refused request still made {accesses} storage accesses (must not read or change stored state)"));
                                } else if changed {
                                    bad = Some(format!("{ctx}: refused request changed stored state: {}", before.diff(&after)));
                                }
                            } else {
                                // allowed (listed, or no list): must be served exactly as on a server without a list
                                let tresp = twin.subj.http(&treq);
                                let refused_alt = alt && (400..500).contains(&resp.status) && !changed;
                                if resp.status == 403 && canonical {
                                    bad = Some(format!("{ctx}: client id is allowed but the request was refused with 403"));
                                } else if resp.status != tresp.status && !refused_alt {
                                    bad = Some(format!("{ctx}: answered {} but the same request on a server without an allow-list is answered {}", resp.status, tresp.status));
                                }
                                // keep both fixtures' chains current
                                for (f, r) in [(&mut fx, &resp), (&mut twin, &tresp)] {
                                    if endpoint == 0 && r.status == 200 {
                                        if let Some(v) = r.header("X-Version-Id").and_then(|s| Uuid::parse_str(s).ok()) {
                                            f.chains[owner].push(v);
                                            f.ids.push(v);
                                        }
                                    }
                                }
                            }
                        }
                        if let Some(m) = bad {
                            out.found.push(found("C16", m, rep));
                            out.cov = cov;
                            return out;
                        }
                    }
                }
            }
            // ---- other spellings of the same requests, sent by clients that are not on the list:
            // a percent-encoded character anywhere in the route (the router decodes it), and several
            // client-id headers or values of which one names a listed client. Whatever the server
            // makes of them, nothing may be read or written on behalf of an unlisted client id, no
            // stored state may change, and the answer is a refusal.
            if list_kind >= 2 && replay_case.map(|c| c % 1000 == 999).unwrap_or(true) {
                let listed_id = a;
                for endpoint in 0..4usize {
                    let base = c16_request(&fx, endpoint, &unlisted_data.to_string(), 1, Validity::WellFormed, false);
                    let mut variants: Vec<(&'static str, HttpReq)> = vec![];
                    let path = base.path.clone();
                    for (i, ch) in path.char_indices() {
                        if i == 0 || !(ch.is_ascii_alphanumeric() || ch == '-') {
                            continue;
                        }
                        // every position of the route words, every fifth of the id
                        let in_id = endpoint != 3 && i > path.rfind('/').unwrap_or(0);
                        if in_id && i % 5 != 0 {
                            continue;
                        }
                        let enc = if i % 2 == 0 { format!("%{:02X}", ch as u8) } else { format!("%{:02x}", ch as u8) };
                        let mut r = base.clone();
                        r.path = format!("{}{}{}", &path[..i], enc, &path[i + 1..]);
                        variants.push(("percent-encoded-route-character", r));
                    }
                    let (u, l) = (unlisted_data.to_string(), listed_id.to_string());
                    for (label, vals) in [
                        ("two-client-id-headers:unlisted-first", vec![u.clone(), l.clone()]),
                        ("two-client-id-headers:unlisted-last", vec![l.clone(), u.clone()]),
                        ("folded-client-id-header:unlisted-first", vec![format!("{u}, {l}")]),
                        ("folded-client-id-header:unlisted-last", vec![format!("{l},{u}")]),
                        ("three-client-id-headers", vec![unknown.to_string(), l.clone(), u.clone()]),
                    ] {
                        let mut r = base.clone();
                        r.headers.retain(|(k, _)| k != "X-Client-Id");
                        for v in vals {
                            r.headers.push(("X-Client-Id".to_string(), v.into_bytes()));
                        }
                        variants.push((label, r));
                    }
                    for (label, req) in variants {
                        fx.hook.log.take();
                        let before = fx.dump();
                        let resp = fx.subj.http(&req);
                        let events = fx.hook.log.take();
                        let after = fx.dump();
                        if resp.failure.as_deref() == Some("not expressible in-process") {
                            continue;
                        }
                        cov.evaluations += 1;
                        out.executed += 1;
                        let for_unlisted = events.iter().filter(|e| e.client == unlisted_data || e.client == unknown).count();
                        let only_unlisted_named = !label.contains("client-id-header");
                        cov.hit(format!("list={}|ep={}|{label}|status={}|access-for-unlisted={}", list_kind, endpoint, resp.status, for_unlisted.min(1)));
                        let ctx = format!("[{} list={}] {}", fx.subj.kind.name(), if list_kind == 2 { "one" } else { "many" }, req.describe());
                        let mut bad = None;
                        if resp.failure.is_some() || resp.status >= 500 {
                            bad = Some(format!("{ctx}: server failed: {}", resp.describe()));
                        } else if for_unlisted > 0 {
                            bad = Some(format!("{ctx}: answered {} after {for_unlisted} storage accesses on behalf of a client id that is not on the allow-list", resp.status));
                        } else if before != after && (only_unlisted_named || before.diff(&after).contains(&u)) {
                            bad = Some(format!("{ctx}: answered {}, and stored state changed: {}", resp.status, before.diff(&after)));
                        } else if only_unlisted_named && !(400..500).contains(&resp.status) {
                            bad = Some(format!("{ctx}: the only client id named is not on the allow-list but the request was answered {}", resp.status));
                        }
                        if let Some(m) = bad {
                            out.found.push(found("C16", m, json!({"origin": "c16-spellings", "case": case * 1000 + 999})));
                            out.cov = cov;
                            return out;
                        }
                        // a request served under the listed id may have appended to its chain
                        if resp.status == 200 && endpoint == 0 {
                            if let Some(v) = resp.header("X-Version-Id").and_then(|s| Uuid::parse_str(s).ok()) {
                                fx.chains[0].push(v);
                                fx.ids.push(v);
                            }
                        }
                    }
                }
            }
        }
    }
    // the real executable with an allow-list, at every log level: listed clients served, others refused
    if replay_case.is_none() && shard.mine(4) {
        use crate::http::{socket_request, Framing};
        use std::time::Duration;
        match crate::net::server_bin() {
            None => out.errors.push("the server executable is not built".into()),
            Some(bin) => {
                let mut rng = Rng::new(seed).fork(0xC16B);
                for (li, level) in ["info", "debug", "warn", "trace", "error", ""].iter().enumerate() {
                    let listed: Vec<Uuid> = (0..1 + li % 3).map(|_| rng.uuid_any()).collect();
                    let stranger = rng.uuid_any();
                    let dir = crate::scratch::ScratchDir::new("c16bin");
                    let Some(port) = crate::net::free_port() else { continue };
                    let addr = format!("127.0.0.1:{port}");
                    let mut args: Vec<String> = vec!["--listen".into(), addr.clone(), "--data-dir".into(), dir.path().to_string_lossy().to_string()];
                    let mut env: Vec<(String, String)> = vec![];
                    if li % 2 == 0 {
                        for id in &listed {
                            args.push("--allow-client-id".into());
                            args.push(id.to_string());
                        }
                    } else {
                        env.push(("CLIENT_ID".into(), listed.iter().map(|i| i.to_string()).collect::<Vec<_>>().join(",")));
                    }
                    env.push(("RUST_LOG".into(), level.to_string()));
                    let Ok(mut proc) = crate::net::Proc::start(&bin, &args, &env, &[addr.clone()], Duration::from_secs(20)) else { continue };
                    let nil = Uuid::nil();
                    for (who, id, want_served) in listed.iter().map(|i| ("listed", *i, true)).chain([("unlisted", stranger, false)]) {
                        let reqs = [
                            HttpReq::new("GET", &format!("/v1/client/get-child-version/{nil}")).header("X-Client-Id", &id.to_string()),
                            HttpReq::new("POST", &format!("/v1/client/add-version/{nil}")).header("X-Client-Id", &id.to_string()).header("Content-Type", CT_HISTORY).body(vec![1, 2, 3]),
                            HttpReq::new("GET", "/v1/client/snapshot").header("X-Client-Id", &id.to_string()),
                        ];
                        for r in reqs {
                            let resp = socket_request(&addr, &r, Framing::ContentLength, Duration::from_secs(20));
                            cov.evaluations += 1;
                            cov.hit(format!("executable|RUST_LOG={level}|{who}|status={}", resp.status));
                            let bad = if want_served { resp.status == 403 || resp.status >= 500 || resp.failure.is_some() } else { resp.status != 403 };
                            if bad {
                                proc.kill9();
                                out.found.push(found("C16", format!("the real executable with RUST_LOG={level:?} and the allow-list {:?}: {} of the {who} client {id} was answered {}", listed, r.describe(), resp.describe()), json!({"origin": "c16-executable", "case": li})));
                                out.cov = cov;
                                return out;
                            }
                        }
                    }
                    proc.kill9();
                }
            }
        }
    }
    // a listed client's oversized upload: refused exactly as on a server without a list
    if replay_case.is_none() && shard.mine(3) {
        let probe = Fixture::new(Backend::Mem, seed, None);
        if let Ok(probe) = probe {
            let a = probe.clients[0];
            drop(probe);
            if let (Ok(mut fx), Ok(mut twin)) = (Fixture::new(Backend::Mem, seed, Some([a].into_iter().collect())), Fixture::new(Backend::Mem, seed, None)) {
                for (route, ct) in [("add-version", CT_HISTORY), ("add-snapshot", CT_SNAPSHOT)] {
                    let mk = |f: &Fixture| HttpReq::new("POST", &format!("/v1/client/{route}/{}", f.chains[0].last().unwrap())).header("X-Client-Id", &a.to_string()).header("Content-Type", ct).body(vec![3u8; LIMIT + 1]);
                    let (r1, r2) = (fx.subj.http(&mk(&fx)), twin.subj.http(&mk(&twin)));
                    cov.evaluations += 2;
                    cov.hit(format!("listed-client-oversized-upload|{route}|status={}", r1.status));
                    if r1.status != r2.status {
                        out.found.push(found("C16", format!("a listed client's {route} upload of one byte more than 100 MiB was answered {} on the server with an allow-list but {} on a server without one", r1.status, r2.status), json!({"origin": "c16-oversized", "case": 0})));
                        out.cov = cov;
                        return out;
                    }
                }
            }
        }
    }
    // listed clients' histories: server with a list vs server without
    let n_hist = if thorough { 1200 } else { 180 };
    for i in 0..n_hist {
        if replay_case.is_some() || !shard.mine(i) {
            continue;
        }
        let h = crate::gen::generate(Rng::new(seed).fork(0xC16_000 + i as u64).next_u64(), &crate::gen::GenProfile { max_ops: 60, ..Default::default() });
        for kind in [Kind::MEM_HTTP, Kind::SQL_HTTP] {
            let cfg = Config { snapshot_days: 14, snapshot_versions: 4 };
            let ids: HashSet<Uuid> = (0..h.n_clients).map(|c| crate::e1::client_uuid(h.seed, c)).chain([Uuid::new_v4()]).collect();
            let (mut s1, mut s2) = match (Subject::with(kind, cfg, Some(ids), None), Subject::new(kind, cfg)) {
                (Ok(a), Ok(b)) => (a, b),
                _ => continue,
            };
            let o1 = crate::e1::Runner::new(&mut s1, &h, crate::e1::Monitors::default()).run();
            let o2 = crate::e1::Runner::new(&mut s2, &h, crate::e1::Monitors::default()).run();
            cov.evaluations += o1.cov.evaluations;
            cov.count("listed_vs_listless_histories", 1);
            for t in 0..o1.abs.len().min(o2.abs.len()) {
                cov.count("listed_vs_listless_comparisons", 1);
                if o1.abs[t] != o2.abs[t] {
                    out.found.push(found("C16", format!("[{}] op #{t} ({}) of a listed client answered {} on the server with an allow-list but {} on a server without one", kind.name(), h.ops[t].kind_name(), o1.abs[t].0, o2.abs[t].0), json!({"origin": "c16-history", "case": 5_000_000 + i, "history": crate::e1::history_json(&h)})));
                    out.cov = cov;
                    return out;
                }
            }
        }
    }
    out.cov = cov;
    out
}

pub fn finalize_c16(out: ShardOut, is_replay: bool) -> CheckResult {
    let cov = out.cov;
    let mut top: Vec<(&String, &u64)> = cov.situations.iter().collect();
    top.sort_by(|a, b| b.1.cmp(a.1));
    let coverage = json!({
        "evaluations": cov.evaluations,
        "distinct_nontrivial": cov.situations.len(),
        "rule": "enumerated matrix allow-list {absent, empty, one, many} x 4 endpoints x client id {listed, unlisted owning data from before the list, unlisted unknown, malformed, 4 alternative spellings of a listed / of an unlisted id} x {well-formed, bad content type, empty body} on both backends; an AccessLog wrapper around the storage counts every txn() and call made while the request is handled and full dumps frame it; allowed requests are compared with the same request on a twin server without a list; plus histories of listed clients on a listed vs a list-less server. distinct_nontrivial = distinct (list, endpoint, id class, validity, status, storage accessed) tuples.",
        "samples": cov.samples,
        "exhaustive": true,
        "matrix_requests": out.executed,
        "counters": cov.counters,
        "situations_top": top.iter().take(40).map(|(k, v)| json!({"situation": k, "n": v})).collect::<Vec<_>>(),
    });
    let required = ["list=0|", "list=1|", "list=2|", "list=3|", "UnlistedWithData|WellFormed|status=403|access=false", "Malformed", "AltListed", "AltUnlisted"];
    let verdict = if !out.found.is_empty() {
        Verdict::Violated(out.found)
    } else if !out.errors.is_empty() {
        Verdict::Inconclusive(out.errors.join("; "))
    } else if !is_replay {
        match crate::evidence::require(&cov.situations, &required) {
            Some(r) => Verdict::Inconclusive(r),
            None => Verdict::Held,
        }
    } else {
        Verdict::Held
    };
    CheckResult {
        verdict,
        coverage,
        assumptions: vec!["'without reading' is observed at the public Storage trait boundary (any txn() or call counts as an access)".into(), "a doubly-bad request (unlisted id and bad content type) may be answered 400 or 403".into()],
        level: "exploration",
        notes: vec![],
    }
}

/// Grammar sample over TCP against an in-process `HttpServer` (in-memory backend).
fn socket_sample(prop: &str, seed: u64, n: usize, grams: &[Gram], cov: &mut Cov, errors: &mut Vec<String>) -> Option<Found> {
    use crate::net::SockServer;
    use taskchampion_sync_server::WebServer;
    use taskchampion_sync_server_core::InMemoryStorage;
    // a fixture only to obtain ids / request shapes; the socket server has its own storage with the
    // same kind of content built over the socket
    let fx = match Fixture::new(Backend::Mem, seed, None) {
        Ok(f) => f,
        Err(e) => {
            errors.push(format!("fixture: {e:#}"));
            return None;
        }
    };
    let web = WebServer::new(Config { snapshot_days: 14, snapshot_versions: 4 }.to_server(), None, InMemoryStorage::new());
    let srv = match SockServer::start(web, 3) {
        Ok(s) => s,
        Err(e) => {
            errors.push(format!("socket server: {e}"));
            return None;
        }
    };
    if let Some(f) = socket_sample_at(prop, seed, n, grams, cov, &fx, &srv.addr, "over a real socket") {
        return Some(f);
    }
    if let Some(f) = many_in_flight(prop, &srv.addr, seed, cov, "an in-process HttpServer") {
        return Some(f);
    }
    if let Some(f) = announced_oversize(prop, &srv.addr, cov, "an in-process HttpServer") {
        return Some(f);
    }
    if prop == "C15" {
        // an upload declared one byte above the limit that goes silent for 10.5 s after its first
        // kilobyte and then sends the rest: refused (or cut off), never accepted, nothing stored
        use crate::http::socket_request_two_parts;
        for route in ["add-version", "add-snapshot"] {
            let c = fx.clients[0];
            // the socket server has its own empty storage: give the client a version first
            let first = crate::http::socket_request(&srv.addr, &HttpReq::new("POST", &format!("/v1/client/add-version/{}", Uuid::nil())).header("X-Client-Id", &c.to_string()).header("Content-Type", CT_HISTORY).body(vec![9, 9]), crate::http::Framing::ContentLength, std::time::Duration::from_secs(20));
            let v = first.header("X-Version-Id").and_then(|s| Uuid::parse_str(s).ok()).or_else(|| first.header("X-Parent-Version-Id").and_then(|s| Uuid::parse_str(s).ok())).unwrap_or(Uuid::nil());
            let ct = if route == "add-version" { CT_HISTORY } else { CT_SNAPSHOT };
            let req = HttpReq::new("POST", &format!("/v1/client/{route}/{v}")).header("X-Client-Id", &c.to_string()).header("Content-Type", ct).body(vec![5u8; LIMIT + 1]);
            let read_state = || {
                let r = if route == "add-version" {
                    crate::http::socket_request(&srv.addr, &HttpReq::new("GET", &format!("/v1/client/get-child-version/{v}")).header("X-Client-Id", &c.to_string()), crate::http::Framing::ContentLength, std::time::Duration::from_secs(20))
                } else {
                    crate::http::socket_request(&srv.addr, &HttpReq::new("GET", "/v1/client/snapshot").header("X-Client-Id", &c.to_string()), crate::http::Framing::ContentLength, std::time::Duration::from_secs(20))
                };
                (r.status, r.header("X-Version-Id").map(|s| s.to_string()), r.body.len(), crate::dump::hash_bytes(&r.body))
            };
            let state_before = read_state();
            let mut between = || std::thread::sleep(std::time::Duration::from_millis(10_500));
            let resp = socket_request_two_parts(&srv.addr, &req, 1024, std::time::Duration::from_secs(60), &mut between);
            cov.evaluations += 1;
            cov.hit(format!("stalled-oversize|{route}|status={}", if resp.failure.is_some() { "closed".to_string() } else { resp.status.to_string() }));
            let stored = read_state() != state_before;
            if (resp.failure.is_none() && !(400..500).contains(&resp.status)) || stored {
                return Some(found("C15", format!("a {route} upload declared one byte above the 100 MiB limit that paused 10.5 s after its first kilobyte was answered {} (what the server serves for it afterwards changed: {stored})", resp.describe()), json!({"origin": "stalled-oversize", "case": 0})));
            }
        }
    }
    None
}

/// Conditional and range requests (legal HTTP a caching proxy or a resuming downloader sends) on the
/// two download routes, for clients that have versions and a snapshot. C20: whatever is answered
/// forbids caching. C06: a 200 carries the whole payload; a 206 carries exactly the requested range
/// of the uploaded bytes and says so (`Content-Range`); 304 / 412 / 416 carry no payload and are
/// not judged.
pub fn conditional_download_part(prop: &str, seed: u64, cov: &mut Cov) -> Option<Found> {
    for backend in [Backend::Mem, Backend::Sqlite] {
        let mut fx = match Fixture::new(backend, seed ^ 0xC04D, None) {
            Ok(f) => f,
            Err(_) => return None,
        };
        for c in 0..3usize {
            let k = fx.clients[c].to_string();
            let n = fx.chains[c].len();
            let snap_v = fx.chains[c][n - 2];
            let snap_body = vec![0x5au8; 33 + c];
            // the version whose parent is chain[n-3] (or the first one)
            let (par, vi) = if n >= 3 { (fx.chains[c][n - 3], n - 2) } else { (fx.ids[0], 0) };
            let ver_v = fx.chains[c][vi];
            let ver_body: Vec<u8> = (0..(10 + vi * 7)).map(|x| (x as u8).wrapping_mul(31).wrapping_add(c as u8)).collect();
            for (route, path, vid, full) in [("snapshot", "/v1/client/snapshot".to_string(), snap_v, snap_body.clone()), ("get-child-version", format!("/v1/client/get-child-version/{par}"), ver_v, ver_body.clone())] {
                let len = full.len() as u64;
                let conds: Vec<(&str, String, Option<(u64, u64)>)> = vec![
                    ("If-None-Match", "*".into(), None),
                    ("If-None-Match", format!("\"{vid}\""), None),
                    ("If-None-Match", format!("W/\"{vid}\""), None),
                    ("If-None-Match", format!("\"x\", \"{vid}\""), None),
                    ("If-None-Match", format!("{vid}"), None),
                    ("If-Match", "\"something-else\"".into(), None),
                    ("If-Modified-Since", "Sat, 01 Jan 2028 00:00:00 GMT".into(), None),
                    ("If-Modified-Since", "Thu, 01 Jan 1970 00:00:00 GMT".into(), None),
                    ("If-Unmodified-Since", "Thu, 01 Jan 1970 00:00:00 GMT".into(), None),
                    ("Range", "bytes=0-0".into(), Some((0, 0))),
                    ("Range", "bytes=3-7".into(), Some((3, 7))),
                    ("Range", format!("bytes=0-{}", len - 1), Some((0, len - 1))),
                    ("Range", format!("bytes=0-{len}"), Some((0, len - 1))),
                    ("Range", "bytes=0-104857599".into(), Some((0, len - 1))),
                    ("Range", format!("bytes={}-", len - 1), Some((len - 1, len - 1))),
                    ("Range", "bytes=5-".into(), Some((5, len - 1))),
                    ("Range", "bytes=-4".into(), Some((len - 4, len - 1))),
                    ("Range", format!("bytes=-{}", len + 10), Some((0, len - 1))),
                    ("Range", format!("bytes={len}-"), None),
                    ("Range", "bytes=2-4,6-8".into(), None),
                    ("Range", "lines=1-2".into(), None),
                ];
                for (hk, hv, range) in conds {
                    for method in ["GET", "HEAD"] {
                        let req = HttpReq::new(method, &path).header("X-Client-Id", &k).header(hk, &hv);
                        let before = fx.dump();
                        let resp = fx.subj.http(&req);
                        cov.evaluations += 1;
                        cov.hit(format!("conditional|{route}|{method}|{hk}|status={}", resp.status));
                        let ctx = format!("[{}] {method} {route} with `{hk}: {hv}` (stored payload: {len} bytes) was answered {}", fx.subj.kind.name(), resp.describe());
                        let rep = json!({"origin": "conditional", "case": 70_000_000});
                        if resp.failure.is_some() || resp.status >= 500 {
                            return Some(found(prop, format!("{ctx}: the server failed"), rep));
                        }
                        if prop == "C20" {
                            if !resp.header("cache-control").map(|c| c.to_ascii_lowercase().contains("no-store")).unwrap_or(false) {
                                return Some(found(prop, format!("{ctx}: the response does not forbid caching"), rep));
                            }
                            continue;
                        }
                        if fx.dump() != before {
                            return Some(found(prop, format!("{ctx}: a download changed stored state"), rep));
                        }
                        if method == "HEAD" {
                            continue;
                        }
                        match resp.status {
                            200 => {
                                if resp.body != full || resp.header("X-Version-Id") != Some(vid.to_string().as_str()) {
                                    return Some(found(prop, format!("{ctx}: not the uploaded payload of {vid} (first difference at {:?})", crate::ops::first_diff(&resp.body, &full)), rep));
                                }
                            }
                            206 => {
                                let cr = resp.header("Content-Range").unwrap_or("").to_string();
                                let parsed = cr.strip_prefix("bytes ").and_then(|r| r.split_once('/')).and_then(|(ab, t)| ab.split_once('-').map(|(a, b)| (a.parse::<u64>().ok(), b.parse::<u64>().ok(), t.parse::<u64>().ok())));
                                match (parsed, range) {
                                    (Some((Some(a), Some(b), Some(t))), Some((wa, wb))) => {
                                        if t != len || a != wa || b != wb || a > b || b >= len || resp.body != full[a as usize..=b as usize] {
                                            return Some(found(prop, format!("{ctx}: the requested range is bytes {wa}-{wb} of {len}; the response carries {} bytes and says `Content-Range: {cr}`", resp.body.len()), rep));
                                        }
                                    }
                                    _ => return Some(found(prop, format!("{ctx}: a partial response without a usable Content-Range (`{cr}`), or for a range request that cannot be satisfied by one range"), rep)),
                                }
                            }
                            _ => {}
                        }
                    }
                }
            }
        }
    }
    None
}

/// Uploads that announce more than the limit in `Content-Length` and send only the beginning of the
/// body (or nothing), then wait. A server may refuse from the head alone or wait for the body; an
/// answer, if one arrives, is a 4xx (C15) that forbids caching (C20). Exactly the limit announced
/// and one kilobyte sent is an upload in progress: no final answer is owed yet, and a refusal of it
/// would be wrong (C15).
fn announced_oversize(prop: &str, addr: &str, cov: &mut Cov, label: &str) -> Option<Found> {
    use std::io::{Read, Write};
    use std::time::Duration;
    let c = Uuid::new_v4();
    for route in ["add-version", "add-snapshot"] {
        let ct = if route == "add-version" { CT_HISTORY } else { CT_SNAPSHOT };
        for (announced, sent_bytes) in [(LIMIT as u64 + 1, 0usize), (LIMIT as u64 + 1, 1024), (3_000_000_000u64, 0), (u64::MAX / 2, 16), (LIMIT as u64, 1024)] {
            let Ok(mut s) = std::net::TcpStream::connect(addr) else { continue };
            let _ = s.set_read_timeout(Some(Duration::from_millis(400)));
            let _ = s.set_write_timeout(Some(Duration::from_secs(5)));
            let head = format!("POST /v1/client/{route}/{} HTTP/1.1\r\nHost: x\r\nX-Client-Id: {c}\r\nContent-Type: {ct}\r\nContent-Length: {announced}\r\n\r\n", Uuid::nil());
            if s.write_all(head.as_bytes()).is_err() {
                continue;
            }
            let _ = s.write_all(&vec![0x41u8; sent_bytes]);
            let mut buf = vec![];
            let mut tmp = [0u8; 4096];
            loop {
                match s.read(&mut tmp) {
                    Ok(0) | Err(_) => break,
                    Ok(n) => {
                        buf.extend_from_slice(&tmp[..n]);
                        if buf.windows(4).any(|w| w == b"\r\n\r\n") {
                            break;
                        }
                    }
                }
            }
            cov.evaluations += 1;
            let text = String::from_utf8_lossy(&buf).to_string();
            let status: Option<u16> = if text.starts_with("HTTP/1.") { text.get(9..12).and_then(|x| x.parse().ok()) } else { None };
            let over = announced > LIMIT as u64;
            cov.hit(format!("announced-{}|{route}|sent={sent_bytes}|answer={}", if over { "oversize" } else { "limit" }, status.map(|x| x.to_string()).unwrap_or_else(|| "none-yet".into())));
            let Some(st) = status else { continue };
            let headers = text.split("\r\n\r\n").next().unwrap_or("").to_ascii_lowercase();
            let ctx = format!("[{label}] a {route} upload announcing Content-Length {announced} of which {sent_bytes} bytes were sent was answered `{}`", text.lines().next().unwrap_or(""));
            let rep = json!({"origin": "announced-oversize", "case": 0});
            if prop == "C20" {
                let cc = headers.lines().find(|l| l.starts_with("cache-control:")).unwrap_or("");
                if !cc.contains("no-store") {
                    return Some(found(prop, format!("{ctx}: the response does not forbid caching (headers: {})", headers.replace("\r\n", "; ")), rep));
                }
            } else if st >= 500 || (over && !(400..500).contains(&st)) {
                return Some(found(prop, format!("{ctx}: not a 4xx"), rep));
            } else if !over && (400..500).contains(&st) {
                return Some(found(prop, format!("{ctx}: a body of exactly the limit is legal, and it was still being sent"), rep));
            }
        }
    }
    None
}

/// A hundred uploads in progress at the same moment (heads and half of the bodies sent), other
/// requests meanwhile, then the uploads complete and the server is idle again. C20: every answer
/// forbids caching, whatever its status. C15: while busy and once idle again, an empty body is
/// refused with a 4xx (not a 5xx) and a legal upload is accepted.
fn many_in_flight(prop: &str, addr: &str, seed: u64, cov: &mut Cov, label: &str) -> Option<Found> {
    use crate::http::{finish_held_uploads, hold_uploads, socket_request, Framing};
    use std::time::Duration;
    let mut rng = Rng::new(seed).fork(0xF117);
    let clients: Vec<Uuid> = (0..140).map(|_| rng.uuid()).collect();
    let nil = Uuid::nil();
    let upload = |c: Uuid, body: Vec<u8>| HttpReq::new("POST", &format!("/v1/client/add-version/{nil}")).header("X-Client-Id", &c.to_string()).header("Content-Type", CT_HISTORY).body(body);
    let probes = |c: Uuid| -> Vec<(HttpReq, &'static str)> {
        vec![
            (HttpReq::new("GET", "/"), "index"),
            (HttpReq::new("GET", "/v1/client/snapshot").header("X-Client-Id", &c.to_string()), "get-snapshot"),
            (HttpReq::new("GET", &format!("/v1/client/get-child-version/{nil}")).header("X-Client-Id", &c.to_string()), "get-child-version"),
            (HttpReq::new("GET", "/v1/client/nowhere").header("X-Client-Id", &c.to_string()), "unknown-route"),
            (HttpReq::new("POST", &format!("/v1/client/add-version/{nil}")).header("X-Client-Id", &c.to_string()).header("Content-Type", CT_HISTORY), "empty-body"),
            (upload(c, vec![1, 2, 3, 4]), "legal-upload"),
        ]
    };
    for phase in ["busy", "idle-again"] {
        let held = if phase == "busy" { hold_uploads(addr, 100, &|i| upload(clients[i], vec![b'h'; 2000])) } else { vec![] };
        // while full, more uploads are turned away or served
        let base = if phase == "busy" { 100 } else { 120 };
        for round in 0..(if phase == "busy" { 20 } else { 1 }) {
            for (req, what) in probes(clients[base + round % 20]) {
                let resp = socket_request(addr, &req, Framing::ContentLength, Duration::from_secs(20));
                cov.evaluations += 1;
                cov.hit(format!("in-flight|{phase}|{what}|status={}", if resp.failure.is_some() { "closed".to_string() } else { resp.status.to_string() }));
                if resp.failure.is_some() {
                    continue;
                }
                if prop == "C20" && !no_store(&resp) {
                    return Some(found("C20", format!("{label}, {} uploads in progress: the response to {} does not forbid caching: {}", held.len(), req.describe(), resp.describe()), json!({"origin": "in-flight", "case": 60_000_000})));
                }
                if prop == "C15" {
                    let bad = match what {
                        "empty-body" => !(400..500).contains(&resp.status),
                        "legal-upload" => !(resp.status == 200 || resp.status == 409),
                        _ => resp.status >= 500,
                    };
                    if bad {
                        return Some(found("C15", format!("{label}, {} ({} uploads in progress): {} was answered {}", phase, held.len(), req.describe(), resp.describe()), json!({"origin": "in-flight", "case": 60_000_000})));
                    }
                }
            }
        }
        let done = finish_held_uploads(held);
        if prop == "C15" {
            if let Some(r) = done.iter().find(|r| r.failure.is_none() && r.status >= 500) {
                return Some(found("C15", format!("{label}: one of 100 simultaneous legal uploads was answered {}", r.describe()), json!({"origin": "in-flight", "case": 60_000_001})));
            }
        }
        if prop == "C20" {
            if let Some(r) = done.iter().find(|r| r.failure.is_none() && !no_store(r)) {
                return Some(found("C20", format!("{label}: the response to one of 100 simultaneous uploads does not forbid caching: {}", r.describe()), json!({"origin": "in-flight", "case": 60_000_001})));
            }
        }
    }
    None
}

/// The real executable (debug logging on, SQLite): a grammar sample, then - for C20 - every endpoint
/// with the data directory removed under the running server (storage errors).
/// The real executable under `ulimit -v` (3 GiB of address space) is sent chunked uploads of 4 GiB
/// (forty times the limit) on both upload routes. The sender stops when the server answers or
/// closes the connection. Afterwards the process must be alive and serving, any answer must be a
/// 4xx, and nothing was stored.
fn limited_memory_oversize(cov: &mut Cov, errors: &mut Vec<String>) -> Option<Found> {
    use std::io::{Read, Write};
    use std::time::{Duration, Instant};
    let bin = match crate::net::server_bin() {
        Some(b) => b,
        None => {
            errors.push("the server executable is not built".into());
            return None;
        }
    };
    let dir = crate::scratch::ScratchDir::new("c15lim");
    let mut started = None;
    for _ in 0..4 {
        let port = crate::net::free_port()?;
        let addr = format!("127.0.0.1:{port}");
        let args: Vec<String> = vec!["-c".into(), "ulimit -v 3145728 && exec \"$0\" \"$@\"".into(), bin.to_string_lossy().to_string(), "--listen".into(), addr.clone(), "--data-dir".into(), dir.path().to_string_lossy().to_string()];
        if let Ok(p) = crate::net::Proc::start(std::path::Path::new("/bin/sh"), &args, &[], &[addr.clone()], Duration::from_secs(20)) {
            started = Some((p, addr));
            break;
        }
    }
    let (mut proc, addr) = match started {
        Some(x) => x,
        None => {
            errors.push("cannot start the server executable under a memory limit".into());
            return None;
        }
    };
    let c = Uuid::new_v4();
    let first = crate::http::socket_request(&addr, &HttpReq::new("POST", &format!("/v1/client/add-version/{}", Uuid::nil())).header("X-Client-Id", &c.to_string()).header("Content-Type", CT_HISTORY).body(vec![7, 7, 7]), crate::http::Framing::ContentLength, Duration::from_secs(20));
    let v = match first.header("X-Version-Id").and_then(|s| Uuid::parse_str(s).ok()) {
        Some(v) => v,
        None => {
            errors.push(format!("memory-limited executable: first upload not accepted: {}", first.describe()));
            return None;
        }
    };
    for route in ["add-snapshot", "add-version"] {
        let ct = if route == "add-version" { CT_HISTORY } else { CT_SNAPSHOT };
        let total: u64 = 4 << 30;
        let mut sent: u64 = 0;
        let mut answer: Option<u16> = None;
        let t0 = Instant::now();
        match std::net::TcpStream::connect(&addr) {
            Err(e) => {
                errors.push(format!("memory-limited executable: connect: {e}"));
                return None;
            }
            Ok(mut s) => {
                let _ = s.set_write_timeout(Some(Duration::from_secs(30)));
                let _ = s.set_read_timeout(Some(Duration::from_millis(1)));
                let head = format!("POST /v1/client/{route}/{v} HTTP/1.1\r\nHost: x\r\nX-Client-Id: {c}\r\nContent-Type: {ct}\r\nTransfer-Encoding: chunked\r\n\r\n");
                let chunk = vec![0x61u8; 1 << 20];
                let mut framed = format!("{:x}\r\n", chunk.len()).into_bytes();
                framed.extend_from_slice(&chunk);
                framed.extend_from_slice(b"\r\n");
                let mut buf = vec![];
                let mut ok = s.write_all(head.as_bytes()).is_ok();
                while ok && sent < total && t0.elapsed() < Duration::from_secs(120) {
                    ok = s.write_all(&framed).is_ok();
                    sent += chunk.len() as u64;
                    // has the server answered already?
                    let mut tmp = [0u8; 4096];
                    if let Ok(n) = s.read(&mut tmp) {
                        if n == 0 {
                            break;
                        }
                        buf.extend_from_slice(&tmp[..n]);
                        if buf.windows(4).any(|w| w == b"\r\n\r\n") {
                            break;
                        }
                    }
                }
                if ok && sent >= total {
                    let _ = s.write_all(b"0\r\n\r\n");
                }
                let _ = s.set_read_timeout(Some(Duration::from_secs(20)));
                let mut tmp = [0u8; 4096];
                while !buf.windows(4).any(|w| w == b"\r\n\r\n") {
                    match s.read(&mut tmp) {
                        Ok(0) | Err(_) => break,
                        Ok(n) => buf.extend_from_slice(&tmp[..n]),
                    }
                }
                if buf.starts_with(b"HTTP/1.") && buf.len() >= 12 {
                    answer = std::str::from_utf8(&buf[9..12]).ok().and_then(|x| x.parse().ok());
                }
            }
        }
        std::thread::sleep(Duration::from_millis(300));
        let alive = proc.alive();
        cov.evaluations += 1;
        cov.hit(format!("memory-limited-executable|{route}|4GiB-chunked|sent~{}MiB|answer={}", (sent >> 20).min(9999) / 64 * 64, answer.map(|a| a.to_string()).unwrap_or_else(|| "closed".into())));
        let describe = format!("a chunked {route} upload of 4 GiB to the real executable running under a 3 GiB address-space limit ({} MiB sent before the server answered or closed, answer: {})", sent >> 20, answer.map(|a| a.to_string()).unwrap_or_else(|| "none".into()));
        if !alive {
            return Some(found("C15", format!("{describe}: the server process is gone"), json!({"origin": "memory-limited", "case": 60_000_000})));
        }
        if let Some(a) = answer {
            if !(400..500).contains(&a) {
                return Some(found("C15", format!("{describe}: not a 4xx"), json!({"origin": "memory-limited", "case": 60_000_000})));
            }
        }
        let idx = crate::http::socket_request(&addr, &HttpReq::new("GET", "/"), crate::http::Framing::ContentLength, Duration::from_secs(20));
        let child = crate::http::socket_request(&addr, &HttpReq::new("GET", &format!("/v1/client/get-child-version/{v}")).header("X-Client-Id", &c.to_string()), crate::http::Framing::ContentLength, Duration::from_secs(20));
        let snap = crate::http::socket_request(&addr, &HttpReq::new("GET", "/v1/client/snapshot").header("X-Client-Id", &c.to_string()), crate::http::Framing::ContentLength, Duration::from_secs(20));
        if idx.status != 200 || child.status != 404 || snap.status != 404 {
            return Some(found("C15", format!("{describe}: afterwards GET / is answered {}, the child of the only version {} and the snapshot {} (expected 200, 404, 404)", idx.status, child.status, snap.status), json!({"origin": "memory-limited", "case": 60_000_000})));
        }
    }
    None
}

fn binary_sample(prop: &str, seed: u64, n: usize, grams: &[Gram], cov: &mut Cov, errors: &mut Vec<String>) -> Option<Found> {
    use crate::http::{socket_request, Framing};
    use std::time::Duration;
    let bin = match crate::net::server_bin() {
        Some(b) => b,
        None => {
            errors.push("the server executable is not built".into());
            return None;
        }
    };
    let fx = match Fixture::new(Backend::Mem, seed ^ 0xB1, None) {
        Ok(f) => f,
        Err(e) => {
            errors.push(format!("fixture: {e:#}"));
            return None;
        }
    };
    let dir = crate::scratch::ScratchDir::new("c20bin");
    let mut started = None;
    for _ in 0..4 {
        let port = crate::net::free_port()?;
        let addr = format!("127.0.0.1:{port}");
        let args: Vec<String> = vec!["--listen".into(), addr.clone(), "--data-dir".into(), dir.path().to_string_lossy().to_string(), "--snapshot-versions".into(), "4".into()];
        if let Ok(p) = crate::net::Proc::start(&bin, &args, &[("RUST_LOG".to_string(), "debug".to_string())], &[addr.clone()], Duration::from_secs(20)) {
            started = Some((p, addr));
            break;
        }
    }
    let (mut proc, addr) = match started {
        Some(x) => x,
        None => {
            errors.push("cannot start the server executable".into());
            return None;
        }
    };
    // thorough tier, C20: uploads that go silent in mid-body for longer than the customary deadlines
    // (30 s, 1, 2 and 5 minutes) and then complete, each on a connection of its own while everything
    // below runs; whatever is answered to them is judged at the end
    let mut stalls: Vec<(u64, std::thread::JoinHandle<HttpResp>)> = vec![];
    if prop == "C20" && n >= 2000 {
        for secs in [35u64, 65, 125, 305] {
            let a = addr.clone();
            let c = Uuid::new_v4();
            stalls.push((secs, std::thread::spawn(move || {
                let req = HttpReq::new("POST", &format!("/v1/client/add-version/{}", Uuid::nil())).header("X-Client-Id", &c.to_string()).header("Content-Type", CT_HISTORY).body(vec![0x42; 3000]);
                let mut between = || std::thread::sleep(Duration::from_secs(secs));
                crate::http::socket_request_two_parts(&a, &req, 1200, Duration::from_secs(secs + 60), &mut between)
            })));
        }
    }
    if let Some(f) = socket_sample_at(prop, seed ^ 0xB1, n, grams, cov, &fx, &addr, "the real executable (RUST_LOG=debug)") {
        return Some(f);
    }
    if !proc.alive() {
        return Some(found(prop, "the real executable (RUST_LOG=debug) exited while answering grammar requests".into(), json!({"origin": "executable", "case": 50_000_000})));
    }
    if let Some(f) = many_in_flight(prop, &addr, seed, cov, "the real executable") {
        return Some(f);
    }
    if let Some(f) = announced_oversize(prop, &addr, cov, "the real executable") {
        return Some(f);
    }
    if prop == "C20" {
        // some state first, then the storage goes away
        let k = fx.clients[0].to_string();
        let nil = Uuid::nil();
        let mk = |id: Uuid| {
            vec![
                HttpReq::new("POST", &format!("/v1/client/add-version/{id}")).header("X-Client-Id", &k).header("Content-Type", CT_HISTORY).body(vec![1, 2, 3]),
                HttpReq::new("GET", &format!("/v1/client/get-child-version/{id}")).header("X-Client-Id", &k),
                HttpReq::new("POST", &format!("/v1/client/add-snapshot/{id}")).header("X-Client-Id", &k).header("Content-Type", CT_SNAPSHOT).body(vec![4, 5]),
                HttpReq::new("GET", "/v1/client/snapshot").header("X-Client-Id", &k),
                HttpReq::new("GET", "/"),
                HttpReq::new("GET", "/v1/client/nowhere").header("X-Client-Id", &k),
            ]
        };
        for r in operational_requests(&k, nil) {
            let resp = socket_request(&addr, &r, Framing::ContentLength, Duration::from_secs(20));
            cov.evaluations += 1;
            cov.hit(format!("executable|operational|{}|status={}", if r.method == "OPTIONS" { "preflight-or-options" } else { "well-known-path" }, if resp.failure.is_some() { "closed".to_string() } else { resp.status.to_string() }));
            if resp.failure.is_none() && !no_store(&resp) {
                return Some(found("C20", format!("the real executable: the response to {} does not forbid caching: {}", r.describe(), resp.describe()), json!({"origin": "executable", "case": 50_000_001})));
            }
        }
        for phase in ["healthy", "data-dir-removed", "data-dir-unreadable"] {
            if phase == "data-dir-removed" {
                let _ = std::fs::remove_dir_all(dir.path());
            }
            if phase == "data-dir-unreadable" {
                // a plain file where the directory was
                let _ = std::fs::write(dir.path(), b"not a directory");
            }
            for (ri, r) in mk(nil).into_iter().enumerate() {
                let framing = if ri % 2 == 0 { Framing::ContentLength } else { Framing::Http10 };
                let resp = socket_request(&addr, &r, framing, Duration::from_secs(20));
                cov.evaluations += 1;
                cov.hit(format!("executable|{phase}|{}|status={}", route_class(&r.path), if resp.failure.is_some() { "closed".to_string() } else { resp.status.to_string() }));
                if resp.failure.is_none() && !no_store(&resp) {
                    return Some(found("C20", format!("the real executable ({phase}): the response to {} does not forbid caching: {}", r.describe(), resp.describe()), json!({"origin": "executable", "case": 50_000_000})));
                }
            }
        }
        let _ = std::fs::remove_file(dir.path());
    }
    for (secs, h) in stalls {
        if let Ok(resp) = h.join() {
            cov.evaluations += 1;
            cov.hit(format!("executable|long-stall|pause={secs}s|status={}", if resp.failure.is_some() { "closed".to_string() } else { resp.status.to_string() }));
            if resp.failure.is_none() && !no_store(&resp) {
                return Some(found("C20", format!("the real executable: an add-version upload that went silent for {secs} s in mid-body and then completed was answered {}: the response does not forbid caching", resp.describe()), json!({"origin": "executable", "case": 50_000_000})));
            }
        }
    }
    proc.kill9();
    None
}

/// Requests outside the protocol that deployments nevertheless see: CORS preflights (browser
/// replicas), probes of well-known operational paths (load balancers, monitoring, crawlers).
fn operational_requests(k: &str, id: Uuid) -> Vec<HttpReq> {
    let mut v = vec![];
    let proto_paths = [format!("/v1/client/add-version/{id}"), format!("/v1/client/get-child-version/{id}"), format!("/v1/client/add-snapshot/{id}"), "/v1/client/snapshot".to_string(), "/".to_string(), "/v1/client/nowhere".to_string()];
    for p in &proto_paths {
        for acrm in ["POST", "GET"] {
            v.push(HttpReq::new("OPTIONS", p).header("Origin", "https://app.example.org").header("Access-Control-Request-Method", acrm).header("Access-Control-Request-Headers", "x-client-id, content-type"));
        }
        v.push(HttpReq::new("OPTIONS", p).header("Origin", "https://app.example.org"));
        v.push(HttpReq::new("GET", p).header("Origin", "https://app.example.org").header("X-Client-Id", k));
    }
    for p in ["/healthz", "/health", "/livez", "/readyz", "/ready", "/metrics", "/status", "/version", "/ping", "/favicon.ico", "/robots.txt", "/index.html", "/v1", "/v1/", "/v1/client", "/v1/client/", "/.well-known/security.txt", "/api", "/admin"] {
        v.push(HttpReq::new("GET", p));
        v.push(HttpReq::new("GET", p).header("X-Client-Id", k));
        v.push(HttpReq::new("HEAD", p));
    }
    v
}

fn socket_sample_at(prop: &str, seed: u64, n: usize, grams: &[Gram], cov: &mut Cov, fx: &Fixture, addr: &str, label: &str) -> Option<Found> {
    use crate::http::{socket_request, Framing};
    use std::time::Duration;
    let mut rng = Rng::new(seed).fork(0x50C);
    let to = Duration::from_secs(20);
    let mut extra: Vec<HttpReq> = vec![
        HttpReq::new("GET", "/v1/client/snapshot").header_bytes("X-Client-Id", &[0xff, 0xfe]),
        HttpReq::new("GET", "/v1/client/get-child-version/%zz").header("X-Client-Id", &fx.clients[0].to_string()),
        HttpReq::new("GET", "/v1/client/get-child-version/a b").header("X-Client-Id", &fx.clients[0].to_string()),
        HttpReq::new("GE T", "/"),
        HttpReq::new("GET", &format!("/{}", "a".repeat(70_000))),
        HttpReq::new("POST", "/v1/client/add-version/00000000-0000-0000-0000-000000000000").header("X-Client-Id", &fx.clients[0].to_string()).header("Content-Type", CT_HISTORY).header("Content-Length", "abc"),
        HttpReq::new("GET", "/").header(&"X-Long".to_string(), &"v".repeat(200_000)),
    ];
    let mut sent = 0usize;
    for i in 0..n {
        let g = grams[rng.usize(grams.len())];
        let req = if i % 50 == 49 && !extra.is_empty() { extra.remove(0) } else { g.build(fx, &mut rng) };
        // replies that actix's HTTP/1 codec emits before routing (unparsable request line, invalid
        // header bytes, oversized head) never reach the application: tallied, not judged
        let head_len: usize = req.path.len() + req.headers.iter().map(|(k, v)| k.len() + v.len() + 4).sum::<usize>();
        let expressible = crate::http::HttpApp::expressible(&req) && !req.headers.iter().any(|(k, _)| k == "Content-Length") && head_len < 8 * 1024;
        let framing = if i % 5 == 3 { Framing::Http10 } else if i % 2 == 0 { Framing::ContentLength } else { Framing::Chunked };
        if i % 5 == 3 {
            cov.count("socket_requests_http_1_0", 1);
        }
        let resp = socket_request(addr, &req, framing, to);
        sent += 1;
        cov.evaluations += 1;
        cov.hit(format!("{}|{}|status={}", if label.contains("executable") { "executable" } else { "socket" }, if expressible { "well-formed-http" } else { "malformed-http" }, if resp.failure.is_some() { "closed".to_string() } else { resp.status.to_string() }));
        if resp.status >= 500 && resp.failure.is_none() {
            return Some(found(prop, format!("{label}: request {} was answered {}", req.describe(), resp.status), json!({"origin": "socket", "case": 40_000_000 + i})));
        }
        if expressible {
            if resp.failure.is_some() && req.method != "HEAD" {
                // the application must answer every syntactically valid request
                if prop == "C15" {
                    return Some(found("C15", format!("{label}: request {} got no response: {:?}", req.describe(), resp.failure), json!({"origin": "socket", "case": 40_000_000 + i})));
                }
            } else if prop == "C20" && resp.failure.is_none() && !no_store(&resp) {
                return Some(found("C20", format!("{label}: the response to {} does not forbid caching: {}", req.describe(), resp.describe()), json!({"origin": "socket", "case": 40_000_000 + i})));
            }
        }
    }
    // the server must still be alive and serving
    let r = socket_request(addr, &HttpReq::new("GET", "/"), Framing::ContentLength, to);
    if r.status != 200 {
        return Some(found(prop, format!("{label}: after {sent} grammar requests the server no longer answers GET / ({})", r.describe()), json!({"origin": "socket", "case": 40_000_000})));
    }
    cov.count("socket_requests", sent as u64);
    None
}
