//! C09, concurrent part: several clients, one thread each, act at the same time on one server (or
//! on several server instances over one SQLite directory, or over sockets). Every client's request
//! sequence is then re-run ALONE on a fresh server of the same kind; the two transcripts must be
//! identical response by response (ids named by first appearance). Plus: two clients' uploads that
//! overlap on one server worker must each be stored with their own bytes.

use crate::evidence::{Cov, Found, Shard, ShardOut};
use crate::net::SockServer;
use crate::ops::{PaySpec, Req, Resp};
use crate::prng::Rng;
use crate::scratch::ScratchDir;
use crate::subject::{lib_exec, Config, Subject};
use serde_json::json;
use std::collections::HashMap;
use std::sync::Arc;
use taskchampion_sync_server::WebServer;
use taskchampion_sync_server_core::{InMemoryStorage, Server};
use taskchampion_sync_server_storage_sqlite::SqliteStorage;
use uuid::Uuid;

#[derive(Clone, Copy, Debug, PartialEq, Eq)]
pub enum Mode {
    /// one `Server` over the in-memory backend, shared by all threads
    MemShared,
    /// one `Server` over one `SqliteStorage`, shared by all threads
    SqliteShared,
    /// one `Server` + `SqliteStorage` per thread on one directory
    SqlitePerThread,
    /// an in-process HttpServer (2 workers) over SQLite, reached over sockets
    SocketSqlite,
}

enum Front {
    Lib(Arc<Server>),
    Sock(String),
}

fn call(f: &Front, client: Uuid, req: &Req) -> Resp {
    match f {
        Front::Lib(s) => lib_exec(s, client, req, true),
        Front::Sock(addr) => {
            let h = Subject::build_http(client, req);
            let r = crate::http::socket_request(addr, &h, crate::http::Framing::ContentLength, std::time::Duration::from_secs(30));
            Subject::decode_http(req, &r)
        }
    }
}

/// One client's adaptive request sequence; returns the transcript with ids named by first
/// appearance (the client's own choices depend only on its own earlier responses).
fn drive(f: &Front, client: Uuid, seed: u64, n: usize) -> Vec<String> {
    let mut rng = Rng::new(seed);
    let mut names: HashMap<Uuid, String> = HashMap::new();
    names.insert(Uuid::nil(), "nil".into());
    let mut known: Vec<Uuid> = vec![Uuid::nil()];
    let mut chain: Vec<Uuid> = vec![];
    let mut out = vec![];
    let mut name = |names: &mut HashMap<Uuid, String>, id: Uuid| -> String {
        let k = names.len();
        names.entry(id).or_insert_with(|| format!("id{k}")).clone()
    };
    for i in 0..n {
        let latest = chain.last().copied().unwrap_or(Uuid::nil());
        let pick_known = |rng: &mut Rng, known: &Vec<Uuid>| known[rng.usize(known.len())];
        let req = match rng.below(100) {
            0..=44 => Req::AddVersion { parent: latest, data: PaySpec::new(20 + rng.usize(300), 9, seed ^ (i as u64) << 20).bytes() },
            45..=54 => Req::AddVersion { parent: pick_known(&mut rng, &known), data: PaySpec::new(12 + rng.usize(40), 9, seed ^ (i as u64) << 20 ^ 1).bytes() },
            55..=69 => Req::GetChild { parent: pick_known(&mut rng, &known) },
            70..=74 => {
                let fresh = rng.uuid();
                known.push(fresh);
                Req::GetChild { parent: fresh }
            }
            75..=89 => {
                let v = if chain.is_empty() { Uuid::nil() } else { chain[chain.len() - 1 - rng.usize(chain.len().min(7))] };
                Req::AddSnapshot { vid: v, data: PaySpec::new(30 + rng.usize(500), 9, seed ^ (i as u64) << 20 ^ 2).bytes() }
            }
            _ => Req::GetSnapshot,
        };
        let resp = call(f, client, &req);
        let arg = match &req {
            Req::AddVersion { parent, .. } | Req::GetChild { parent } => name(&mut names, *parent),
            Req::AddSnapshot { vid, .. } => name(&mut names, *vid),
            Req::GetSnapshot => String::new(),
        };
        let r = match &resp {
            Resp::AddOk { vid, urg } => {
                chain.push(*vid);
                known.push(*vid);
                format!("accepted({},{urg:?})", name(&mut names, *vid))
            }
            Resp::AddConflict { expected } => format!("conflict({})", name(&mut names, *expected)),
            Resp::Found { vid, parent, data } => format!("found({},{},{:016x})", name(&mut names, *vid), name(&mut names, *parent), crate::dump::hash_bytes(data)),
            Resp::Snap { vid, data } => format!("snapshot({},{:016x})", name(&mut names, *vid), crate::dump::hash_bytes(data)),
            Resp::Error(e) => format!("error({})", e.chars().take(120).collect::<String>()),
            o => o.outcome().to_string(),
        };
        out.push(format!("{}({arg}) -> {r}", req.name()));
    }
    out
}

struct World {
    fronts: Vec<Front>,
    _dir: Option<ScratchDir>,
    _srv: Option<SockServer>,
}

fn world(mode: Mode, threads: usize) -> Result<World, String> {
    let cfg = || Config { snapshot_days: 14, snapshot_versions: 4 }.to_server();
    match mode {
        Mode::MemShared => {
            let s = Arc::new(Server::new(cfg(), InMemoryStorage::new()));
            Ok(World { fronts: (0..threads).map(|_| Front::Lib(s.clone())).collect(), _dir: None, _srv: None })
        }
        Mode::SqliteShared => {
            let d = ScratchDir::new("c09c");
            let s = Arc::new(Server::new(cfg(), SqliteStorage::new(d.path()).map_err(|e| format!("{e:#}"))?));
            Ok(World { fronts: (0..threads).map(|_| Front::Lib(s.clone())).collect(), _dir: Some(d), _srv: None })
        }
        Mode::SqlitePerThread => {
            let d = ScratchDir::new("c09c");
            let mut fronts = vec![];
            for _ in 0..threads {
                fronts.push(Front::Lib(Arc::new(Server::new(cfg(), SqliteStorage::new(d.path()).map_err(|e| format!("{e:#}"))?))));
            }
            Ok(World { fronts, _dir: Some(d), _srv: None })
        }
        Mode::SocketSqlite => {
            let d = ScratchDir::new("c09c");
            let web = WebServer::new(cfg(), None, SqliteStorage::new(d.path()).map_err(|e| format!("{e:#}"))?);
            let srv = SockServer::start(web, 2)?;
            let addr = srv.addr.clone();
            Ok(World { fronts: (0..threads).map(|_| Front::Sock(addr.clone())).collect(), _dir: Some(d), _srv: Some(srv) })
        }
    }
}

/// Client ids and version ids are both arbitrary 128-bit values chosen by different parties, so
/// the two id spaces may overlap: a client whose id *is* one of another client's version ids (or
/// its snapshot's version id), and a client whose chain starts at another client's *client id*.
/// Whatever such a client does, the first client's chain and snapshot are served as before, and the
/// newcomer is served what it uploaded.
pub fn id_space_overlap_part(cov: &mut Cov) -> Option<Found> {
    use crate::subject::Kind;
    for kind in [Kind::MEM_LIB, Kind::MEM_HTTP, Kind::SQL_LIB, Kind::SQL_HTTP] {
        let mut subj = Subject::new(kind, Config::default()).ok()?;
        let fail = |m: String| Some(Found { property: "C09".into(), signature: format!("C09:id-spaces {}", m.split_whitespace().take(6).collect::<Vec<_>>().join(" ")), msg: format!("[{}] {m}", kind.name()), replay: json!({"origin": "id-space-overlap", "case": 0}) });
        let a = Uuid::new_v4();
        let mut a_chain: Vec<(Uuid, Uuid, Vec<u8>)> = vec![];
        let mut p = Uuid::nil();
        for i in 0..3u8 {
            let data = format!("segment {i} of A").into_bytes();
            match subj.exec(a, &Req::AddVersion { parent: p, data: data.clone() }) {
                Resp::AddOk { vid, .. } => {
                    a_chain.push((vid, p, data));
                    p = vid;
                }
                _ => return None,
            }
        }
        let a_snap = (a_chain[1].0, b"snapshot of A".to_vec());
        if !matches!(subj.exec(a, &Req::AddSnapshot { vid: a_snap.0, data: a_snap.1.clone() }), Resp::SnapOk) {
            return None;
        }
        let read_a = |subj: &mut Subject| -> Vec<Resp> {
            let mut v: Vec<Resp> = a_chain.iter().map(|(_, par, _)| subj.exec(a, &Req::GetChild { parent: *par })).collect();
            v.push(subj.exec(a, &Req::GetChild { parent: a_chain[2].0 }));
            v.push(subj.exec(a, &Req::GetSnapshot));
            v
        };
        let before = read_a(&mut subj);
        for (i, (vid, par, data)) in a_chain.iter().enumerate() {
            if !matches!(&before[i], Resp::Found { vid: v, parent: q, data: d } if v == vid && q == par && d == data) {
                return fail(format!("client A's version #{i} is served as {} right after it was accepted", before[i].short()));
            }
        }
        // newcomers: id = A's first version id, A's snapshot version id, A's latest version id;
        // and one whose chain starts at A's client id
        let newcomers: Vec<(Uuid, Uuid, &str)> = vec![(a_chain[0].0, Uuid::nil(), "a client whose id is A's first version id"), (a_chain[1].0, Uuid::nil(), "a client whose id is the version id of A's snapshot"), (a_chain[2].0, a_chain[0].0, "a client whose id is A's latest version id and whose chain starts at A's first version id"), (Uuid::new_v4(), a, "a client whose chain starts at A's client id")];
        for (b, base, what) in newcomers {
            // (client A goes on between the newcomers: the reference is what it is served now)
            let before = read_a(&mut subj);
            let seg = format!("segment of {b}").into_bytes();
            let snap = format!("snapshot of {b}").into_bytes();
            let Resp::AddOk { vid: bv, .. } = subj.exec(b, &Req::AddVersion { parent: base, data: seg.clone() }) else { return fail(format!("{what} cannot add its first version")) };
            let r = subj.exec(b, &Req::AddSnapshot { vid: bv, data: snap.clone() });
            if !matches!(r, Resp::SnapOk) {
                return fail(format!("{what}: add-snapshot answered {}", r.short()));
            }
            cov.evaluations += 1;
            cov.hit(format!("id-space-overlap|{}|{}", kind.name(), what.split(" is ").last().unwrap_or(what).replace(' ', "-")));
            let after = read_a(&mut subj);
            if after != before {
                let i = (0..before.len()).find(|i| after[*i] != before[*i]).unwrap_or(0);
                return fail(format!("after {what} stored a version and a snapshot, client A's read #{i} ({}) is answered {} (before: {})", if i < 3 { "a version of its chain" } else if i == 3 { "the child of its latest" } else { "its snapshot" }, after[i].short(), before[i].short()));
            }
            match subj.exec(b, &Req::GetChild { parent: base }) {
                Resp::Found { vid, data, .. } if vid == bv && data == seg => {}
                o => return fail(format!("{what}: its own first version is served as {}", o.short())),
            }
            match subj.exec(b, &Req::GetSnapshot) {
                Resp::Snap { vid, data } if vid == bv && data == snap => {}
                o => return fail(format!("{what}: its own snapshot is served as {}", o.short())),
            }
            // A goes on: a further version and a replaced snapshot must not disturb the newcomer
            let more = format!("a further segment of A after {b}").into_bytes();
            if let Resp::AddOk { vid, .. } = subj.exec(a, &Req::AddVersion { parent: p, data: more.clone() }) {
                let _ = subj.exec(a, &Req::AddSnapshot { vid, data: b"a newer snapshot of A".to_vec() });
                p = vid;
            }
            match subj.exec(b, &Req::GetSnapshot) {
                Resp::Snap { vid, data } if vid == bv && data == snap => {}
                o => return fail(format!("{what}: after client A stored another version and snapshot, the newcomer's snapshot is served as {}", o.short())),
            }
            match subj.exec(b, &Req::GetChild { parent: base }) {
                Resp::Found { vid, data, .. } if vid == bv && data == seg => {}
                o => return fail(format!("{what}: after client A stored another version and snapshot, the newcomer's version is served as {}", o.short())),
            }
        }
    }
    None
}

/// Two clients whose requests agree in everything but the client id and the body: same parent (nil),
/// same values in the headers that clients, proxies and tracing systems attach (idempotency keys,
/// request / correlation ids, trace context, cookies, authorization, conditional headers). Each is
/// served as itself: its own new version id, its own payload.
pub fn shared_header_values_part(cov: &mut Cov) -> Option<Found> {
    use crate::http::{HttpReq, CT_HISTORY, CT_SNAPSHOT};
    use crate::subject::Kind;
    const SHARED: [(&str, &str); 10] = [
        ("Idempotency-Key", "8e03978e-40d5-43e8-bc93-6894a57f9324"),
        ("X-Idempotency-Key", "first-sync"),
        ("X-Request-Id", "req-1"),
        ("X-Correlation-Id", "corr-1"),
        ("Traceparent", "00-0af7651916cd43dd8448eb211c80319c-b7ad6b7169203331-01"),
        ("Cookie", "session=abc"),
        ("Authorization", "Bearer shared-token"),
        ("If-None-Match", "*"),
        ("If-Match", "*"),
        ("X-Forwarded-For", "203.0.113.7"),
    ];
    for kind in [Kind::MEM_HTTP, Kind::SQL_HTTP] {
        let mut subj = Subject::new(kind, Config::default()).ok()?;
        for (hk, hv) in SHARED {
            let fail = |m: String| Some(Found { property: "C09".into(), signature: format!("C09:shared-header {hk}"), msg: format!("[{}] two clients sending `{hk}: {hv}` with their first add-version: {m}", kind.name()), replay: json!({"origin": "shared-header-values", "case": 0}) });
            let clients = [Uuid::new_v4(), Uuid::new_v4()];
            let mut vids = vec![];
            for (i, c) in clients.iter().enumerate() {
                let body = format!("first segment of client {i} ({c})").into_bytes();
                let r = subj.http(&HttpReq::new("POST", &format!("/v1/client/add-version/{}", Uuid::nil())).header("X-Client-Id", &c.to_string()).header("Content-Type", CT_HISTORY).header(hk, hv).body(body));
                cov.evaluations += 1;
                let Some(v) = r.header("X-Version-Id").and_then(|x| Uuid::parse_str(x).ok()).filter(|_| r.status == 200) else { return fail(format!("client {i} was answered {}", r.describe())) };
                if vids.contains(&v) {
                    return fail(format!("client {i} was answered with the version id {v} that the other client had been given"));
                }
                vids.push(v);
                let s = subj.http(&HttpReq::new("POST", &format!("/v1/client/add-snapshot/{v}")).header("X-Client-Id", &c.to_string()).header("Content-Type", CT_SNAPSHOT).header(hk, hv).body(format!("snapshot of client {i}").into_bytes()));
                if s.status != 200 {
                    return fail(format!("client {i}'s add-snapshot was answered {}", s.describe()));
                }
            }
            for (i, c) in clients.iter().enumerate() {
                let want = format!("first segment of client {i} ({c})").into_bytes();
                let r = subj.http(&HttpReq::new("GET", &format!("/v1/client/get-child-version/{}", Uuid::nil())).header("X-Client-Id", &c.to_string()).header(hk, hv));
                if r.status != 200 || r.body != want || r.header("X-Version-Id") != Some(vids[i].to_string().as_str()) {
                    // (conditional headers may legitimately turn a read into 304 / 412: no payload, not judged)
                    if !(hk.starts_with("If-") && (r.status == 304 || r.status == 412)) {
                        return fail(format!("client {i}'s first version is served as {}", r.describe()));
                    }
                }
                let r = subj.http(&HttpReq::new("GET", "/v1/client/snapshot").header("X-Client-Id", &c.to_string()).header(hk, hv));
                if r.status != 200 || r.body != format!("snapshot of client {i}").into_bytes() {
                    if !(hk.starts_with("If-") && (r.status == 304 || r.status == 412)) {
                        return fail(format!("client {i}'s snapshot is served as {}", r.describe()));
                    }
                }
            }
            cov.hit(format!("shared-header-values|{}|{hk}", kind.name()));
        }
    }
    None
}

/// The storage API used directly (as a maintenance tool or an importer would): another client
/// stores a version under an id that a client's accepted version already has, and a snapshot for
/// it. The call may succeed or fail; the first client's chain and snapshot are served as before.
pub fn storage_api_same_version_id_part(property: &str, cov: &mut Cov) -> Option<Found> {
    use crate::subject::Kind;
    for kind in [Kind::MEM_LIB, Kind::SQL_LIB] {
        let mut subj = Subject::new(kind, Config::default()).ok()?;
        let fail = |m: String| Some(Found { property: property.into(), signature: format!("{property}:same-version-id {}", m.split_whitespace().take(5).collect::<Vec<_>>().join(" ")), msg: format!("[{}] {m}", kind.name()), replay: json!({"origin": "storage-api-same-version-id", "case": 0}) });
        let a = Uuid::new_v4();
        let mut chain: Vec<(Uuid, Uuid)> = vec![];
        let mut p = Uuid::nil();
        for i in 0..3u8 {
            if let Resp::AddOk { vid, .. } = subj.exec(a, &Req::AddVersion { parent: p, data: format!("segment {i} of A").into_bytes() }) {
                chain.push((vid, p));
                p = vid;
            }
        }
        if chain.len() < 3 {
            return None;
        }
        let _ = subj.exec(a, &Req::AddSnapshot { vid: chain[1].0, data: b"snapshot of A".to_vec() });
        let reads = |s: &mut Subject| -> Vec<Resp> {
            let mut v: Vec<Resp> = chain.iter().map(|(_, par)| s.exec(a, &Req::GetChild { parent: *par })).collect();
            v.push(s.exec(a, &Req::GetChild { parent: chain[2].0 }));
            v.push(s.exec(a, &Req::GetSnapshot));
            v
        };
        let before = reads(&mut subj);
        for (k, (vid, _)) in chain.iter().enumerate() {
            let b = Uuid::new_v4();
            let storage = subj.storage.clone();
            let outcome = std::panic::catch_unwind(std::panic::AssertUnwindSafe(|| -> anyhow::Result<()> {
                let mut t = storage.txn(b)?;
                t.new_client(Uuid::nil())?;
                t.add_version(*vid, Uuid::nil(), format!("segment of B under A's id #{k}").into_bytes())?;
                t.set_snapshot(taskchampion_sync_server_core::Snapshot { version_id: *vid, timestamp: chrono::Utc::now(), versions_since: 0 }, b"snapshot of B".to_vec())?;
                t.commit()
            }))
            .unwrap_or_else(|_| Err(anyhow::anyhow!("the storage call panicked")));
            cov.evaluations += 1;
            cov.hit(format!("storage-api-same-version-id|{}|{}", kind.name(), if outcome.is_ok() { "stored" } else { "refused" }));
            let after = reads(&mut subj);
            if after != before {
                let i = (0..before.len()).find(|i| after[*i] != before[*i]).unwrap_or(0);
                return fail(format!("after another client stored (storage call {}) a version under the id of client A's version #{k}, client A's read #{i} is answered {} (before: {})", if outcome.is_ok() { "succeeded" } else { "failed" }, after[i].short(), before[i].short()));
            }
        }
    }
    None
}

pub fn shard_run(tier: &str, seed: u64, shard: Shard) -> ShardOut {
    let thorough = tier == "thorough";
    let mut out = ShardOut::default();
    let mut cov = Cov::default();
    let reps = if thorough { 12 } else { 2 };
    let mut case = 0usize;
    for rep in 0..reps {
        for mode in [Mode::SqlitePerThread, Mode::SqliteShared, Mode::MemShared, Mode::SocketSqlite] {
            case += 1;
            if !shard.mine(case + 2) {
                continue;
            }
            let threads = 3 + (rep % 3);
            let n = if thorough { 120 } else { 60 };
            let w = match world(mode, threads) {
                Ok(w) => w,
                Err(e) => {
                    out.errors.push(format!("C09 concurrent world {mode:?}: {e}"));
                    continue;
                }
            };
            let clients: Vec<Uuid> = (0..threads).map(|t| Rng::new(seed).fork((case * 100 + t) as u64).uuid_any()).collect();
            let seeds: Vec<u64> = (0..threads).map(|t| Rng::new(seed).fork((case * 1000 + t) as u64).next_u64()).collect();
            // together
            let barrier = Arc::new(std::sync::Barrier::new(threads));
            let together: Vec<Vec<String>> = std::thread::scope(|sc| {
                let hs: Vec<_> = w
                    .fronts
                    .iter()
                    .enumerate()
                    .map(|(t, f)| {
                        let b = barrier.clone();
                        let (c, s) = (clients[t], seeds[t]);
                        sc.spawn(move || {
                            b.wait();
                            drive(f, c, s, n)
                        })
                    })
                    .collect();
                hs.into_iter().map(|h| h.join().unwrap_or_default()).collect()
            });
            drop(w);
            // alone, each on a fresh world of the same kind
            for t in 0..threads {
                let w1 = match world(mode, 1) {
                    Ok(w) => w,
                    Err(e) => {
                        out.errors.push(format!("C09 solo world {mode:?}: {e}"));
                        continue;
                    }
                };
                let alone = drive(&w1.fronts[0], clients[t], seeds[t], n);
                cov.evaluations += alone.len() as u64;
                cov.count("concurrent_clients_compared_with_their_solo_run", 1);
                cov.hit(format!("concurrent-clients|{mode:?}|threads={threads}"));
                if let Some(k) = (0..alone.len().max(together[t].len())).find(|k| alone.get(*k) != together[t].get(*k)) {
                    out.found.push(Found {
                        property: "C09".into(),
                        signature: format!("C09:concurrent clients differ {mode:?}"),
                        msg: format!(
                            "{threads} clients acting at the same time ({mode:?}): request #{k} of client {} was answered [{}] while other clients were active, but [{}] when the same requests are made alone",
                            clients[t],
                            together[t].get(k).cloned().unwrap_or("nothing".into()),
                            alone.get(k).cloned().unwrap_or("nothing".into())
                        ),
                        replay: json!({"origin": "c09-concurrent", "case": case, "mode": format!("{mode:?}"), "note": "uncontrolled interleaving: re-running repeats the workload, not the schedule"}),
                    });
                    out.cov = cov;
                    return out;
                }
            }
            out.executed += 1;
        }
    }
    // ---- two clients' uploads overlapping on one server worker
    if shard.mine(1) {
        for workers in [1usize, 2] {
            let web = WebServer::new(Config::default().to_server(), None, InMemoryStorage::new());
            let Ok(srv) = SockServer::start(web, workers) else { continue };
            for (i, (na, nb, abab)) in [(3000usize, 200usize, false), (70_000, 70_000, true), (5, 300_000, false), (200, 3000, true), (3000, 200, true)].iter().enumerate() {
                let (ca, cb) = (Uuid::new_v4(), Uuid::new_v4());
                let o = crate::checks_c06::overlapping_version_uploads_pattern(&srv.addr, ca, cb, *na, *nb, seed ^ (i as u64) << 9, *abab);
                cov.evaluations += 2;
                cov.hit(format!("overlapping-uploads-of-two-clients|workers={workers}|{}", if *abab { "A1,B1,A2,B2" } else { "A1,B,A2" }));
                for (who, up, down, want, other) in [("A", &o.a_up, &o.a_down, &o.da, &o.db), ("B", &o.b_up, &o.b_down, &o.db, &o.da)] {
                    if let (Resp::AddOk { .. }, Resp::Found { data, .. }) = (up, down) {
                        if data != want {
                            let foreign = data.windows(8.min(other.len()).max(1)).any(|wd| other.len() >= 8 && other.windows(8).any(|x| x == wd));
                            out.found.push(Found {
                                property: "C09".into(),
                                signature: "C09:overlapping uploads".into(),
                                msg: format!("two clients uploading at the same time on a {workers}-worker server (A {na} bytes in two halves, B {nb} bytes in between): client {who}'s version is served with {} bytes that differ from its upload at offset {:?}{}", data.len(), crate::ops::first_diff(data, want), if foreign { " and contain bytes of the other client's upload" } else { "" }),
                                replay: json!({"origin": "c09-overlap", "case": i, "workers": workers}),
                            });
                            out.cov = cov;
                            return out;
                        }
                    }
                }
            }
        }
    }
    // ---- the real executable is killed while client A uploads a large snapshot; after the restart
    // client B stores a short snapshot: B is served exactly its own bytes
    if shard.mine(3) || shard.mine(4) {
        use crate::http::{socket_request, Framing};
        use std::time::Duration;
        if let Some(bin) = crate::net::server_bin() {
            let dir = ScratchDir::new("c09kill");
            let a = Rng::new(seed).fork(0xA9).uuid();
            let mut rng = Rng::new(seed).fork(0xA90 + shard.k as u64);
            let cycles = if thorough { 40 } else { 6 };
            let start = |dir: &ScratchDir| -> Option<(crate::net::Proc, String)> {
                for _ in 0..4 {
                    let port = crate::net::free_port()?;
                    let addr = format!("127.0.0.1:{port}");
                    if let Ok(p) = crate::net::Proc::start(&bin, &["--listen".into(), addr.clone(), "--data-dir".into(), dir.path().to_string_lossy().to_string()], &[], &[addr.clone()], Duration::from_secs(20)) {
                        return Some((p, addr));
                    }
                }
                None
            };
            let mut a_latest = Uuid::nil();
            for cyc in 0..cycles {
                let Some((mut proc, addr)) = start(&dir) else { break };
                // A: one more version, then a large snapshot that is in flight when the server dies
                let r = socket_request(&addr, &Subject::build_http(a, &Req::AddVersion { parent: a_latest, data: format!("a-{cyc}").into_bytes() }), Framing::ContentLength, Duration::from_secs(20));
                if let Resp::AddOk { vid, .. } = Subject::decode_http(&Req::AddVersion { parent: a_latest, data: vec![] }, &r) {
                    a_latest = vid;
                } else if let Resp::AddConflict { expected } = Subject::decode_http(&Req::AddVersion { parent: a_latest, data: vec![] }, &r) {
                    a_latest = expected;
                }
                let big = PaySpec::new((6 << 20) + rng.usize(6 << 20), 0, seed ^ cyc as u64).bytes();
                let (addr2, al) = (addr.clone(), a_latest);
                let up = std::thread::spawn(move || {
                    let _ = socket_request(&addr2, &Subject::build_http(a, &Req::AddSnapshot { vid: al, data: big }), Framing::ContentLength, Duration::from_secs(10));
                });
                std::thread::sleep(Duration::from_micros(rng.range(2_000, 45_000)));
                proc.kill9();
                let _ = up.join();
                drop(proc);
                // B after the restart
                let Some((mut proc, addr)) = start(&dir) else { break };
                let b = rng.uuid_any();
                let bdata = PaySpec::new(2000 + rng.usize(40_000), 9, seed ^ 0xB ^ cyc as u64).bytes();
                let r1 = socket_request(&addr, &Subject::build_http(b, &Req::AddVersion { parent: Uuid::nil(), data: b"b-1".to_vec() }), Framing::ContentLength, Duration::from_secs(20));
                let bv = r1.header("X-Version-Id").and_then(|s| Uuid::parse_str(s).ok()).unwrap_or(Uuid::nil());
                let _ = socket_request(&addr, &Subject::build_http(b, &Req::AddSnapshot { vid: bv, data: bdata.clone() }), Framing::ContentLength, Duration::from_secs(20));
                let got = socket_request(&addr, &Subject::build_http(b, &Req::GetSnapshot), Framing::ContentLength, Duration::from_secs(20));
                proc.kill9();
                cov.evaluations += 1;
                cov.hit("killed-during-another-clients-large-upload".into());
                if got.status != 200 || got.body != bdata {
                    out.found.push(Found {
                        property: "C09".into(),
                        signature: "C09:kill during upload".into(),
                        msg: format!("the server was killed while client A uploaded a large snapshot; after the restart client B stored a snapshot of {} bytes and is served status {} with {} bytes that differ from its upload at offset {:?}", bdata.len(), got.status, got.body.len(), crate::ops::first_diff(&got.body, &bdata)),
                        replay: json!({"origin": "c09-kill", "case": cyc, "note": "kill instant is random"}),
                    });
                    out.cov = cov;
                    return out;
                }
            }
        }
    }
    // ---- two allowed clients on ONE keep-alive connection (a pooling proxy): each is served as itself
    if shard.mine(5) {
        use crate::http::KeepAlive;
        use std::time::Duration;
        let (a, b) = (Rng::new(seed).fork(0x5C1).uuid(), Rng::new(seed).fork(0x5C2).uuid());
        let allow: std::collections::HashSet<Uuid> = [a, b].into_iter().collect();
        let mut targets: Vec<(String, String, Option<crate::net::Proc>, Option<SockServer>, Option<ScratchDir>)> = vec![];
        if let Ok(srv) = SockServer::start(WebServer::new(Config::default().to_server(), Some(allow.clone()), InMemoryStorage::new()), 2) {
            let addr = srv.addr.clone();
            targets.push(("an in-process HttpServer with an allow-list".into(), addr, None, Some(srv), None));
        }
        if let (Some(bin), Some(port)) = (crate::net::server_bin(), crate::net::free_port()) {
            let d = ScratchDir::new("c09ka");
            let addr = format!("127.0.0.1:{port}");
            let args: Vec<String> = vec!["--listen".into(), addr.clone(), "--data-dir".into(), d.path().to_string_lossy().to_string(), "--allow-client-id".into(), a.to_string(), "--allow-client-id".into(), b.to_string()];
            if let Ok(p) = crate::net::Proc::start(&bin, &args, &[], &[addr.clone()], Duration::from_secs(20)) {
                targets.push(("the real executable with an allow-list".into(), addr, Some(p), None, Some(d)));
            }
        }
        for (label, addr, _p, _s, _d) in &targets {
            let mut ka = KeepAlive::new(addr);
            let to = Duration::from_secs(20);
            let nil = Uuid::nil();
            let r1 = ka.request(&Subject::build_http(a, &Req::AddVersion { parent: nil, data: b"SECRET-OF-A".to_vec() }), to);
            let r2 = ka.request(&Subject::build_http(b, &Req::GetChild { parent: nil }), to);
            let r3 = ka.request(&Subject::build_http(b, &Req::AddVersion { parent: nil, data: b"first of B".to_vec() }), to);
            let r4 = ka.request(&Subject::build_http(a, &Req::GetChild { parent: nil }), to);
            let r5 = ka.request(&Subject::build_http(b, &Req::GetChild { parent: nil }), to);
            cov.evaluations += 5;
            cov.hit(format!("two-clients-on-one-connection|{}|requests-on-connection={}", if label.contains("executable") { "executable" } else { "in-process" }, ka.requests_on_current_connection));
            let d = |r: &crate::http::HttpResp| format!("{} ({} bytes)", r.status, r.body.len());
            let ok = r1.status == 200 && r2.status == 404 && r3.status == 200 && r4.status == 200 && r4.body == b"SECRET-OF-A" && r5.status == 200 && r5.body == b"first of B";
            if !ok {
                out.found.push(Found {
                    property: "C09".into(),
                    signature: "C09:shared connection".into(),
                    msg: format!("{label}: clients A and B (both allowed) share one keep-alive connection. A adds its first version: {}; B asks for the child of nil: {} (alone: 404); B adds its first version: {}; A reads its first version: {}; B reads its first version: {} - a client is answered with another client's data or acts on its chain", d(&r1), d(&r2), d(&r3), d(&r4), d(&r5)),
                    replay: json!({"origin": "c09-shared-connection", "case": 0}),
                });
                out.cov = cov;
                return out;
            }
        }
    }
    // ---- one client's uploads break off twenty times in a row: another client is served as ever
    if shard.mine(6) {
        use crate::http::{HttpReq, CT_HISTORY, CT_SNAPSHOT};
        use crate::subject::Kind;
        for kind in [Kind::MEM_HTTP, Kind::SQL_HTTP] {
            let Ok(mut subj) = Subject::new(kind, Config::default()) else { continue };
            let (a, b) = (Uuid::new_v4(), Uuid::new_v4());
            let _ = subj.exec(a, &Req::AddVersion { parent: Uuid::nil(), data: b"a1".to_vec() });
            for i in 0..20 {
                let (route, ct) = if i % 2 == 0 { ("add-version", CT_HISTORY) } else { ("add-snapshot", CT_SNAPSHOT) };
                let mut r = HttpReq::new("POST", &format!("/v1/client/{route}/{}", Uuid::nil())).header("X-Client-Id", &a.to_string()).header("Content-Type", ct).body_chunks(vec![vec![1u8; 50], vec![2u8; 50], vec![3u8; 50]]);
                r.fail_after = Some(1 + i % 2);
                let _ = subj.http(&r);
                cov.evaluations += 1;
            }
            let rb = subj.exec(b, &Req::AddVersion { parent: Uuid::nil(), data: b"b1".to_vec() });
            let rb2 = match &rb {
                Resp::AddOk { vid, .. } => subj.exec(b, &Req::AddSnapshot { vid: *vid, data: b"snapshot of b".to_vec() }),
                o => o.clone(),
            };
            cov.hit(format!("after-twenty-broken-uploads-of-another-client|{}", kind.name()));
            if !matches!(rb, Resp::AddOk { .. }) || !matches!(rb2, Resp::SnapOk) {
                out.found.push(Found {
                    property: "C09".into(),
                    signature: "C09:broken uploads of another client".into(),
                    msg: format!("[{}] after twenty uploads of client A whose body transfer broke off, client B's first AddVersion is answered {} and its AddSnapshot {} (alone: accepted / success)", kind.name(), rb.short(), rb2.short()),
                    replay: json!({"origin": "c09-broken-uploads", "case": 0}),
                });
                out.cov = cov;
                return out;
            }
        }
    }
    // ---- many clients on one long-lived server: client A acts, more than a thousand other clients
    // act once each, A acts again: A is answered as if the others had not been there
    if shard.mine(2) {
        use crate::subject::Kind;
        let n_others = if thorough { 5000 } else { 1100 };
        for kind in [Kind::MEM_LIB, Kind::SQL_LIB, Kind::MEM_HTTP] {
            let Ok(mut subj) = Subject::new(kind, Config::default()) else { continue };
            let a = Rng::new(seed).fork(0xA11).uuid();
            let Resp::AddOk { vid: v1, .. } = subj.exec(a, &Req::AddVersion { parent: Uuid::nil(), data: b"a-1".to_vec() }) else { continue };
            let mut r = Rng::new(seed).fork(0xA12);
            for i in 0..n_others {
                let c = r.uuid_any();
                let resp = subj.exec(c, &Req::AddVersion { parent: Uuid::nil(), data: format!("other-{i}").into_bytes() });
                cov.evaluations += 1;
                if !matches!(resp, Resp::AddOk { .. }) {
                    out.found.push(Found { property: "C09".into(), signature: "C09:many clients".into(), msg: format!("[{}] the first AddVersion of client #{i} of {n_others} (a never-seen client, nil parent) was answered {}", kind.name(), resp.short()), replay: json!({"origin": "c09-many-clients", "case": 0}) });
                    out.cov = cov;
                    return out;
                }
            }
            let after = [subj.exec(a, &Req::AddVersion { parent: v1, data: b"a-2".to_vec() }), subj.exec(a, &Req::GetChild { parent: Uuid::nil() }), subj.exec(a, &Req::GetChild { parent: v1 })];
            cov.hit(format!("many-clients:{}:{}", kind.name(), if n_others > 1024 { ">1024" } else { "few" }));
            let ok = matches!(&after[0], Resp::AddOk { .. }) && matches!(&after[1], Resp::Found { vid, data, .. } if *vid == v1 && data == b"a-1") && matches!((&after[0], &after[2]), (Resp::AddOk { vid: v2, .. }, Resp::Found { vid, parent, data }) if vid == v2 && *parent == v1 && data == b"a-2");
            if !ok {
                out.found.push(Found {
                    property: "C09".into(),
                    signature: "C09:many clients".into(),
                    msg: format!("[{}] client A added a version, {n_others} other clients added one version each, then A's AddVersion on its own latest version / GetChildVersion(nil) / GetChildVersion(latest) were answered {} / {} / {} (alone: accepted / its first version / its second version)", kind.name(), after[0].short(), after[1].short(), after[2].short()),
                    replay: json!({"origin": "c09-many-clients", "case": 0}),
                });
                out.cov = cov;
                return out;
            }
        }
    }
    out.cov = cov;
    out
}
