//! Subjects: the real code under test behind one uniform request interface.

use crate::http::{HttpApp, HttpReq, HttpResp, CT_HISTORY, CT_SNAPSHOT};
use crate::ops::{Req, Resp, Urg};
use crate::scratch::ScratchDir;
use crate::wrap::Shared;
use std::collections::HashSet;
use std::path::PathBuf;
use std::sync::Arc;
use taskchampion_sync_server::WebServer;
use taskchampion_sync_server_core::{
    AddVersionResult, GetVersionResult, InMemoryStorage, Server, ServerConfig, ServerError, SnapshotUrgency, Storage,
    NIL_VERSION_ID,
};
use taskchampion_sync_server_storage_sqlite::SqliteStorage;
use uuid::Uuid;

#[derive(Clone, Copy, Debug, PartialEq, Eq, Hash)]
pub enum Backend {
    Mem,
    Sqlite,
}

#[derive(Clone, Copy, Debug, PartialEq, Eq, Hash)]
pub enum Entry {
    Lib,
    Http,
}

#[derive(Clone, Copy, Debug, PartialEq, Eq, Hash)]
pub struct Kind {
    pub backend: Backend,
    pub entry: Entry,
    /// reopen density in percent (sqlite only): probability of re-creating the storage object
    /// (schema setup re-run) before an operation
    pub reopen_pct: u32,
    /// HTTP entry reached over a real TCP socket (an in-process `HttpServer`), so that actix's
    /// HTTP/1 codec is in the path
    pub socket: bool,
    /// two server instances (each with its own storage object) on one SQLite directory; requests
    /// go to either one
    pub peers: bool,
    /// the directory is first served by the pinned release (vendored crates, library entry) and
    /// taken over by the code under test after some operations (SQLite, library entry only)
    pub pinned_first: bool,
}

impl Kind {
    pub const MEM_LIB: Kind = Kind { backend: Backend::Mem, entry: Entry::Lib, reopen_pct: 0, socket: false, peers: false, pinned_first: false };
    pub const MEM_HTTP: Kind = Kind { backend: Backend::Mem, entry: Entry::Http, reopen_pct: 0, socket: false, peers: false, pinned_first: false };
    pub const SQL_LIB: Kind = Kind { backend: Backend::Sqlite, entry: Entry::Lib, reopen_pct: 0, socket: false, peers: false, pinned_first: false };
    pub const SQL_HTTP: Kind = Kind { backend: Backend::Sqlite, entry: Entry::Http, reopen_pct: 0, socket: false, peers: false, pinned_first: false };
    pub fn name(&self) -> String {
        format!(
            "{}/{}{}",
            match self.backend {
                Backend::Mem => "mem",
                Backend::Sqlite => "sqlite",
            },
            match self.entry {
                Entry::Lib => "lib",
                Entry::Http => "http",
            },
            if self.socket && self.reopen_pct > 0 { format!("+executable+restart{}", self.reopen_pct) } else if self.socket { "+socket".to_string() } else if self.reopen_pct > 0 { format!("+reopen{}", self.reopen_pct) } else { String::new() }
        ) + if self.peers { "+2instances" } else { "" } + if self.pinned_first { "+taken-over-from-pinned-release" } else { "" }
    }
}

#[derive(Clone, Copy, Debug, PartialEq, Eq)]
pub struct Config {
    pub snapshot_days: i64,
    pub snapshot_versions: u32,
}

impl Default for Config {
    fn default() -> Self {
        Config { snapshot_days: 14, snapshot_versions: 100 }
    }
}

impl Config {
    pub fn to_server(self) -> ServerConfig {
        ServerConfig { snapshot_days: self.snapshot_days, snapshot_versions: self.snapshot_versions }
    }
}

enum Front {
    Lib(Arc<Server>),
    Http(HttpApp),
    Sock(crate::net::SockServer),
    /// the real executable on this subject's data directory
    Bin { proc: crate::net::Proc, addr: String },
}

/// Harness-side handle to the storage a library `Server` owns, through the server's own
/// `txn()` accessor (so the server can be given its storage directly, without a wrapper that
/// would hide overridden trait methods).
pub struct ViaServer(pub Arc<Server>);

impl Storage for ViaServer {
    fn txn(&self, client_id: Uuid) -> anyhow::Result<Box<dyn taskchampion_sync_server_core::StorageTxn + '_>> {
        self.0.txn(client_id).map_err(|e| anyhow::anyhow!("{e}"))
    }
}

pub type StorageWrap = Arc<dyn Fn(Arc<dyn Storage>) -> Arc<dyn Storage> + Send + Sync>;

pub struct Subject {
    pub kind: Kind,
    pub config: Config,
    pub allowlist: Option<HashSet<Uuid>>,
    /// second handle to the storage the server owns (for state dumps and planting)
    pub storage: Arc<dyn Storage>,
    /// storage as seen by the server (possibly wrapped)
    front: Option<Front>,
    /// second server instance on the same directory (`kind.peers`)
    peer: Option<Front>,
    peer_turn: u64,
    pub dir: Option<ScratchDir>,
    pub wrap: Option<StorageWrap>,
    pub last_http: Option<(HttpReq, HttpResp)>,
    pub reopens: u64,
    pub tap: Option<crate::http::Tap>,
    /// serve through the real executable (SQLite, HTTP over a socket); `reopen` = kill -9 + restart
    pub binary: bool,
    /// another process' connection to the same database, held open across kills and restarts of the
    /// executable (every other executable subject has one): the write-ahead log then survives the
    /// server's own connections
    bystander: Option<rusqlite::Connection>,
    keepalive_mode: bool,
    keepalive: Option<(String, crate::http::KeepAlive)>,
    /// first life: the pinned release serves the directory for `upgrade_after` operations
    pinned: Option<Arc<crate::pinned::PServer>>,
    upgrade_after: usize,
    ops_done: usize,
    pub upgraded: bool,
}

static SOCKET_SUBJECTS: std::sync::atomic::AtomicUsize = std::sync::atomic::AtomicUsize::new(0);
fn next_keepalive_mode() -> bool {
    SOCKET_SUBJECTS.fetch_add(1, std::sync::atomic::Ordering::SeqCst) % 2 == 1
}

static BINARY_SUBJECTS: std::sync::atomic::AtomicUsize = std::sync::atomic::AtomicUsize::new(0);

pub fn db_file(dir: &std::path::Path) -> PathBuf {
    dir.join("taskchampion-sync-server.sqlite3")
}

impl Subject {
    pub fn new(kind: Kind, config: Config) -> anyhow::Result<Subject> {
        Self::with(kind, config, None, None)
    }

    pub fn with(kind: Kind, config: Config, allowlist: Option<HashSet<Uuid>>, wrap: Option<StorageWrap>) -> anyhow::Result<Subject> {
        if kind.pinned_first && kind.backend == Backend::Sqlite && kind.entry == Entry::Lib && wrap.is_none() {
            let d = ScratchDir::new("dbp");
            let ps = crate::pinned::new_server(d.path(), config.snapshot_days, config.snapshot_versions)?;
            static N: std::sync::atomic::AtomicUsize = std::sync::atomic::AtomicUsize::new(0);
            let n = N.fetch_add(1, std::sync::atomic::Ordering::SeqCst);
            let storage: Arc<dyn Storage> = Arc::new(crate::pinned::ViaPinned(ps.clone()));
            let s = Subject { kind, config, allowlist, storage, front: None, peer: None, peer_turn: 0, dir: Some(d), wrap, last_http: None, reopens: 0, tap: None, binary: false, bystander: None, keepalive_mode: false, keepalive: None, pinned: Some(ps), upgrade_after: 4 + (n * 7) % 37, ops_done: 0, upgraded: false };
            return Ok(s);
        }
        let (storage, dir): (Arc<dyn Storage>, Option<ScratchDir>) = match kind.backend {
            Backend::Mem => (Arc::new(InMemoryStorage::new()), None),
            Backend::Sqlite => {
                // every third SQLite subject keeps its data in a directory whose name contains
                // characters that mean something in URIs, shells or SQL (legal file names all)
                static N: std::sync::atomic::AtomicUsize = std::sync::atomic::AtomicUsize::new(0);
                const NAMES: [&str; 6] = ["sync#1", "really?", "backup%41", "my data", "d\u{e4}ta'\"x", "a;b&c=d"];
                let n = N.fetch_add(1, std::sync::atomic::Ordering::SeqCst);
                let d = if n % 3 == 2 {
                    let outer = ScratchDir::new("db");
                    let nested = outer.path().join(NAMES[(n / 3) % NAMES.len()]);
                    std::fs::create_dir_all(&nested)?;
                    // (the outer directory goes with the scratch base at the end of the run)
                    std::mem::forget(outer);
                    ScratchDir(nested)
                } else {
                    ScratchDir::new("db")
                };
                let s = SqliteStorage::new(d.path())?;
                (Arc::new(s), Some(d))
            }
        };
        let mut s = Subject { kind, config, allowlist, storage, front: None, peer: None, peer_turn: 0, dir, wrap, last_http: None, reopens: 0, tap: None, binary: false, bystander: None, keepalive_mode: kind.socket && next_keepalive_mode(), keepalive: None, pinned: None, upgrade_after: 0, ops_done: 0, upgraded: false };
        s.build_front();
        Ok(s)
    }

    /// A subject served by the real executable (SQLite backend), optionally with an allow-list.
    pub fn with_binary(config: Config, allowlist: Option<HashSet<Uuid>>, reopen_pct: u32) -> anyhow::Result<Subject> {
        Self::with_binary_peers(config, allowlist, reopen_pct, false)
    }

    /// `peers`: requests alternate between the executable and an in-process server instance (another
    /// process, another spelling of the path) on the same directory.
    pub fn with_binary_peers(config: Config, allowlist: Option<HashSet<Uuid>>, reopen_pct: u32, peers: bool) -> anyhow::Result<Subject> {
        let kind = Kind { backend: Backend::Sqlite, entry: Entry::Http, reopen_pct, socket: true, peers, pinned_first: false };
        let d = ScratchDir::new("dbbin");
        let st = SqliteStorage::new(d.path())?;
        let mut s = Subject { kind, config, allowlist, storage: Arc::new(st), front: None, peer: None, peer_turn: 0, dir: Some(d), wrap: None, last_http: None, reopens: 0, tap: None, binary: true, bystander: None, keepalive_mode: next_keepalive_mode(), keepalive: None, pinned: None, upgrade_after: 0, ops_done: 0, upgraded: false };
        s.start_binary()?;
        if BINARY_SUBJECTS.fetch_add(1, std::sync::atomic::Ordering::SeqCst) % 2 == 1 {
            if let Ok(c) = rusqlite::Connection::open(db_file(s.dir.as_ref().unwrap().path())) {
                let _: Result<i64, _> = c.query_row("SELECT count(*) FROM clients", [], |r| r.get(0));
                s.bystander = Some(c);
            }
        }
        Ok(s)
    }

    fn start_binary(&mut self) -> anyhow::Result<()> {
        let bin = crate::net::server_bin().ok_or_else(|| anyhow::anyhow!("server binary not built"))?;
        let mut last_err = String::new();
        for _ in 0..4 {
            let port = crate::net::free_port().ok_or_else(|| anyhow::anyhow!("no free port"))?;
            let addr = format!("127.0.0.1:{port}");
            let mut args: Vec<String> = vec!["--listen".into(), addr.clone(), "--data-dir".into(), self.dir.as_ref().unwrap().path().to_string_lossy().to_string(), "--snapshot-versions".into(), self.config.snapshot_versions.to_string(), "--snapshot-days".into(), self.config.snapshot_days.to_string()];
            if let Some(l) = &self.allowlist {
                for id in l {
                    args.push("--allow-client-id".into());
                    args.push(id.to_string());
                }
            }
            match crate::net::Proc::start(&bin, &args, &[], &[addr.clone()], std::time::Duration::from_secs(20)) {
                Ok(proc) => {
                    self.front = Some(Front::Bin { proc, addr });
                    self.peer = None;
                    if self.kind.peers {
                        // a second server instance in ANOTHER process (this one) on the same directory
                        let own = SqliteStorage::new(self.alias_path())?;
                        self.peer = Some(Front::Http(self.mk_app(WebServer::new(self.config.to_server(), self.allowlist.clone(), own))));
                    }
                    return Ok(());
                }
                Err(e) => last_err = e,
            }
        }
        anyhow::bail!("cannot start the server executable: {last_err}")
    }

    /// Open an existing data directory (takes ownership of the scratch dir).
    pub fn open_dir(kind: Kind, config: Config, dir: ScratchDir) -> anyhow::Result<Subject> {
        let st = SqliteStorage::new(dir.path())?;
        let mut s = Subject {
            kind,
            config,
            allowlist: None,
            storage: Arc::new(st),
            front: None,
            peer: None,
            peer_turn: 0,
            dir: Some(dir),
            wrap: None,
            last_http: None,
            reopens: 0,
            tap: None,
            binary: false,
            bystander: None,
            keepalive_mode: false,
            keepalive: None,
            pinned: None,
            upgrade_after: 0,
            ops_done: 0,
            upgraded: false,
        };
        s.build_front();
        Ok(s)
    }

    fn build_front(&mut self) {
        let cfg = self.config.to_server();
        // Without an instrumentation wrapper the server gets its storage *directly* (for SQLite its
        // own `SqliteStorage` object on the same directory, the harness keeps another one).
        self.front = Some(match (&self.wrap, self.kind.backend, self.kind.entry) {
            (Some(w), _, entry) => {
                let st = w(self.storage.clone());
                match entry {
                    Entry::Lib => Front::Lib(Arc::new(Server::new(cfg, Shared(st)))),
                    Entry::Http => Front::Http(self.mk_app(WebServer::new(cfg, self.allowlist.clone(), Shared(st)))),
                }
            }
            (None, Backend::Sqlite, entry) => {
                let own = SqliteStorage::new(self.dir.as_ref().unwrap().path()).expect("open sqlite storage");
                match entry {
                    Entry::Lib => Front::Lib(Arc::new(Server::new(cfg, own))),
                    Entry::Http => self.http_front(WebServer::new(cfg, self.allowlist.clone(), own)),
                }
            }
            (None, Backend::Mem, Entry::Lib) => {
                let server = Arc::new(Server::new(cfg, InMemoryStorage::new()));
                self.storage = Arc::new(ViaServer(server.clone()));
                Front::Lib(server)
            }
            (None, Backend::Mem, Entry::Http) => self.http_front(WebServer::new(cfg, self.allowlist.clone(), Shared(self.storage.clone()))),
        });
        self.peer = None;
        if self.kind.peers && self.wrap.is_none() && self.kind.backend == Backend::Sqlite {
            let own = SqliteStorage::new(self.alias_path()).expect("open sqlite storage");
            let cfg = self.config.to_server();
            self.peer = Some(match self.kind.entry {
                Entry::Lib => Front::Lib(Arc::new(Server::new(cfg, own))),
                Entry::Http => self.http_front(WebServer::new(cfg, self.allowlist.clone(), own)),
            });
        }
    }

    /// The data directory under another spelling: through a symbolic link `<dir>/self -> .` (anything
    /// keyed by the path string then sees two different databases where there is one).
    fn alias_path(&self) -> PathBuf {
        let d = self.dir.as_ref().unwrap().path();
        let link = d.join("self");
        if std::fs::symlink_metadata(&link).is_err() {
            let _ = std::os::unix::fs::symlink(".", &link);
        }
        if link.join(".").is_dir() {
            link
        } else {
            d.to_path_buf()
        }
    }

    /// which instance serves the next request (deterministic, irregular)
    fn use_peer(&mut self) -> bool {
        if self.peer.is_none() {
            return false;
        }
        self.peer_turn += 1;
        let x = self.peer_turn.wrapping_mul(0x9E3779B97F4A7C15) >> 61;
        x < 4
    }

    fn http_front(&self, web: WebServer) -> Front {
        if self.kind.socket {
            match crate::net::SockServer::start(web.clone(), 2) {
                Ok(s) => return Front::Sock(s),
                Err(_) => {}
            }
        }
        Front::Http(self.mk_app(web))
    }

    fn mk_app(&self, web: WebServer) -> HttpApp {
        let mut app = HttpApp::new(web);
        app.tap = self.tap.clone();
        app
    }

    fn sock_call(&mut self, addr: &str, h: &HttpReq) -> HttpResp {
        // every other socket subject talks over ONE persistent connection (re-opened when the server
        // closes it or is restarted); the others open a connection per request
        if self.keepalive_mode && h.fail_after.is_none() {
            if self.keepalive.as_ref().map(|k| k.0 != addr).unwrap_or(true) {
                self.keepalive = Some((addr.to_string(), crate::http::KeepAlive::new(addr)));
            }
            let r = self.keepalive.as_mut().unwrap().1.request(h, std::time::Duration::from_secs(30));
            if let Some(t) = &self.tap {
                t(h, &r);
            }
            return r;
        }
        let framing = if h.body_len() % 2 == 0 { crate::http::Framing::ContentLength } else { crate::http::Framing::Chunked };
        let r = crate::http::socket_request(addr, h, framing, std::time::Duration::from_secs(30));
        if let Some(t) = &self.tap {
            t(h, &r);
        }
        r
    }

    pub fn set_tap(&mut self, tap: crate::http::Tap) {
        self.tap = Some(tap.clone());
        if let Some(Front::Http(app)) = &mut self.front {
            app.tap = Some(tap);
        }
    }

    /// Re-create the server with a different configuration / allow-list over the same storage.
    pub fn reconfigure(&mut self, config: Config, allowlist: Option<HashSet<Uuid>>) {
        assert!(!(self.wrap.is_none() && self.kind.backend == Backend::Mem && self.kind.entry == Entry::Lib), "an unwrapped in-memory library subject cannot be rebuilt");
        self.config = config;
        self.allowlist = allowlist;
        self.front = None;
        self.build_front();
    }

    pub fn db_path(&self) -> Option<PathBuf> {
        self.dir.as_ref().map(|d| db_file(d.path()))
    }

    /// Drop the storage object and the server and re-create both on the same directory (the
    /// schema setup is re-run). No-op for the in-memory backend.
    pub fn reopen(&mut self) -> anyhow::Result<()> {
        if self.pinned.is_some() {
            self.pinned = None;
            self.storage = Arc::new(InMemoryStorage::new());
            let ps = crate::pinned::new_server(self.dir.as_ref().unwrap().path(), self.config.snapshot_days, self.config.snapshot_versions)?;
            self.storage = Arc::new(crate::pinned::ViaPinned(ps.clone()));
            self.pinned = Some(ps);
            self.reopens += 1;
            return Ok(());
        }
        if self.binary {
            // kill -9 and restart on the same directory
            self.front = None;
            self.peer = None;
            self.storage = Arc::new(SqliteStorage::new(self.dir.as_ref().unwrap().path())?);
            self.start_binary()?;
            self.reopens += 1;
            return Ok(());
        }
        if let (Backend::Sqlite, Some(d)) = (self.kind.backend, &self.dir) {
            self.front = None;
            self.peer = None;
            let st = SqliteStorage::new(d.path())?;
            self.storage = Arc::new(st);
            self.build_front();
            self.reopens += 1;
        }
        Ok(())
    }

    pub fn http(&mut self, req: &HttpReq) -> HttpResp {
        let addr = match self.front.as_mut().unwrap() {
            Front::Http(app) => return app.request(req),
            Front::Sock(s) => s.addr.clone(),
            Front::Bin { addr, .. } => addr.clone(),
            Front::Lib(_) => panic!("http request on a library subject"),
        };
        self.sock_call(&addr, req)
    }

    pub fn build_http(client: Uuid, req: &Req) -> HttpReq {
        // UUIDs are case-insensitive on input (RFC 4122): about one request in eight spells the path
        // id in upper case, about one client in five spells its id in upper case
        let cid = if client.as_u128() % 5 == 0 { client.to_string().to_uppercase() } else { client.to_string() };
        let sp = |id: &Uuid| -> String {
            if (id.as_u128() ^ client.as_u128()) % 8 == 0 {
                id.to_string().to_uppercase()
            } else {
                id.to_string()
            }
        };
        let r = Self::build_http_plain(client, req, &cid, &sp);
        // about one request in nine carries a header that proxies, tracing systems or clients add and
        // that the server has no business with; values may contain non-ASCII bytes (obs-text)
        let salt = (client.as_u128() as u64) ^ match req {
            Req::AddVersion { parent, data } => parent.as_u128() as u64 ^ data.len() as u64,
            Req::GetChild { parent } => parent.as_u128() as u64,
            Req::AddSnapshot { vid, data } => vid.as_u128() as u64 ^ data.len() as u64,
            Req::GetSnapshot => 7,
        };
        if salt % 9 == 4 {
            const EXTRA: [(&str, &[u8]); 10] = [
                ("X-Request-Id", b"r\xe9sum\xe9-1"),
                ("X-Correlation-Id", b"\xff\xfe-42"),
                ("X-Forwarded-For", b"203.0.113.7, 10.0.0.1"),
                ("Forwarded", b"for=\"[2001:db8::1]\";proto=https"),
                ("Via", b"1.1 caf\xe9-proxy"),
                ("User-Agent", b"taskchampion/1.0 (M\xfcnchen)"),
                ("Accept-Language", b"de-DE, *;q=0.5"),
                ("Traceparent", b"00-0af7651916cd43dd8448eb211c80319c-b7ad6b7169203331-01"),
                ("Cookie", b"session=\xc3\xa9"),
                ("X-Request-Id", b""),
            ];
            let (k, v) = EXTRA[((salt / 9) % EXTRA.len() as u64) as usize];
            return r.header_bytes(k, v);
        }
        r
    }

    fn build_http_plain(client: Uuid, req: &Req, cid: &str, sp: &dyn Fn(&Uuid) -> String) -> HttpReq {
        let _ = client;
        match req {
            Req::AddVersion { parent, data } => HttpReq::new("POST", &format!("/v1/client/add-version/{}", sp(parent)))
                .header("X-Client-Id", &cid)
                .header("Content-Type", &ct_form(CT_HISTORY, data.len()))
                .body(data.clone()),
            Req::GetChild { parent } => HttpReq::new("GET", &format!("/v1/client/get-child-version/{}", sp(parent))).header("X-Client-Id", &cid),
            Req::AddSnapshot { vid, data } => HttpReq::new("POST", &format!("/v1/client/add-snapshot/{}", sp(vid)))
                .header("X-Client-Id", &cid)
                .header("Content-Type", &ct_form(CT_SNAPSHOT, data.len()))
                .body(data.clone()),
            Req::GetSnapshot => HttpReq::new("GET", "/v1/client/snapshot").header("X-Client-Id", &cid),
        }
    }

    pub fn decode_http(req: &Req, r: &HttpResp) -> Resp {
        if let Some(f) = &r.failure {
            return Resp::Error(format!("http failure: {f}"));
        }
        let uuid_hdr = |n: &str| r.header(n).and_then(|v| Uuid::parse_str(v).ok());
        match (req, r.status) {
            (Req::AddVersion { .. }, 200) => match uuid_hdr("X-Version-Id") {
                Some(vid) => {
                    let urg = match r.header("X-Snapshot-Request") {
                        None => Urg::None,
                        Some("urgency=low") => Urg::Low,
                        Some("urgency=high") => Urg::High,
                        Some(o) => return Resp::Error(format!("bad X-Snapshot-Request {o:?}")),
                    };
                    Resp::AddOk { vid, urg }
                }
                None => Resp::Error("200 without valid X-Version-Id".into()),
            },
            (Req::AddVersion { .. }, 409) => match uuid_hdr("X-Parent-Version-Id") {
                Some(expected) => Resp::AddConflict { expected },
                None => Resp::Error("409 without valid X-Parent-Version-Id".into()),
            },
            (Req::GetChild { .. }, 200) => match (uuid_hdr("X-Version-Id"), uuid_hdr("X-Parent-Version-Id")) {
                (Some(vid), Some(parent)) => Resp::Found { vid, parent, data: r.body.clone() },
                _ => Resp::Error("200 without valid id headers".into()),
            },
            (Req::GetChild { .. }, 404) => Resp::NotFound,
            (Req::GetChild { .. }, 410) => Resp::Gone,
            (Req::AddSnapshot { .. }, 200) => Resp::SnapOk,
            (Req::AddSnapshot { .. }, 404) => Resp::NoSuchClient,
            (Req::GetSnapshot, 200) => match uuid_hdr("X-Version-Id") {
                Some(vid) => Resp::Snap { vid, data: r.body.clone() },
                None => Resp::Error("200 without valid X-Version-Id".into()),
            },
            (Req::GetSnapshot, 404) => Resp::NoSnap,
            (_, s) => Resp::Error(format!("unexpected http status {s}")),
        }
    }

    /// The code under test takes the directory over from the pinned release.
    fn take_over(&mut self) -> anyhow::Result<()> {
        self.pinned = None;
        // (the adapter handle held the last reference to the pinned server's storage)
        self.storage = Arc::new(InMemoryStorage::new());
        let st = SqliteStorage::new(self.dir.as_ref().unwrap().path())?;
        self.storage = Arc::new(st);
        self.build_front();
        self.upgraded = true;
        Ok(())
    }

    pub fn exec(&mut self, client: Uuid, req: &Req) -> Resp {
        if self.pinned.is_some() {
            if self.ops_done >= self.upgrade_after {
                if let Err(e) = self.take_over() {
                    return Resp::Error(format!("taking the directory over from the pinned release failed: {e:#}"));
                }
            } else {
                self.ops_done += 1;
                return crate::pinned::exec(self.pinned.as_ref().unwrap(), client, req);
            }
        }
        let use_peer = self.use_peer();
        let front = if use_peer { self.peer.as_mut().unwrap() } else { self.front.as_mut().unwrap() };
        match front {
            Front::Http(app) => {
                let h = Self::build_http(client, req);
                let r = app.request(&h);
                let d = Self::decode_http(req, &r);
                self.last_http = Some((h, r));
                d
            }
            Front::Lib(server) => lib_exec(server, client, req, true),
            Front::Bin { addr, .. } => {
                let addr = addr.clone();
                let h = Self::build_http(client, req);
                let r = self.sock_call(&addr, &h);
                let d = Self::decode_http(req, &r);
                self.last_http = Some((h, r));
                d
            }
            Front::Sock(s) => {
                let addr = s.addr.clone();
                let h = Self::build_http(client, req);
                let r = self.sock_call(&addr, &h);
                let d = Self::decode_http(req, &r);
                self.last_http = Some((h, r));
                d
            }
        }
    }

    /// Library entry without the create-on-demand convenience (raw protocol outcome).
    pub fn exec_lib_raw(&mut self, client: Uuid, req: &Req) -> Resp {
        match self.front.as_mut().unwrap() {
            Front::Lib(server) => lib_exec(server, client, req, false),
            _ => panic!("exec_lib_raw on http subject"),
        }
    }
}

/// Media types may carry parameters (RFC 9110 §8.3.1): about one upload in seven adds one.
fn ct_form(ct: &str, len: usize) -> String {
    match len % 14 {
        3 => format!("{ct}; charset=binary"),
        10 => format!("{ct};version=1"),
        _ => ct.to_string(),
    }
}

fn urg(u: SnapshotUrgency) -> Urg {
    match u {
        SnapshotUrgency::None => Urg::None,
        SnapshotUrgency::Low => Urg::Low,
        SnapshotUrgency::High => Urg::High,
    }
}

/// Execute one protocol request through the library. With `autocreate`, AddVersion for an
/// unknown client performs the documented create-then-add (what the HTTP handler does).
pub fn lib_exec(server: &Server, client: Uuid, req: &Req, autocreate: bool) -> Resp {
    let r = std::panic::catch_unwind(std::panic::AssertUnwindSafe(|| match req {
        Req::AddVersion { parent, data } => {
            let mut tries = 0;
            loop {
                tries += 1;
                match server.add_version(client, *parent, data.clone()) {
                    Ok((AddVersionResult::Ok(v), u)) => return Resp::AddOk { vid: v, urg: urg(u) },
                    Ok((AddVersionResult::ExpectedParentVersion(e), _)) => return Resp::AddConflict { expected: e },
                    Err(ServerError::NoSuchClient) => {
                        if !autocreate || tries > 3 {
                            return Resp::NoSuchClient;
                        }
                        let created = (|| -> anyhow::Result<()> {
                            let mut txn = server.txn(client).map_err(|e| anyhow::anyhow!("{e}"))?;
                            if txn.get_client()?.is_none() {
                                txn.new_client(NIL_VERSION_ID)?;
                                txn.commit()?;
                            }
                            Ok(())
                        })();
                        if let Err(e) = created {
                            return Resp::Error(format!("create client: {e:#}"));
                        }
                    }
                    Err(e) => return Resp::Error(format!("{e:#}")),
                }
            }
        }
        Req::GetChild { parent } => match server.get_child_version(client, *parent) {
            Ok(GetVersionResult::Success { version_id, parent_version_id, history_segment }) => {
                Resp::Found { vid: version_id, parent: parent_version_id, data: history_segment }
            }
            Ok(GetVersionResult::NotFound) => Resp::NotFound,
            Ok(GetVersionResult::Gone) => Resp::Gone,
            Err(ServerError::NoSuchClient) => Resp::NoSuchClient,
            Err(e) => Resp::Error(format!("{e:#}")),
        },
        Req::AddSnapshot { vid, data } => match server.add_snapshot(client, *vid, data.clone()) {
            Ok(()) => Resp::SnapOk,
            Err(ServerError::NoSuchClient) => Resp::NoSuchClient,
            Err(e) => Resp::Error(format!("{e:#}")),
        },
        Req::GetSnapshot => match server.get_snapshot(client) {
            Ok(Some((vid, data))) => Resp::Snap { vid, data },
            Ok(None) => Resp::NoSnap,
            Err(ServerError::NoSuchClient) => Resp::NoSuchClient,
            Err(e) => Resp::Error(format!("{e:#}")),
        },
    }));
    match r {
        Ok(r) => r,
        Err(p) => {
            let msg = if let Some(s) = p.downcast_ref::<String>() {
                s.clone()
            } else if let Some(s) = p.downcast_ref::<&str>() {
                s.to_string()
            } else {
                "panic".into()
            };
            Resp::Error(format!("panic: {msg}"))
        }
    }
}
