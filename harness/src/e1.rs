//! E1 — sequential histories executed on real subjects with observational monitors.
//!
//! The tracker follows what the subject actually answered (it is not a predictive model), so a
//! deviation that belongs to another property does not confuse the monitor of this one. Each
//! monitor evaluates its own property's predicate on the observed state.

use crate::dump::{dump_sql, dump_storage, sql_view, Dump};
use crate::gen::History;
use crate::ops::{first_diff, hex_prefix, IdRef, Op, OpKind, PaySpec, Req, Resp, Urg};
use crate::prng::Rng;
use crate::subject::{Backend, Config, Entry, Kind, Subject};
use serde_json::{json, Value};
use std::collections::{BTreeMap, HashMap, HashSet};
use uuid::Uuid;

#[derive(Clone, Copy, Debug, Default)]
pub struct Monitors {
    pub chain: bool,    // C01
    pub cas: bool,      // C02
    pub immut: bool,    // C07
    pub gcv: bool,      // C08
    pub snapwin: bool,  // C10
    pub snapget: bool,  // C11
    pub counter: bool,  // C12 (versions_since bookkeeping + urgency of real histories)
    pub frame: bool,    // C18
    pub isolation: bool, // C09 (dump of other clients unchanged)
    pub facts: bool,    // C14: record what the subject's own storage holds after each request
}

/// What the subject's own storage holds right after a request (read through the storage traits).
#[derive(Clone, Debug, Default)]
pub struct Facts {
    pub latest: Option<Uuid>,
    /// child of the request's parent id: (version id, parent id, len, hash)
    pub child: Option<(Uuid, Uuid, usize, u64)>,
    /// (version id, len, hash)
    pub snap: Option<(Uuid, usize, u64)>,
}

#[derive(Clone, Debug)]
pub struct Violation {
    pub property: &'static str,
    pub msg: String,
    pub op_index: usize,
}

#[derive(Clone, Debug)]
pub struct Acc {
    pub vid: Uuid,
    pub parent: Uuid,
    pub pay: PaySpec,
}

#[derive(Clone, Debug, PartialEq)]
pub struct SnapObs {
    pub vid: Uuid,
    pub data_len: usize,
    pub data_hash: u64,
    /// accepted versions since the snapshot was first observed as stored
    pub since: u32,
    pub ts: i64,
}

#[derive(Clone, Debug, Default)]
pub struct ClientObs {
    pub id: Uuid,
    /// some request may have created the client
    pub touched: bool,
    pub chain: Vec<Acc>,
    pub snap: Option<SnapObs>,
    /// every snapshot upload ever made for this client: (vid, payload)
    pub uploads: Vec<(Uuid, PaySpec)>,
    /// snapshot position history (index in chain) for monotonicity
    pub snap_pos_max: Option<usize>,
}

impl ClientObs {
    pub fn latest(&self) -> Uuid {
        self.chain.last().map(|a| a.vid).unwrap_or(Uuid::nil())
    }
    pub fn base(&self) -> Option<Uuid> {
        self.chain.first().map(|a| a.parent)
    }
    pub fn pos_of(&self, v: Uuid) -> Option<usize> {
        self.chain.iter().position(|a| a.vid == v)
    }
    pub fn child_of(&self, p: Uuid) -> Option<&Acc> {
        self.chain.iter().find(|a| a.parent == p)
    }
}

#[derive(Clone, Copy, Debug, PartialEq, Eq)]
pub enum SnapPred {
    Accept,
    Decline,
    /// v == the non-nil id the chain started from (not a stored version): unspecified
    Corner,
}

/// The snapshot acceptance rule of the property statement, evaluated on an observed state.
pub fn snap_predicate(pre: &ClientObs, vid: Uuid) -> SnapPred {
    let n = pre.chain.len();
    let pos_back = pre.pos_of(vid).map(|p| n - p); // 1 = latest
    let cur = pre.snap.as_ref().map(|s| s.vid);
    let in_window = matches!(pos_back, Some(k) if (1..=5).contains(&k));
    let newer_holds = match (pos_back, cur.and_then(|cv| pre.pos_of(cv)).map(|p| n - p)) {
        (Some(k), Some(sk)) => sk < k,
        _ => false,
    };
    if !vid.is_nil() && pos_back.is_none() && Some(vid) == pre.base() {
        return SnapPred::Corner;
    }
    if !vid.is_nil() && in_window && Some(vid) != cur && !newer_holds {
        SnapPred::Accept
    } else {
        SnapPred::Decline
    }
}

/// Abstracted response for cross-subject comparison.
#[derive(Clone, Debug, PartialEq, Eq, Hash)]
pub struct AbsResp(pub String);

pub use crate::evidence::Cov;

pub struct RunOut {
    pub abs: Vec<AbsResp>,
    /// abstract client record after each op (latest, snapshot vid, since)
    pub abs_state: Vec<String>,
    pub resps: Vec<Vec<Resp>>,
    pub http: Vec<Option<(crate::http::HttpReq, crate::http::HttpResp)>>,
    pub facts: Vec<Facts>,
    pub violations: Vec<Violation>,
    pub cov: Cov,
    pub clients: Vec<ClientObs>,
    /// concrete requests issued (for the C09 solo runs)
    pub reqs: Vec<Vec<Req>>,
    pub log: Vec<String>,
}

pub fn client_uuid(seed: u64, c: usize) -> Uuid {
    // every other client id is an arbitrary 128-bit value (any version nibble): still well-formed
    let mut r = Rng::new(seed).fork(0xC11E47 + c as u64);
    if c % 2 == 1 {
        r.uuid_any()
    } else {
        r.uuid()
    }
}
pub fn fresh_uuid(seed: u64, n: usize) -> Uuid {
    let mut r = Rng::new(seed).fork(0xF4E5_0000 + n as u64);
    if n % 2 == 1 {
        r.uuid_any()
    } else {
        r.uuid()
    }
}

/// How foreign ids are resolved in a C09 solo run: the concrete requests of the full run.
pub struct SoloSpec<'a> {
    pub client: usize,
    pub full_reqs: &'a [Vec<Req>],
    pub full_clients: &'a [ClientObs],
}

pub struct Runner<'a> {
    pub subj: &'a mut Subject,
    pub hist: &'a History,
    pub mon: Monitors,
    pub clients: Vec<ClientObs>,
    pub seen: HashSet<Uuid>,
    pub viol: Vec<Violation>,
    pub cov: Cov,
    pub rng: Rng,
    pub log: Vec<String>,
    pub walk_every: usize,
    pub solo: Option<SoloSpec<'a>>,
    cur: usize,
    cur_client: usize,
    /// C12 counting convention (does the version being added count?): both are tolerated as long
    /// as the whole run is consistent with one of them
    conv_before_ok: bool,
    conv_after_ok: bool,
    /// a client id no protocol request of the history uses (for refused-request probes)
    pub stranger: Uuid,
    /// C09: only the operating client's own ids are abstracted; all others stay concrete
    pub own_only: bool,
    /// property of the plan this run belongs to (attribution of panics)
    pub prop: &'static str,
    sym_cache: HashMap<Uuid, String>,
}

fn days_level(m: i128, t: i128) -> Urg {
    if m >= t * 3 / 2 {
        Urg::High
    } else if m >= t {
        Urg::Low
    } else {
        Urg::None
    }
}

/// Urgency specification (exact arithmetic): high if no snapshot or either measure reached
/// floor(3t/2), low if either reached t, none otherwise.
pub fn spec_urgency(cfg: &Config, snap: Option<(i64 /*age days*/, u32 /*since*/)>) -> Urg {
    match snap {
        None => Urg::High,
        Some((age, since)) => std::cmp::max(
            days_level(age as i128, cfg.snapshot_days as i128),
            days_level(since as i128, cfg.snapshot_versions as i128),
        ),
    }
}

impl<'a> Runner<'a> {
    pub fn new(subj: &'a mut Subject, hist: &'a History, mon: Monitors) -> Self {
        let clients = (0..hist.n_clients)
            .map(|c| ClientObs { id: client_uuid(hist.seed, c), ..Default::default() })
            .collect::<Vec<_>>();
        let mut seen = HashSet::new();
        for c in &clients {
            seen.insert(c.id);
        }
        let rng = Rng::new(hist.seed).fork(0x4D4F4E);
        Runner { subj, hist, mon, clients, seen, viol: vec![], cov: Cov::default(), rng, log: vec![], walk_every: 1, solo: None, cur: 0, cur_client: 0, conv_before_ok: true, conv_after_ok: true, stranger: Rng::new(hist.seed).fork(0x57A6).uuid(), own_only: false, prop: "", sym_cache: HashMap::new() }
    }

    fn v(&mut self, property: &'static str, msg: String) {
        if self.viol.len() < 5 {
            self.viol.push(Violation { property, msg, op_index: self.cur });
        }
    }

    pub fn resolve(&self, r: IdRef) -> Uuid {
        match r {
            IdRef::Nil => Uuid::nil(),
            IdRef::Latest(c) => self.clients[c].latest(),
            IdRef::Nth(c, k) => {
                let ch = &self.clients[c].chain;
                if ch.is_empty() {
                    // deterministic "unknown" id
                    fresh_uuid(self.hist.seed, 100_000 + c * 100 + k)
                } else {
                    ch[k % ch.len()].vid
                }
            }
            IdRef::Back(c, k) => {
                let ch = &self.clients[c].chain;
                if k >= 1 && k <= ch.len() {
                    ch[ch.len() - k].vid
                } else if k == ch.len() + 1 {
                    self.clients[c].base().unwrap_or(Uuid::nil())
                } else {
                    fresh_uuid(self.hist.seed, 200_000 + c * 100 + k)
                }
            }
            IdRef::Base(c) => self.clients[c].base().unwrap_or(Uuid::nil()),
            IdRef::SnapVid(c) => self.clients[c].snap.as_ref().map(|s| s.vid).unwrap_or_else(|| fresh_uuid(self.hist.seed, 300_000 + c)),
            IdRef::Fresh(n) => fresh_uuid(self.hist.seed, n),
            IdRef::BeforeBase(c, j) => {
                if let Some(b) = self.clients[c].base() {
                    for (o, cl) in self.clients.iter().enumerate() {
                        if o == c {
                            continue;
                        }
                        if let Some(p) = cl.pos_of(b) {
                            if p >= j {
                                return cl.chain[p - j].vid;
                            } else if p + 1 == j {
                                return cl.base().unwrap_or(Uuid::nil());
                            }
                        }
                    }
                }
                fresh_uuid(self.hist.seed, 400_000 + c * 100 + j)
            }
        }
    }

    /// classify an id relative to client c's observed state (for coverage keys)
    fn arg_class(&self, c: usize, id: Uuid) -> &'static str {
        let cl = &self.clients[c];
        if id.is_nil() {
            "nil"
        } else if id == cl.latest() {
            "latest"
        } else if Some(id) == cl.base() {
            "base"
        } else if let Some(p) = cl.pos_of(id) {
            let back = cl.chain.len() - p;
            match back {
                2 => "back2",
                3 => "back3",
                4 => "back4",
                5 => "back5",
                6 => "back6",
                _ => "older",
            }
        } else if self.clients.iter().enumerate().any(|(i, o)| i != c && (o.pos_of(id).is_some())) {
            "foreign"
        } else {
            "unknown"
        }
    }

    fn state_class(&self, c: usize) -> String {
        let cl = &self.clients[c];
        let l = match cl.chain.len() {
            0 => {
                if cl.touched {
                    "empty"
                } else {
                    "absent"
                }
            }
            1 => "len1",
            2..=4 => "len2-4",
            5 => "len5",
            6 => "len6",
            _ => "len7+",
        };
        let b = match cl.base() {
            None => "",
            Some(b) if b.is_nil() => ",base=nil",
            Some(_) => ",base=id",
        };
        let s = match &cl.snap {
            None => ",snap=none".to_string(),
            Some(s) => match cl.pos_of(s.vid) {
                Some(p) => {
                    let back = cl.chain.len() - p;
                    if back <= 5 {
                        format!(",snap=back{back}")
                    } else {
                        ",snap=old".into()
                    }
                }
                None => ",snap=offchain".into(),
            },
        };
        format!("{l}{b}{s}")
    }

    pub fn sym(&mut self, id: Uuid) -> String {
        if id.is_nil() {
            return "nil".into();
        }
        if !self.own_only {
            if let Some(s) = self.sym_cache.get(&id) {
                return s.clone();
            }
        }
        for (c, cl) in self.clients.iter().enumerate() {
            if self.own_only && c != self.cur_client {
                continue;
            }
            if let Some(p) = cl.pos_of(id) {
                let s = format!("V{c}.{p}");
                if !self.own_only {
                    self.sym_cache.insert(id, s.clone());
                }
                return s;
            }
        }
        // fresh ids are the same concrete uuid on every subject
        id.to_string()
    }

    fn abs(&mut self, r: &Resp) -> AbsResp {
        let s = match r {
            Resp::AddOk { vid, urg } => format!("AddOk({},{:?})", self.sym(*vid), urg),
            Resp::AddConflict { expected } => format!("Conflict({})", self.sym(*expected)),
            Resp::Found { vid, parent, data } => {
                format!("Found({},{},{}:{:016x})", self.sym(*vid), self.sym(*parent), data.len(), crate::dump::hash_bytes(data))
            }
            Resp::NotFound => "NotFound".into(),
            Resp::Gone => "Gone".into(),
            Resp::SnapOk => "SnapOk".into(),
            Resp::Snap { vid, data } => format!("Snap({},{}:{:016x})", self.sym(*vid), data.len(), crate::dump::hash_bytes(data)),
            Resp::NoSnap => "NoSnap".into(),
            Resp::NoSuchClient => "NoSuchClient".into(),
            Resp::Error(e) => format!("Error({e})"),
        };
        AbsResp(s)
    }

    fn known_ids(&self) -> Vec<Uuid> {
        let mut v: Vec<Uuid> = self.seen.iter().copied().collect();
        v.push(Uuid::nil());
        v.sort();
        v
    }

    pub fn dump(&self) -> Dump {
        let mut clients: Vec<Uuid> = self.clients.iter().map(|c| c.id).collect();
        clients.push(self.stranger);
        let mut d = if self.subj.kind.backend == Backend::Mem {
            dump_storage(self.subj.storage.as_ref(), &clients, &self.known_ids())
        } else {
            // for sqlite the SQL dump is complete by itself; client records come via the trait
            dump_storage(self.subj.storage.as_ref(), &clients, &[])
        };
        if let Some(p) = self.subj.db_path() {
            match dump_sql(&p) {
                Ok(rows) => d.sql = Some(rows),
                Err(e) => d.sql = Some(vec![format!("SQL DUMP ERROR: {e:#}")]),
            }
        }
        d
    }

    fn exec(&mut self, c: usize, req: &Req) -> Resp {
        let id = self.clients[c].id;
        let r = self.subj.exec(id, req);
        self.cov.evaluations += 1;
        r
    }

    /// update the tracker from an observed response
    fn observe(&mut self, c: usize, req: &Req, resp: &Resp, pay: Option<PaySpec>) {
        match (req, resp) {
            (Req::AddVersion { parent, .. }, Resp::AddOk { vid, .. }) => {
                let cl = &mut self.clients[c];
                cl.touched = true;
                cl.chain.push(Acc { vid: *vid, parent: *parent, pay: pay.unwrap() });
                if let Some(s) = &mut cl.snap {
                    s.since += 1;
                }
                self.seen.insert(*vid);
            }
            (Req::AddVersion { .. }, Resp::AddConflict { .. }) => {
                self.clients[c].touched = true;
            }
            (Req::AddVersion { .. }, _) => {
                // an errored AddVersion through HTTP may still have created the client
                self.clients[c].touched = true;
            }
            _ => {}
        }
    }

    fn client_record(&self, c: usize) -> Option<taskchampion_sync_server_core::Client> {
        let mut txn = self.subj.storage.txn(self.clients[c].id).ok()?;
        txn.get_client().ok()?
    }

    /// Refresh the tracker's view of the stored snapshot from the storage (quiescent point).
    /// Time passes (or the clock is stepped back): rewrite the stored snapshot of client `c` with a
    /// time stamp moved by `days_older` days, through the public storage API.
    fn shift_snapshot_time(&mut self, c: usize, days_older: i64) {
        let id = self.clients[c].id;
        let done = (|| -> anyhow::Result<bool> {
            let mut t = self.subj.storage.txn(id)?;
            let Some(cl) = t.get_client()? else { return Ok(false) };
            let Some(sn) = cl.snapshot else { return Ok(false) };
            let Some(data) = t.get_snapshot_data(sn.version_id)? else { return Ok(false) };
            let ts = sn.timestamp - chrono::Duration::days(days_older);
            t.set_snapshot(taskchampion_sync_server_core::Snapshot { version_id: sn.version_id, timestamp: ts, versions_since: sn.versions_since }, data)?;
            t.commit()?;
            Ok(true)
        })();
        match done {
            Ok(true) => {
                self.cov.hit(format!("snapshot-time-shifted:{}", if days_older < 0 { "ahead-of-clock" } else if days_older >= 90 { "months-older" } else { "days-older" }));
                self.refresh_snapshot(c);
            }
            Ok(false) => {}
            Err(e) => self.log.push(format!("shift_snapshot_time: {e:#}")),
        }
    }

    fn refresh_snapshot(&mut self, c: usize) {
        let rec = self.client_record(c);
        let id = self.clients[c].id;
        let snap = rec.and_then(|r| r.snapshot);
        match snap {
            None => self.clients[c].snap = None,
            Some(s) => {
                let data = self.subj.storage.txn(id).ok().and_then(|mut t| t.get_snapshot_data(s.version_id).ok().flatten());
                let (len, hash) = data.map(|d| (d.len(), crate::dump::hash_bytes(&d))).unwrap_or((0, 0));
                let prev = self.clients[c].snap.clone();
                let same = prev.as_ref().map(|p| p.vid == s.version_id && p.data_hash == hash && p.data_len == len).unwrap_or(false);
                if same {
                    // keep our own since counter
                    let p = self.clients[c].snap.as_mut().unwrap();
                    p.ts = s.timestamp.timestamp();
                } else {
                    self.clients[c].snap = Some(SnapObs { vid: s.version_id, data_len: len, data_hash: hash, since: 0, ts: s.timestamp.timestamp() });
                }
            }
        }
    }

    // ------------------------------------------------------------------ monitors

    /// C01: walk every client's chain through the subject's own entry point.
    fn mon_chain(&mut self, only: Option<usize>) {
        for c in 0..self.clients.len() {
            if let Some(o) = only {
                if o != c {
                    continue;
                }
            }
            let cl = self.clients[c].clone();
            if !cl.touched {
                continue;
            }
            let mut p = match cl.base() {
                Some(b) => b,
                None => Uuid::nil(),
            };
            let n = cl.chain.len();
            for i in 0..=n {
                let r = self.exec(c, &Req::GetChild { parent: p });
                if i < n {
                    let a = &cl.chain[i];
                    match &r {
                        Resp::Found { vid, parent, .. } if *vid == a.vid && *parent == a.parent => {
                            p = *vid;
                        }
                        other => {
                            self.v("C01", format!(
                                "chain walk of client #{c} on {}: step {i} from parent {p} expected accepted version #{i} (v={}, p={}) but got {}",
                                self.subj.kind.name(), a.vid, a.parent, other.short()
                            ));
                            return;
                        }
                    }
                } else {
                    match &r {
                        Resp::NotFound => {}
                        Resp::NoSuchClient if n == 0 => {}
                        other => {
                            self.v("C01", format!(
                                "chain walk of client #{c} on {}: after {n} accepted versions GetChildVersion({p}) at the latest should be not-found but got {}",
                                self.subj.kind.name(), other.short()
                            ));
                            return;
                        }
                    }
                }
            }
            self.cov.count("chain_walk_steps", n as u64 + 1);
        }
        // raw SQL structure: rows of each client == accepted set; no two rows share (client,parent)
        if let Some(p) = self.subj.db_path() {
            match sql_view(&p) {
                Err(_) => self.cov.count("sql_structure_scan_unavailable", 1),
                Ok(view) => {
                    let mut by_cp: HashMap<(String, String), usize> = HashMap::new();
                    for (_, cid, par, _) in &view.versions {
                        *by_cp.entry((cid.to_lowercase(), par.to_lowercase())).or_insert(0) += 1;
                    }
                    if let Some(((cid, par), n)) = by_cp.iter().find(|(_, n)| **n > 1) {
                        self.v("C01", format!("database holds {n} versions of client {cid} sharing parent {par} (fork)"));
                    }
                    for (c, cl) in self.clients.clone().iter().enumerate() {
                        let want: HashSet<String> = cl.chain.iter().map(|a| a.vid.to_string()).collect();
                        let cid = cl.id.to_string();
                        let have: HashSet<String> = view.versions.iter().filter(|r| Uuid::parse_str(&r.1).map(|u| u.to_string() == cid).unwrap_or(false)).map(|r| Uuid::parse_str(&r.0).map(|u| u.to_string()).unwrap_or(r.0.clone())).collect();
                        if want != have {
                            let extra: Vec<_> = have.difference(&want).take(3).cloned().collect();
                            let missing: Vec<_> = want.difference(&have).take(3).cloned().collect();
                            self.v("C01", format!("database rows of client #{c} differ from the accepted versions: unreachable/extra rows {extra:?}, missing rows {missing:?}"));
                        }
                    }
                    self.cov.count("sql_structure_scans", 1);
                }
            }
        }
    }

    /// C07: re-read accepted versions.
    fn mon_immut(&mut self, full: bool) {
        for c in 0..self.clients.len() {
            let chain = self.clients[c].chain.clone();
            // a third of the ledger after every operation; for long chains a bounded sample (the full
            // ledger is still re-read every 10 operations, after every reopen and at the end)
            let pct = if chain.len() > 60 { (34 * 60 / chain.len() as u32).max(2) } else { 34 };
            let full = full && (chain.len() <= 200 || self.cur % 50 == 49 || self.cur + 1 == self.hist.ops.len());
            for (i, a) in chain.iter().enumerate() {
                if !full && !self.rng.pct(pct) {
                    continue;
                }
                let r = self.exec(c, &Req::GetChild { parent: a.parent });
                self.cov.count("rereads", 1);
                let want = a.pay.bytes();
                match &r {
                    Resp::Found { vid, parent, data } if *vid == a.vid && *parent == a.parent && *data == want => {}
                    Resp::Found { vid, parent, data } => {
                        let d = first_diff(data, &want);
                        self.v("C07", format!(
                            "accepted version #{i} of client #{c} (v={}, p={}, {} bytes) later re-read on {} as v={vid}, p={parent}, {} bytes (first differing offset {:?}, got {} want {})",
                            a.vid, a.parent, want.len(), self.subj.kind.name(), data.len(), d,
                            hex_prefix(&data[d.unwrap_or(0).min(data.len())..], 8), hex_prefix(&want[d.unwrap_or(0).min(want.len())..], 8)
                        ));
                        return;
                    }
                    other => {
                        self.v("C07", format!(
                            "accepted version #{i} of client #{c} (v={}, p={}) is no longer returned for its parent on {}: got {}",
                            a.vid, a.parent, self.subj.kind.name(), other.short()
                        ));
                        return;
                    }
                }
            }
        }
    }

    /// C11: GetSnapshot pairing and usability as a base.
    fn mon_snapget(&mut self, c: usize, prev: Option<SnapObs>, uploaded: Option<(Uuid, Vec<u8>)>, pred: Option<SnapPred>) {
        let r = self.exec(c, &Req::GetSnapshot);
        match &r {
            Resp::NoSnap | Resp::NoSuchClient => {
                if let Some(p) = prev {
                    self.v("C11", format!("GetSnapshot of client #{c} answers {} although a snapshot for version {} had been stored and returned before", r.short(), p.vid));
                } else if pred == Some(SnapPred::Accept) && matches!(r, Resp::NoSnap) {
                    self.v("C11", format!("an AddSnapshot for version {:?} of client #{c} that the acceptance rule accepts was acknowledged, yet GetSnapshot answers not-found", uploaded.as_ref().map(|u| u.0)));
                }
                self.cov.hit("getsnapshot:none".into());
            }
            Resp::Snap { vid, data } => {
                let h = crate::dump::hash_bytes(data);
                let is_prev = prev.as_ref().map(|p| p.vid == *vid && p.data_len == data.len() && p.data_hash == h).unwrap_or(false);
                let is_new = uploaded.as_ref().map(|(uv, ud)| uv == vid && ud == data).unwrap_or(false);
                if !is_prev && !is_new {
                    // identify what it is for the report
                    let ups = self.clients[c].uploads.clone();
                    let by_bytes: Vec<_> = ups.iter().filter(|(_, p)| p.bytes() == *data).map(|(v, _)| *v).collect();
                    self.v("C11", format!(
                        "GetSnapshot of client #{c} on {} returned (v={vid}, {} bytes {}) which is neither the previously stored pair {:?} nor the pair just uploaded {:?}; uploads with these bytes were made for versions {:?} (id and bytes from different uploads, or a stale snapshot)",
                        self.subj.kind.name(), data.len(), hex_prefix(data, 8), prev.as_ref().map(|p| (p.vid, p.data_len)), uploaded.as_ref().map(|(v, d)| (*v, d.len())), by_bytes
                    ));
                    return;
                }
                self.cov.hit(format!("getsnapshot:{}", if is_new { "new" } else { "kept" }));
                match pred {
                    Some(SnapPred::Accept) if !is_new => {
                        self.v("C11", format!(
                            "an AddSnapshot for version {:?} of client #{c} that the acceptance rule accepts was acknowledged on {}, yet GetSnapshot still returns the older snapshot (v={vid}, {} bytes)",
                            uploaded.as_ref().map(|u| u.0), self.subj.kind.name(), data.len()
                        ));
                        return;
                    }
                    Some(SnapPred::Decline) if is_new && !is_prev => {
                        self.v("C11", format!(
                            "an AddSnapshot for version {vid} of client #{c} that the acceptance rule declines (previous snapshot: {:?}) replaced what GetSnapshot returns on {}: now (v={vid}, {} bytes {})",
                            prev.as_ref().map(|p| (p.vid, p.data_len)), self.subj.kind.name(), data.len(), hex_prefix(data, 8)
                        ));
                        return;
                    }
                    _ => {}
                }
                // walk from the snapshot version to the latest
                let latest = self.clients[c].latest();
                let mut p = *vid;
                let limit = self.clients[c].chain.len() + 2;
                let mut steps = 0;
                loop {
                    let r = self.exec(c, &Req::GetChild { parent: p });
                    steps += 1;
                    match r {
                        Resp::Found { vid: nv, .. } => {
                            p = nv;
                            if steps > limit {
                                self.v("C11", format!("walk from snapshot version {vid} of client #{c} does not terminate within {limit} steps"));
                                break;
                            }
                        }
                        Resp::NotFound => {
                            if p != latest {
                                self.v("C11", format!("walk from snapshot version {vid} of client #{c} ended with not-found at {p}, which is not the latest version {latest}"));
                            }
                            break;
                        }
                        other => {
                            self.v("C11", format!("walk from snapshot version {vid} of client #{c} met {} at parent {p} (snapshot is not a usable base)", other.short()));
                            break;
                        }
                    }
                }
                self.cov.count("snapshot_walk_steps", steps as u64);
            }
            other => {
                self.v("C11", format!("GetSnapshot of client #{c} failed: {}", other.short()));
            }
        }
    }

    /// C12 counters: stored versions_since equals accepted versions since the snapshot was stored.
    fn mon_counter(&mut self, c: usize) {
        if let Some(rec) = self.client_record(c) {
            if let (Some(s), Some(o)) = (rec.snapshot, self.clients[c].snap.clone()) {
                if s.version_id == o.vid {
                    self.cov.hit(format!("since:{}", o.since.min(12)));
                    if s.versions_since != o.since {
                        self.v("C12", format!(
                            "client #{c} on {}: stored versions-since-snapshot is {} but {} versions were accepted since the snapshot for {} was stored",
                            self.subj.kind.name(), s.versions_since, o.since, o.vid
                        ));
                    }
                }
            }
        }
    }

    /// C18: requests the server must refuse, framed by full dumps (HTTP subjects only).
    fn mon_refused(&mut self, c: usize, own_id_only: bool) {
        use crate::http::{HttpReq, CT_HISTORY, CT_SNAPSHOT};
        let known = self.clients[c].id.to_string();
        let stranger = self.stranger.to_string();
        let latest = self.clients[c].latest();
        let in_process = !self.subj.kind.socket;
        let which = if own_id_only { *self.rng.pick(&[1usize, 1, 3, 4, 5, 7, 9]) } else { self.rng.usize(if in_process { 12 } else { 10 }) };
        let (name, req): (&str, HttpReq) = match which {
            0 => ("add-version with empty body from a never-seen client", HttpReq::new("POST", &format!("/v1/client/add-version/{}", Uuid::nil())).header("X-Client-Id", &stranger).header("Content-Type", CT_HISTORY)),
            1 => ("add-version with empty body", HttpReq::new("POST", &format!("/v1/client/add-version/{latest}")).header("X-Client-Id", &known).header("Content-Type", CT_HISTORY)),
            2 => ("add-version with a wrong content type from a never-seen client", HttpReq::new("POST", &format!("/v1/client/add-version/{}", Uuid::nil())).header("X-Client-Id", &stranger).header("Content-Type", "text/plain").body(vec![1, 2, 3])),
            3 => {
                let ct = match self.rng.below(3) {
                    0 => CT_SNAPSHOT.to_string(),
                    1 => format!("{CT_HISTORY}+json"),
                    _ => format!("{CT_HISTORY}s"),
                };
                ("add-version with a wrong content type", HttpReq::new("POST", &format!("/v1/client/add-version/{latest}")).header("X-Client-Id", &known).header("Content-Type", &ct).body(vec![1, 2, 3]))
            }
            4 => ("add-snapshot with empty body", HttpReq::new("POST", &format!("/v1/client/add-snapshot/{latest}")).header("X-Client-Id", &known).header("Content-Type", CT_SNAPSHOT)),
            5 => {
                let ct = match self.rng.below(3) {
                    0 => CT_HISTORY.to_string(),
                    1 => format!("{CT_SNAPSHOT}+zstd"),
                    _ => CT_SNAPSHOT[..CT_SNAPSHOT.len() - 1].to_string(),
                };
                ("add-snapshot with a wrong content type", HttpReq::new("POST", &format!("/v1/client/add-snapshot/{latest}")).header("X-Client-Id", &known).header("Content-Type", &ct).body(vec![9; 20]))
            }
            6 => ("add-version without a client id", HttpReq::new("POST", &format!("/v1/client/add-version/{latest}")).header("Content-Type", CT_HISTORY).body(vec![1])),
            7 => ("add-version with a malformed parent id", HttpReq::new("POST", "/v1/client/add-version/not-a-uuid").header("X-Client-Id", &known).header("Content-Type", CT_HISTORY).body(vec![1])),
            8 => ("add-snapshot from a never-seen client", HttpReq::new("POST", &format!("/v1/client/add-snapshot/{latest}")).header("X-Client-Id", &stranger).header("Content-Type", CT_SNAPSHOT).body(vec![7; 30])),
            10 => {
                let mut r = HttpReq::new("POST", &format!("/v1/client/add-version/{latest}")).header("X-Client-Id", &known).header("Content-Type", CT_HISTORY).body_chunks(vec![vec![b'p'; 40], vec![b'q'; 50], vec![b'r'; 60]]);
                r.fail_after = Some(1 + self.rng.usize(2));
                ("add-version whose body transfer breaks off", r)
            }
            11 => {
                let mut r = HttpReq::new("POST", &format!("/v1/client/add-snapshot/{latest}")).header("X-Client-Id", &known).header("Content-Type", CT_SNAPSHOT).body_chunks(vec![vec![b's'; 40], vec![b't'; 50], vec![b'u'; 60]]);
                r.fail_after = Some(1 + self.rng.usize(2));
                ("add-snapshot whose body transfer breaks off", r)
            }
            _ => ("request to an unknown route", HttpReq::new("POST", "/v1/client/add-version").header("X-Client-Id", &known).header("Content-Type", CT_HISTORY).body(vec![1])),
        };
        let before = if self.mon.frame { Some(self.dump()) } else { None };
        let resp = self.subj.http(&req);
        self.cov.evaluations += 1;
        let after = if self.mon.frame { Some(self.dump()) } else { None };
        self.cov.hit(format!("frame:refused:{name}:status={}", resp.status));
        if own_id_only {
            self.cov.hit(format!("refused-before-first-request:{name}"));
        }
        // (an upload that broke off is not a complete request: nothing of it may be stored, whatever
        // the answer)
        if self.mon.frame && ((400..500).contains(&resp.status) || which >= 10) && before != after {
            self.v("C18", format!(
                "refused request ({name}: {}) on {} was answered {} but stored state changed: {}",
                req.describe(), self.subj.kind.name(), resp.status, before.as_ref().unwrap().diff(after.as_ref().unwrap())
            ));
        }
    }

    /// C11: a snapshot upload whose body transfer breaks off must not become the stored snapshot.
    fn mon_broken_snapshot(&mut self, c: usize) {
        use crate::http::{HttpReq, CT_SNAPSHOT};
        let latest = self.clients[c].latest();
        if latest.is_nil() {
            return;
        }
        let mut req = HttpReq::new("POST", &format!("/v1/client/add-snapshot/{latest}"))
            .header("X-Client-Id", &self.clients[c].id.to_string())
            .header("Content-Type", CT_SNAPSHOT)
            .body_chunks(vec![b"PARTIAL-SNAPSHOT-".to_vec(), vec![7u8; 60], vec![8u8; 60]]);
        req.fail_after = Some(1 + self.rng.usize(2));
        let before = self.exec(c, &Req::GetSnapshot);
        let resp = self.subj.http(&req);
        let after = self.exec(c, &Req::GetSnapshot);
        self.cov.hit(format!("broken-snapshot-upload:status={}", resp.status));
        if after != before {
            self.v("C11", format!(
                "an AddSnapshot for version {latest} whose body transfer broke off (answered {}) changed what GetSnapshot returns on {}: {} -> {} (bytes that belong to no completed upload)",
                resp.status, self.subj.kind.name(), before.short(), after.short()
            ));
        }
        self.refresh_snapshot(c);
    }

    /// C02: an upload whose body transfer breaks off must not be accepted as a (truncated) version.
    fn mon_broken_upload(&mut self, c: usize) {
        use crate::http::{HttpReq, CT_HISTORY};
        let latest = self.clients[c].latest();
        let n = 2 + self.rng.usize(3);
        let mut req = HttpReq::new("POST", &format!("/v1/client/add-version/{latest}"))
            .header("X-Client-Id", &self.clients[c].id.to_string())
            .header("Content-Type", CT_HISTORY)
            .body_chunks((0..n).map(|i| vec![b'k' + i as u8; 30 + i * 7]).collect());
        req.fail_after = Some(1 + self.rng.usize(n - 1));
        if self.mon.facts && !self.mon.cas {
            // C14: an upload that could not be read completely has no protocol outcome to encode
            let resp = self.subj.http(&req);
            self.cov.evaluations += 1;
            self.cov.hit(format!("broken-upload:status={}", resp.status));
            if (200..300).contains(&resp.status) {
                self.v("C14", format!(
                    "an AddVersion(parent={latest}) whose body transfer broke off after {:?} of {n} chunks was answered {} on {}: the response encodes an acceptance although no complete request was received (the library was never given these bytes)",
                    req.fail_after, resp.describe(), self.subj.kind.name()
                ));
            }
            return;
        }
        let before = self.dump();
        let resp = self.subj.http(&req);
        self.cov.evaluations += 1;
        let after = self.dump();
        self.cov.hit(format!("broken-upload:status={}", resp.status));
        if (200..300).contains(&resp.status) {
            self.v("C02", format!(
                "an AddVersion(parent={latest}) whose body transfer broke off after {:?} of {n} chunks was accepted on {} ({}): the stored payload cannot be the submitted one",
                req.fail_after, self.subj.kind.name(), resp.describe()
            ));
        } else if before != after {
            self.v("C02", format!("an AddVersion whose body transfer broke off was refused ({}) but changed stored state: {}", resp.status, before.diff(&after)));
        }
    }

    fn non_mutating(&self, req: &Req, resp: &Resp) -> bool {
        match (req, resp) {
            (Req::GetChild { .. }, _) => !matches!(resp, Resp::Error(_)),
            (Req::GetSnapshot, _) => !matches!(resp, Resp::Error(_)),
            (Req::AddVersion { .. }, Resp::AddConflict { .. }) => true,
            (Req::AddSnapshot { .. }, Resp::NoSuchClient) => true,
            _ => false,
        }
    }

    // ------------------------------------------------------------------ the run

    fn concrete(&self, i: usize, op: &Op) -> Vec<(Req, Option<PaySpec>)> {
        let own = |r: IdRef| -> bool {
            match r {
                IdRef::Latest(c) | IdRef::Nth(c, _) | IdRef::Back(c, _) | IdRef::Base(c) | IdRef::SnapVid(c) => c == op.client,
                IdRef::BeforeBase(_, _) => false,
                IdRef::Nil | IdRef::Fresh(_) => true,
            }
        };
        // in a solo run, ids that refer to other clients are taken from the full run
        let res = |r: IdRef, slot: usize| -> Uuid {
            if let Some(s) = &self.solo {
                if !own(r) {
                    let id = match &s.full_reqs[i][slot] {
                        Req::AddVersion { parent, .. } => *parent,
                        Req::GetChild { parent } => *parent,
                        Req::AddSnapshot { vid, .. } => *vid,
                        Req::GetSnapshot => Uuid::nil(),
                    };
                    // a reference through another client may still land on one of this client's
                    // own versions (e.g. the other chain starts from this one): name it by position
                    if let Some(p) = s.full_clients[s.client].pos_of(id) {
                        if let Some(a) = self.clients[s.client].chain.get(p) {
                            return a.vid;
                        }
                    }
                    return id;
                }
            }
            self.resolve(r)
        };
        match &op.kind {
            OpKind::AddVersion { parent, pay } => vec![(Req::AddVersion { parent: res(*parent, 0), data: pay.bytes() }, Some(*pay))],
            OpKind::GetChild { parent } => vec![(Req::GetChild { parent: res(*parent, 0) }, None)],
            OpKind::AddSnapshot { vid, pay } => vec![(Req::AddSnapshot { vid: res(*vid, 0), data: pay.bytes() }, Some(*pay))],
            OpKind::GetSnapshot => vec![(Req::GetSnapshot, None)],
            OpKind::Probe { parent, pay } => {
                let p = res(*parent, 0);
                vec![(Req::GetChild { parent: p }, None), (Req::AddVersion { parent: p, data: pay.bytes() }, Some(*pay))]
            }
            OpKind::Pause => {
                std::thread::sleep(std::time::Duration::from_millis(1100));
                vec![]
            }
            OpKind::ShiftSnapshotTime { .. } => vec![],
            OpKind::ResendStale { k, j } => {
                let ch = &self.clients[op.client].chain;
                if ch.is_empty() {
                    let pay = PaySpec::new(9, 9, self.hist.seed ^ i as u64);
                    vec![(Req::AddVersion { parent: Uuid::nil(), data: pay.bytes() }, Some(pay))]
                } else {
                    let a = &ch[k % ch.len()];
                    let b = &ch[j % ch.len()];
                    vec![(Req::AddVersion { parent: b.parent, data: a.pay.bytes() }, Some(a.pay))]
                }
            }
            OpKind::Resend { k } => {
                let ch = &self.clients[op.client].chain;
                if ch.is_empty() {
                    let pay = PaySpec::new(9, 9, self.hist.seed ^ i as u64);
                    vec![(Req::AddVersion { parent: Uuid::nil(), data: pay.bytes() }, Some(pay))]
                } else {
                    let a = &ch[k % ch.len()];
                    vec![(Req::AddVersion { parent: a.parent, data: a.pay.bytes() }, Some(a.pay))]
                }
            }
        }
    }

    pub fn run(mut self) -> RunOut {
        let mut abs = vec![];
        let mut abs_state = vec![];
        let mut resps = vec![];
        let mut https = vec![];
        let mut facts_out = vec![];
        let mut all_reqs = vec![];
        let mut reopen_rng = Rng::new(self.hist.seed).fork(0x5E0 + self.subj.kind.reopen_pct as u64);
        let mut trace_hash: u64 = 0xcbf29ce484222325;
        let ops = self.hist.ops.clone();
        let mut panicked = false;
        for (i, op) in ops.iter().enumerate() {
            if panicked {
                break;
            }
            self.cur = i;
            if let Some(s) = &self.solo {
                if op.client != s.client {
                    abs.push(AbsResp("-".into()));
                    abs_state.push(String::new());
                    resps.push(vec![]);
                    https.push(None);
                    all_reqs.push(vec![]);
                    continue;
                }
            }
            let mut reopened = false;
            if self.subj.kind.reopen_pct > 0 && reopen_rng.pct(self.subj.kind.reopen_pct) {
                if let Err(e) = self.subj.reopen() {
                    self.v("C13", format!("reopening the database failed: {e:#}"));
                }
                reopened = true;
                self.cov.count("reopens", 1);
            }
            let c = op.client;
            self.cur_client = c;
            if let OpKind::ShiftSnapshotTime { days_older } = &op.kind {
                self.shift_snapshot_time(c, *days_older);
            }
            // a request the HTTP layer refuses on its own, from a client the server has not seen yet,
            // right before that client's next real request (which must be answered as for a
            // never-seen client)
            if (self.mon.frame || self.mon.facts) && self.subj.kind.entry == Entry::Http && !self.clients[c].touched && self.rng.pct(35) {
                self.mon_refused(c, true);
            }
            let creqs = self.concrete(i, op);
            let need_dump = self.mon.frame || self.mon.cas || self.mon.snapwin || self.mon.isolation;
            let mut op_resps = vec![];
            let mut op_abs = String::new();
            let mut probe_gcv: Option<Resp> = None;
            for (slot, (req, pay)) in creqs.iter().enumerate() {
                for id in match req {
                    Req::AddVersion { parent, .. } => vec![*parent],
                    Req::GetChild { parent } => vec![*parent],
                    Req::AddSnapshot { vid, .. } => vec![*vid],
                    Req::GetSnapshot => vec![],
                } {
                    self.seen.insert(id);
                }
                let st_class = self.state_class(c);
                let arg_class = match req {
                    Req::AddVersion { parent, .. } => self.arg_class(c, *parent),
                    Req::GetChild { parent } => self.arg_class(c, *parent),
                    Req::AddSnapshot { vid, .. } => self.arg_class(c, *vid),
                    Req::GetSnapshot => "-",
                };
                let before = if need_dump { Some(self.dump()) } else { None };
                let pre = self.clients[c].clone();
                let seen_before_has = |id: &Uuid, me: &Self| me.seen.contains(id);
                let resp = self.exec(c, req);
                if let Resp::Error(e) = &resp {
                    if e.contains("panic") {
                        // the request produced no outcome at all; the storage object may be unusable
                        // from here on (poisoned lock), so the run ends with this finding
                        let p = self.prop;
                        self.v(if p.is_empty() { "C15" } else { p }, format!("{} for client #{c} on {} made the server panic ({e}): the request has no outcome and the response says nothing about what was stored", req.name(), self.subj.kind.name()));
                        panicked = true;
                        break;
                    }
                }
                if self.subj.kind.entry == Entry::Http {
                    https.push(self.subj.last_http.clone());
                } else {
                    https.push(None);
                }
                if self.mon.facts {
                    let mut f = Facts::default();
                    let cid = self.clients[c].id;
                    if let Ok(mut txn) = self.subj.storage.txn(cid) {
                        if let Ok(Some(cl)) = txn.get_client() {
                            f.latest = Some(cl.latest_version_id);
                            if let Some(sn) = cl.snapshot {
                                if let Ok(Some(d)) = txn.get_snapshot_data(sn.version_id) {
                                    f.snap = Some((sn.version_id, d.len(), crate::dump::hash_bytes(&d)));
                                }
                            }
                        }
                        let pid = match req {
                            Req::AddVersion { parent, .. } | Req::GetChild { parent } => Some(*parent),
                            _ => None,
                        };
                        if let Some(pid) = pid {
                            if let Ok(Some(v)) = txn.get_version_by_parent(pid) {
                                f.child = Some((v.version_id, v.parent_version_id, v.history_segment.len(), crate::dump::hash_bytes(&v.history_segment)));
                            }
                        }
                    }
                    facts_out.push(f);
                }
                let a = self.abs_pre_observe(&resp, c, req);
                let sit = format!("{}|{}|arg={}|{}", req.name(), st_class, arg_class, resp.outcome());
                self.cov.hit(sit.clone());
                for b in sit.bytes() {
                    trace_hash = (trace_hash ^ b as u64).wrapping_mul(0x100000001b3);
                }
                self.log.push(format!("#{i}.{slot} c{c} {} {} -> {}", req.name(), match req {
                    Req::AddVersion { parent, data } => format!("parent={parent} len={}", data.len()),
                    Req::GetChild { parent } => format!("parent={parent}"),
                    Req::AddSnapshot { vid, data } => format!("vid={vid} len={}", data.len()),
                    Req::GetSnapshot => String::new(),
                }, resp.short()));

                // ---- C02 (on the response, before the tracker moves)
                if self.mon.cas {
                    if let Req::AddVersion { parent, data } = req {
                        let expect_accept = pre.chain.is_empty() || *parent == pre.latest();
                        match &resp {
                            Resp::AddOk { vid, .. } => {
                                if !expect_accept {
                                    self.v("C02", format!(
                                        "AddVersion(parent={parent}) on {} was accepted (new id {vid}) although client #{c} has {} versions and its latest is {}",
                                        self.subj.kind.name(), pre.chain.len(), pre.latest()
                                    ));
                                }
                                if vid.is_nil() {
                                    self.v("C02", "accepted AddVersion returned the nil version id".into());
                                }
                                if seen_before_has(vid, &self) {
                                    self.v("C02", format!("accepted AddVersion returned version id {vid}, which is not new (it was issued or quoted earlier in this run)"));
                                }
                                // read back
                                let rb = self.exec(c, &Req::GetChild { parent: *parent });
                                match &rb {
                                    Resp::Found { vid: v2, parent: p2, data: d2 } if v2 == vid && p2 == parent && d2 == data => {}
                                    other => {
                                        if expect_accept {
                                            self.v("C02", format!(
                                                "accepted AddVersion(parent={parent}, {} bytes) -> {vid} on {}, but reading the child of {parent} back gives {} (stored parent/payload differ from the submitted ones){}",
                                                data.len(), self.subj.kind.name(), other.short(),
                                                if let Resp::Found { data: d2, .. } = other { format!("; first differing offset {:?}", first_diff(d2, data)) } else { String::new() }
                                            ));
                                        }
                                    }
                                }
                                // it must have become the latest
                                let rec = self.client_record(c);
                                if let Some(rec) = rec {
                                    if rec.latest_version_id != *vid {
                                        self.v("C02", format!("after accepted AddVersion -> {vid} the client's latest version is {}", rec.latest_version_id));
                                    }
                                }
                            }
                            Resp::AddConflict { expected } => {
                                if expect_accept {
                                    self.v("C02", format!(
                                        "AddVersion(parent={parent}) on {} was rejected (expected {expected}) although {}",
                                        self.subj.kind.name(),
                                        if pre.chain.is_empty() { "the client has no versions yet".to_string() } else { format!("{parent} is the client's latest version") }
                                    ));
                                } else if *expected != pre.latest() {
                                    self.v("C02", format!(
                                        "rejected AddVersion(parent={parent}) names {expected} as the expected parent, but the client's latest version is {}",
                                        pre.latest()
                                    ));
                                }
                                let after = self.dump();
                                if let Some(b) = &before {
                                    if *b != after {
                                        self.v("C02", format!("rejected AddVersion changed stored state: {}", b.diff(&after)));
                                    }
                                }
                            }
                            other => {
                                self.v("C02", format!("AddVersion(parent={parent}) on {} failed: {}", self.subj.kind.name(), other.short()));
                            }
                        }
                    }
                }

                // ---- C08 (paired probe)
                if self.mon.gcv {
                    match (req, slot, creqs.len()) {
                        (Req::GetChild { parent }, 0, 2) => {
                            probe_gcv = Some(resp.clone());
                            // found-ness against the accepted versions
                            let child = pre.child_of(*parent).cloned();
                            match (&resp, child) {
                                (Resp::Found { vid, parent: p2, .. }, Some(a)) => {
                                    if *vid != a.vid || *p2 != a.parent {
                                        self.v("C08", format!("GetChildVersion({parent}) returned v={vid}, p={p2} but the accepted child of {parent} is {}", a.vid));
                                    }
                                }
                                (Resp::Found { vid, .. }, None) => {
                                    self.v("C08", format!("GetChildVersion({parent}) returned version {vid} but no accepted version of client #{c} has parent {parent}"));
                                }
                                (other, Some(a)) => {
                                    self.v("C08", format!("GetChildVersion({parent}) answered {} although accepted version {} has that parent", other.short(), a.vid));
                                }
                                _ => {}
                            }
                        }
                        (Req::AddVersion { parent, .. }, 1, 2) => {
                            if let Some(g) = &probe_gcv {
                                let accepted = matches!(resp, Resp::AddOk { .. });
                                let rejected = matches!(resp, Resp::AddConflict { .. });
                                match g {
                                    Resp::NotFound | Resp::NoSuchClient => {
                                        if !accepted {
                                            self.v("C08", format!(
                                                "on {} in state [{}], GetChildVersion({parent}) answered not-found but the AddVersion({parent}) made right after it was not accepted: {}",
                                                self.subj.kind.name(), st_class, resp.short()
                                            ));
                                        }
                                    }
                                    Resp::Gone => {
                                        if !rejected {
                                            self.v("C08", format!(
                                                "on {} in state [{}], GetChildVersion({parent}) answered gone but the AddVersion({parent}) made right after it was not rejected: {}",
                                                self.subj.kind.name(), st_class, resp.short()
                                            ));
                                        }
                                    }
                                    Resp::Found { .. } => {}
                                    other => {
                                        self.v("C08", format!("GetChildVersion({parent}) failed: {}", other.short()));
                                    }
                                }
                                if !pre.touched && pre.chain.is_empty() {
                                    self.cov.hit("probe:never-seen-client".into());
                                    if !matches!(g, Resp::NotFound | Resp::NoSuchClient) {
                                        self.v("C08", format!("a client the server has never seen got {} instead of not-found", g.short()));
                                    }
                                }
                                self.cov.hit(format!("probe|{}|arg={}|gcv={}|add={}", st_class, arg_class, g.outcome(), resp.outcome()));
                            }
                        }
                        _ => {}
                    }
                }

                self.observe(c, req, &resp, *pay);

                // ---- C10 (window predicate on the observed pre-state)
                let mut uploaded: Option<(Uuid, Vec<u8>)> = None;
                if let Req::AddSnapshot { vid, data } = req {
                    self.clients[c].uploads.push((*vid, pay.unwrap()));
                    uploaded = Some((*vid, data.clone()));
                }
                let prev_snap = pre.snap.clone();
                if matches!(req, Req::AddSnapshot { .. }) || self.mon.snapget || self.mon.counter || self.mon.snapwin {
                    if matches!(req, Req::AddSnapshot { .. }) {
                        self.refresh_snapshot(c);
                    }
                }
                if self.mon.snapwin {
                    if let Req::AddSnapshot { vid, data } = req {
                        let n = pre.chain.len();
                        let pos_back = pre.pos_of(*vid).map(|p| n - p); // 1 = latest
                        let cur = pre.snap.as_ref().map(|s| s.vid);
                        let in_window = matches!(pos_back, Some(k) if k >= 1 && k <= 5);
                        let newer_holds = match (pos_back, cur.and_then(|cv| pre.pos_of(cv)).map(|p| n - p)) {
                            (Some(k), Some(sk)) => sk < k,
                            _ => false,
                        };
                        let corner = !vid.is_nil() && pos_back.is_none() && Some(*vid) == pre.base();
                        let must_accept = !vid.is_nil() && in_window && Some(*vid) != cur && !newer_holds;
                        let now = self.clients[c].snap.clone();
                        let stored_new = now.as_ref().map(|s| s.vid == *vid && s.data_len == data.len() && s.data_hash == crate::dump::hash_bytes(data)).unwrap_or(false) && Some(*vid) != cur;
                        let existed = pre.touched || !pre.chain.is_empty();
                        match &resp {
                            Resp::SnapOk => {}
                            Resp::NoSuchClient if !existed => {}
                            other => self.v("C10", format!("AddSnapshot({vid}) for client #{c} in state [{st_class}] was answered {} instead of success", other.short())),
                        }
                        if corner {
                            self.cov.hit(format!("snapwin:corner-base:{}", if stored_new { "stored" } else { "declined" }));
                        } else if must_accept {
                            self.cov.hit(format!("snapwin:accept:back{}:cur={}", pos_back.unwrap(), match cur.and_then(|cv| pre.pos_of(cv)).map(|p| n - p) { Some(k) => format!("back{k}"), None => if cur.is_some() { "offchain".into() } else { "none".into() } }));
                            if !stored_new {
                                self.v("C10", format!(
                                    "AddSnapshot for version {vid} (#{} most recent of {n}) of client #{c} on {} should replace the stored snapshot (current snapshot version: {:?}) but the stored snapshot is now {:?}",
                                    pos_back.unwrap(), self.subj.kind.name(), cur, now.as_ref().map(|s| (s.vid, s.data_len))
                                ));
                            } else {
                                let rec = self.client_record(c);
                                if let Some(s) = rec.and_then(|r| r.snapshot) {
                                    if s.versions_since != 0 {
                                        self.v("C10", format!("freshly stored snapshot has versions-since = {} instead of 0", s.versions_since));
                                    }
                                }
                            }
                        } else {
                            self.cov.hit(format!("snapwin:decline:arg={}:{}", arg_class, match pos_back { Some(k) if k > 5 => "too-old".into(), Some(k) => format!("back{k}"), None => "offchain".to_string() }));
                            // declined: snapshot and bookkeeping untouched
                            let after = self.dump();
                            if let Some(b) = &before {
                                if *b != after {
                                    self.v("C10", format!(
                                        "AddSnapshot({vid}) for client #{c} on {} in state [{st_class}] (arg {arg_class}) must be declined, yet stored state changed: {}",
                                        self.subj.kind.name(), b.diff(&after)
                                    ));
                                }
                            }
                        }
                        // monotonicity along the chain
                        if let Some(s) = &self.clients[c].snap {
                            if let Some(p) = self.clients[c].pos_of(s.vid) {
                                if let Some(m) = self.clients[c].snap_pos_max {
                                    if p < m {
                                        self.v("C10", format!("snapshot version of client #{c} moved backwards along the chain: position {m} -> {p}"));
                                    }
                                }
                                let m = self.clients[c].snap_pos_max.unwrap_or(0).max(p);
                                self.clients[c].snap_pos_max = Some(m);
                            }
                        }
                    }
                }

                // ---- C18
                if self.mon.frame {
                    let declined = matches!(req, Req::AddSnapshot { .. }) && matches!(resp, Resp::SnapOk) && {
                        // declined by the acceptance rule (the unspecified corner is judged by what
                        // the subject did: declined iff the stored snapshot is not the uploaded pair)
                        let (uv, ud) = uploaded.as_ref().unwrap();
                        match snap_predicate(&pre, *uv) {
                            SnapPred::Decline => true,
                            SnapPred::Accept => false,
                            SnapPred::Corner => {
                                let now = self.clients[c].snap.clone();
                                let is_new = now.as_ref().map(|s| s.vid == *uv && s.data_len == ud.len() && s.data_hash == crate::dump::hash_bytes(ud)).unwrap_or(false);
                                !is_new
                            }
                        }
                    };
                    if let (Resp::Error(e), Some(b)) = (&resp, &before) {
                        // a request the server answered with an error (no fault was injected)
                        let after = self.dump();
                        self.cov.hit(format!("frame:{}:error", req.name()));
                        if *b != after {
                            self.v("C18", format!("{} for client #{c} on {} was answered with an error ({e}) but stored state changed: {}", req.name(), self.subj.kind.name(), b.diff(&after)));
                        }
                    }
                    if self.non_mutating(req, &resp) || declined {
                        let after = self.dump();
                        self.cov.hit(format!("frame:{}:{}", req.name(), if declined { "declined" } else { resp.outcome() }));
                        if let Some(b) = &before {
                            if *b != after {
                                self.v("C18", format!(
                                    "{} for client #{c} on {} answered {} (a non-mutating outcome) but stored state changed: {}",
                                    req.name(), self.subj.kind.name(), if declined { "success without storing the snapshot".to_string() } else { resp.short() }, b.diff(&after)
                                ));
                            }
                        }
                    }
                }

                // ---- C09 (in the full run): other clients' state untouched
                if self.mon.isolation {
                    let after = self.dump();
                    if let Some(b) = &before {
                        for (j, other) in self.clients.clone().iter().enumerate() {
                            if j != c && b.clients.get(&other.id) != after.clients.get(&other.id) {
                                self.v("C09", format!(
                                    "{} by client #{c} on {} changed the stored state of client #{j}",
                                    req.name(), self.subj.kind.name()
                                ));
                            }
                        }
                        if let (Some(bs), Some(as_)) = (&b.sql, &after.sql) {
                            let me = self.clients[c].id.to_string();
                            let bo: Vec<_> = bs.iter().filter(|r| !r.to_lowercase().contains(&me)).collect();
                            let ao: Vec<_> = as_.iter().filter(|r| !r.to_lowercase().contains(&me)).collect();
                            if bo != ao {
                                self.v("C09", format!("{} by client #{c} changed database rows that do not belong to it", req.name()));
                            }
                        }
                    }
                }

                // ---- C11
                if self.mon.snapget && matches!(req, Req::AddVersion { .. } | Req::AddSnapshot { .. }) && !matches!(resp, Resp::NoSuchClient) {
                    let pred = match req {
                        Req::AddSnapshot { vid, .. } => Some(snap_predicate(&pre, *vid)),
                        _ => None,
                    };
                    self.mon_snapget(c, prev_snap.clone(), uploaded.clone(), pred);
                }
                // ---- C12: the age of a snapshot starts when it is accepted
                if self.mon.counter {
                    if let (Req::AddSnapshot { vid, .. }, Resp::SnapOk) = (req, &resp) {
                        if snap_predicate(&pre, *vid) == SnapPred::Accept {
                            if let Some(rec) = self.client_record(c).and_then(|r| r.snapshot) {
                                let skew = chrono::Utc::now().timestamp() - rec.timestamp.timestamp();
                                if rec.version_id == *vid && !(-3..=30).contains(&skew) {
                                    self.v("C12", format!("an AddSnapshot for client #{c} accepted just now on {} is stored with a time stamp {} s away from the present ({}): its age does not start at its acceptance, so urgency by age will be wrong by that much", self.subj.kind.name(), -skew, rec.timestamp));
                                }
                            }
                        }
                    }
                }
                // ---- C12 counters + urgency of real histories
                if self.mon.counter {
                    if let (Req::AddVersion { .. }, Resp::AddOk { urg, .. }) = (req, &resp) {
                        // urgency is computed from the record as it was before this version
                        let snap_before = pre.snap.as_ref().map(|s| {
                            let age = (chrono::Utc::now().timestamp() - s.ts) / 86400;
                            (age, s.since)
                        });
                        let want = spec_urgency(&self.subj.config, snap_before);
                        let want_after = spec_urgency(&self.subj.config, snap_before.map(|(a, s)| (a, s.saturating_add(1))));
                        self.cov.hit(format!("urgency:{:?}:{}", urg, if snap_before.is_some() { "snap" } else { "nosnap" }));
                        // a snapshot stamped ahead of the clock: the age is compared in whole days, and
                        // the harness reads whole seconds, so one day of slack on the negative side
                        let neg = snap_before.filter(|(a, _)| *a < 0);
                        let want_neg = neg.map(|(a, s)| (spec_urgency(&self.subj.config, Some((a + 1, s))), spec_urgency(&self.subj.config, Some((a + 1, s.saturating_add(1))))));
                        if *urg != want && want_neg.map(|w| *urg != w.0).unwrap_or(true) {
                            self.conv_before_ok = false;
                        }
                        if *urg != want_after && want_neg.map(|w| *urg != w.1).unwrap_or(true) {
                            self.conv_after_ok = false;
                        }
                        if !self.conv_before_ok && !self.conv_after_ok {
                            self.v("C12", format!(
                                "accepted AddVersion for client #{c} on {} reported urgency {:?} but with targets (days={}, versions={}) and snapshot (age days, versions since)={:?} the urgency must be {:?} ({:?} if the version being added is counted); no single counting convention explains this run",
                                self.subj.kind.name(), urg, self.subj.config.snapshot_days, self.subj.config.snapshot_versions, snap_before, want, want_after
                            ));
                        }
                    }
                    self.mon_counter(c);
                }

                op_abs.push_str(&a.0);
                op_abs.push(';');
                op_resps.push(resp);
            }
            if panicked {
                break;
            }
            all_reqs.push(creqs.iter().map(|(r, _)| r.clone()).collect());
            resps.push(op_resps);
            abs.push(AbsResp(op_abs));
            // abstract client record
            {
                let rec = self.client_record(c);
                let s = match rec {
                    None => "absent".to_string(),
                    Some(r) => {
                        let l = self.sym(r.latest_version_id);
                        let sn = match r.snapshot {
                            None => "none".to_string(),
                            Some(s) => format!("{}@since{}", self.sym(s.version_id), s.versions_since),
                        };
                        format!("latest={l},snap={sn}")
                    }
                };
                abs_state.push(s);
            }

            // ---- per-op global monitors
            if self.mon.snapget && self.subj.kind.entry == Entry::Http && !self.subj.kind.socket && self.rng.pct(8) {
                self.mon_broken_snapshot(c);
            }
            if (self.mon.cas || self.mon.facts) && self.subj.kind.entry == Entry::Http && !self.subj.kind.socket && self.clients[c].touched && self.rng.pct(if self.mon.cas { 12 } else { 5 }) {
                self.mon_broken_upload(c);
            }
            // (outside C18 at a low rate as well: a refused request is a no-op for every property)
            if self.subj.kind.entry == Entry::Http && self.rng.pct(if self.mon.frame { 30 } else { 6 }) {
                self.mon_refused(c, false);
            }
            if self.mon.chain && (i % self.walk_every == 0 || i + 1 == ops.len()) {
                let all = self.walk_every > 1 || i % 8 == 7 || i + 1 == ops.len() || reopened;
                self.mon_chain(if all { None } else { Some(c) });
            }
            if self.mon.immut {
                let full = reopened || i % 10 == 9 || i + 1 == ops.len();
                self.mon_immut(full);
            }
            if !self.viol.is_empty() {
                break;
            }
        }
        self.cov.traces.insert(trace_hash);
        RunOut {
            abs,
            abs_state,
            resps,
            http: https,
            facts: facts_out,
            violations: self.viol,
            cov: self.cov,
            clients: self.clients,
            reqs: all_reqs,
            log: self.log,
        }
    }

    /// Abstract a response; for an accepted AddVersion the new id is named by the position it is
    /// about to take in the chain.
    fn abs_pre_observe(&mut self, resp: &Resp, c: usize, _req: &Req) -> AbsResp {
        if let Resp::AddOk { vid, urg } = resp {
            let n = self.clients[c].chain.len();
            let s = format!("V{c}.{n}");
            if !self.own_only {
                self.sym_cache.insert(*vid, s.clone());
            }
            return AbsResp(format!("AddOk({s},{urg:?})"));
        }
        self.abs(resp)
    }
}

pub fn history_json(h: &History) -> Value {
    json!({"seed": h.seed, "clients": h.n_clients, "ops": h.ops.iter().map(|o| o.json()).collect::<Vec<_>>()})
}

/// Normalise the library's NoSuchClient to what HTTP can express (404) for comparisons between
/// entries.
pub fn norm_entry(a: &AbsResp) -> AbsResp {
    AbsResp(a.0.replace("NoSuchClient", "NotFound").replace("NoSnap", "NotFound"))
}

pub const ALL_KINDS: [Kind; 5] = [
    Kind::MEM_LIB,
    Kind::SQL_LIB,
    Kind { backend: Backend::Sqlite, entry: Entry::Lib, reopen_pct: 30, socket: false, peers: false, pinned_first: false },
    Kind::MEM_HTTP,
    Kind::SQL_HTTP,
];
