//! In-process HTTP access to the server's actix service, and a raw-socket HTTP/1.1 client.

use actix_web::dev::{Service, ServiceResponse};
use actix_web::http::header::{HeaderName, HeaderValue};
use actix_web::http::Method;
use actix_web::{test, App};
use futures::future::LocalBoxFuture;
use std::cell::RefCell;
use std::io::{Read, Write};
use std::net::TcpStream;
use std::panic::{catch_unwind, AssertUnwindSafe};
use std::time::Duration;
use taskchampion_sync_server::WebServer;

pub const CT_HISTORY: &str = "application/vnd.taskchampion.history-segment";
pub const CT_SNAPSHOT: &str = "application/vnd.taskchampion.snapshot";

#[derive(Clone, Debug)]
pub struct HttpReq {
    pub method: String,
    pub path: String,
    pub headers: Vec<(String, Vec<u8>)>,
    /// body as a sequence of chunks (empty vec = no body)
    pub chunks: Vec<Vec<u8>>,
    /// in-process only: the payload stream reports a transfer error after this many chunks
    /// (what the HTTP layer does for a corrupt or aborted body)
    pub fail_after: Option<usize>,
}

impl HttpReq {
    pub fn new(method: &str, path: &str) -> Self {
        HttpReq { method: method.into(), path: path.into(), headers: vec![], chunks: vec![], fail_after: None }
    }
    pub fn header(mut self, k: &str, v: &str) -> Self {
        self.headers.push((k.into(), v.as_bytes().to_vec()));
        self
    }
    pub fn header_bytes(mut self, k: &str, v: &[u8]) -> Self {
        self.headers.push((k.into(), v.to_vec()));
        self
    }
    pub fn body(mut self, b: Vec<u8>) -> Self {
        self.chunks = vec![b];
        self
    }
    pub fn body_chunks(mut self, c: Vec<Vec<u8>>) -> Self {
        self.chunks = c;
        self
    }
    pub fn body_len(&self) -> usize {
        self.chunks.iter().map(|c| c.len()).sum()
    }
    pub fn describe(&self) -> String {
        let hs: Vec<String> = self
            .headers
            .iter()
            .map(|(k, v)| format!("{}: {}", k, String::from_utf8_lossy(v).escape_debug()))
            .collect();
        format!(
            "{} {} [{}] body={}B in {} chunk(s)",
            self.method,
            self.path.escape_debug(),
            hs.join("; "),
            self.body_len(),
            self.chunks.len()
        )
    }
}

#[derive(Clone, Debug)]
pub struct HttpResp {
    pub status: u16,
    pub headers: Vec<(String, String)>,
    pub body: Vec<u8>,
    /// set when the request could not be delivered / the handler panicked
    pub failure: Option<String>,
}

impl HttpResp {
    pub fn header(&self, name: &str) -> Option<&str> {
        self.headers.iter().find(|(k, _)| k.eq_ignore_ascii_case(name)).map(|(_, v)| v.as_str())
    }
    pub fn header_count(&self, name: &str) -> usize {
        self.headers.iter().filter(|(k, _)| k.eq_ignore_ascii_case(name)).count()
    }
    pub fn failed(msg: String) -> Self {
        HttpResp { status: 0, headers: vec![], body: vec![], failure: Some(msg) }
    }
    pub fn describe(&self) -> String {
        let hs: Vec<String> = self.headers.iter().map(|(k, v)| format!("{k}: {v}")).collect();
        format!("{} [{}] body={}B{}", self.status, hs.join("; "), self.body.len(), self.failure.as_ref().map(|f| format!(" FAILURE={f}")).unwrap_or_default())
    }
}

trait HttpCall {
    fn call_req(&self, req: actix_http::Request) -> LocalBoxFuture<'_, Result<ServiceResponse, actix_web::Error>>;
}

impl<S> HttpCall for S
where
    S: Service<actix_http::Request, Response = ServiceResponse, Error = actix_web::Error>,
    S::Future: 'static,
{
    fn call_req(&self, req: actix_http::Request) -> LocalBoxFuture<'_, Result<ServiceResponse, actix_web::Error>> {
        Box::pin(self.call(req))
    }
}

thread_local! {
    static RT: RefCell<Option<actix_rt::Runtime>> = const { RefCell::new(None) };
}

fn with_rt<T>(f: impl FnOnce(&actix_rt::Runtime) -> T) -> T {
    RT.with(|c| {
        let mut b = c.borrow_mut();
        if b.is_none() {
            *b = Some(actix_rt::Runtime::new().expect("runtime"));
        }
        f(b.as_ref().unwrap())
    })
}

pub type Tap = std::sync::Arc<dyn Fn(&HttpReq, &HttpResp) + Send + Sync>;

/// The application service of a `WebServer`, callable synchronously from the current thread.
pub struct HttpApp {
    svc: Option<Box<dyn HttpCall>>,
    web: WebServer,
    pub tap: Option<Tap>,
}

impl HttpApp {
    pub fn new(web: WebServer) -> Self {
        let mut a = HttpApp { svc: None, web, tap: None };
        a.init();
        a
    }
    fn init(&mut self) {
        let web = self.web.clone();
        let svc = with_rt(|rt| {
            rt.block_on(async move {
                let app = App::new().configure(|c| web.config(c));
                let s = test::init_service(app).await;
                Box::new(s) as Box<dyn HttpCall>
            })
        });
        self.svc = Some(svc);
    }

    /// Whether the request can be expressed in-process (actix's TestRequest needs a valid URI,
    /// method and header names).
    pub fn expressible(req: &HttpReq) -> bool {
        if actix_web::http::Uri::try_from(req.path.as_str()).is_err() {
            return false;
        }
        if Method::from_bytes(req.method.as_bytes()).is_err() {
            return false;
        }
        for (k, v) in &req.headers {
            if HeaderName::from_bytes(k.as_bytes()).is_err() || HeaderValue::from_bytes(v).is_err() {
                return false;
            }
        }
        true
    }

    pub fn request(&mut self, req: &HttpReq) -> HttpResp {
        let resp = self.request_inner(req);
        if let Some(t) = &self.tap {
            t(req, &resp);
        }
        resp
    }

    fn request_inner(&mut self, req: &HttpReq) -> HttpResp {
        if !Self::expressible(req) {
            return HttpResp::failed("not expressible in-process".into());
        }
        let mut tr = test::TestRequest::default()
            .method(Method::from_bytes(req.method.as_bytes()).unwrap())
            .uri(&req.path);
        for (k, v) in &req.headers {
            tr = tr.append_header((
                HeaderName::from_bytes(k.as_bytes()).unwrap(),
                HeaderValue::from_bytes(v).unwrap(),
            ));
        }
        let mut areq = if req.chunks.len() == 1 && req.fail_after.is_none() {
            tr.set_payload(req.chunks[0].clone()).to_request()
        } else {
            tr.to_request()
        };
        if req.chunks.len() > 1 || req.fail_after.is_some() {
            let mut chunks: Vec<Result<bytes::Bytes, actix_web::error::PayloadError>> =
                req.chunks.iter().map(|c| Ok(bytes::Bytes::from(c.clone()))).collect();
            if let Some(n) = req.fail_after {
                chunks.truncate(n);
                chunks.push(Err(actix_web::error::PayloadError::Incomplete(None)));
            }
            *areq.payload() = actix_http::Payload::Stream {
                payload: Box::pin(futures::stream::iter(chunks)),
            };
        }
        let svc = self.svc.as_ref().unwrap();
        let r = catch_unwind(AssertUnwindSafe(|| {
            with_rt(|rt| {
                rt.block_on(async {
                    match svc.call_req(areq).await {
                        Ok(resp) => {
                            let status = resp.status().as_u16();
                            let headers: Vec<(String, String)> = resp
                                .headers()
                                .iter()
                                .map(|(k, v)| (k.as_str().to_string(), String::from_utf8_lossy(v.as_bytes()).to_string()))
                                .collect();
                            let body = actix_web::body::to_bytes(resp.into_body()).await;
                            match body {
                                Ok(b) => HttpResp { status, headers, body: b.to_vec(), failure: None },
                                Err(e) => HttpResp { status, headers, body: vec![], failure: Some(format!("body error: {e}")) },
                            }
                        }
                        Err(e) => {
                            // service-level error: render it the way actix's dispatcher would
                            let resp = e.error_response();
                            let status = resp.status().as_u16();
                            let headers: Vec<(String, String)> = resp
                                .headers()
                                .iter()
                                .map(|(k, v)| (k.as_str().to_string(), String::from_utf8_lossy(v.as_bytes()).to_string()))
                                .collect();
                            HttpResp { status, headers, body: vec![], failure: Some(format!("service error: {e}")) }
                        }
                    }
                })
            })
        }));
        match r {
            Ok(resp) => resp,
            Err(p) => {
                let msg = if let Some(s) = p.downcast_ref::<String>() {
                    s.clone()
                } else if let Some(s) = p.downcast_ref::<&str>() {
                    s.to_string()
                } else {
                    "panic".into()
                };
                // the service may be in an unknown state after a panic: rebuild it
                RT.with(|c| *c.borrow_mut() = None);
                self.svc = None;
                self.init();
                HttpResp::failed(format!("panic: {msg}"))
            }
        }
    }
}

// ---------------------------------------------------------------------------------------------
// raw socket client

#[derive(Clone, Debug)]
pub enum Framing {
    /// Content-Length body written in the given segment sizes (flushed between)
    ContentLength,
    /// Transfer-Encoding: chunked, one HTTP chunk per body chunk
    Chunked,
    /// an HTTP/1.0 request line (old proxies, `curl --http1.0`), Content-Length body
    Http10,
}

/// Send one request over a fresh TCP connection (Connection: close) and read the full response.
pub fn socket_request(addr: &str, req: &HttpReq, framing: Framing, timeout: Duration) -> HttpResp {
    match socket_request_inner(addr, req, framing, timeout) {
        Ok(r) => r,
        Err(e) => HttpResp::failed(format!("socket: {e}")),
    }
}

fn socket_request_inner(addr: &str, req: &HttpReq, framing: Framing, timeout: Duration) -> std::io::Result<HttpResp> {
    let mut s = TcpStream::connect(addr)?;
    s.set_read_timeout(Some(timeout))?;
    s.set_write_timeout(Some(timeout))?;
    s.set_nodelay(true)?;
    let mut head = Vec::new();
    if matches!(framing, Framing::Http10) {
        head.extend_from_slice(format!("{} {} HTTP/1.0\r\n", req.method, req.path).as_bytes());
        head.extend_from_slice(b"Host: localhost\r\n");
    } else {
        head.extend_from_slice(format!("{} {} HTTP/1.1\r\n", req.method, req.path).as_bytes());
        head.extend_from_slice(b"Host: localhost\r\nConnection: close\r\n");
    }
    for (k, v) in &req.headers {
        head.extend_from_slice(k.as_bytes());
        head.extend_from_slice(b": ");
        head.extend_from_slice(v);
        head.extend_from_slice(b"\r\n");
    }
    let has_body = !req.chunks.is_empty();
    let mut write_err: Option<std::io::Error> = None;
    if has_body {
        match framing {
            Framing::ContentLength | Framing::Http10 => {
                head.extend_from_slice(format!("Content-Length: {}\r\n\r\n", req.body_len()).as_bytes());
                if let Err(e) = s.write_all(&head) {
                    write_err = Some(e);
                }
                for c in &req.chunks {
                    if write_err.is_some() {
                        break;
                    }
                    if let Err(e) = s.write_all(c).and_then(|_| s.flush()) {
                        write_err = Some(e);
                    }
                }
            }
            Framing::Chunked => {
                head.extend_from_slice(b"Transfer-Encoding: chunked\r\n\r\n");
                if let Err(e) = s.write_all(&head) {
                    write_err = Some(e);
                }
                for c in &req.chunks {
                    if write_err.is_some() {
                        break;
                    }
                    if c.is_empty() {
                        continue; // an empty HTTP chunk would terminate the body
                    }
                    let r = s
                        .write_all(format!("{:x}\r\n", c.len()).as_bytes())
                        .and_then(|_| s.write_all(c))
                        .and_then(|_| s.write_all(b"\r\n"))
                        .and_then(|_| s.flush());
                    if let Err(e) = r {
                        write_err = Some(e);
                    }
                }
                if write_err.is_none() {
                    if let Err(e) = s.write_all(b"0\r\n\r\n") {
                        write_err = Some(e);
                    }
                }
            }
        }
    } else {
        // (an HTTP/1.0 POST without a length is refused by the codec before it reaches the application)
        if matches!(framing, Framing::Http10) && !matches!(req.method.as_str(), "GET" | "HEAD" | "DELETE" | "OPTIONS") && !req.headers.iter().any(|(k, _)| k.eq_ignore_ascii_case("content-length")) {
            head.extend_from_slice(b"Content-Length: 0\r\n");
        }
        head.extend_from_slice(b"\r\n");
        if let Err(e) = s.write_all(&head) {
            write_err = Some(e);
        }
    }
    let _ = s.flush();
    // read everything until EOF (Connection: close)
    let mut buf = Vec::new();
    let mut tmp = [0u8; 65536];
    loop {
        match s.read(&mut tmp) {
            Ok(0) => break,
            Ok(n) => buf.extend_from_slice(&tmp[..n]),
            Err(e) => {
                if buf.is_empty() {
                    return Err(write_err.unwrap_or(e));
                }
                break;
            }
        }
    }
    if buf.is_empty() {
        return Err(write_err.unwrap_or_else(|| std::io::Error::new(std::io::ErrorKind::UnexpectedEof, "connection closed without a response")));
    }
    parse_response(&buf, req.method == "HEAD")
        .ok_or_else(|| std::io::Error::new(std::io::ErrorKind::InvalidData, format!("unparsable response: {:?}", String::from_utf8_lossy(&buf[..buf.len().min(200)]))))
}

fn find(h: &[u8], n: &[u8]) -> Option<usize> {
    h.windows(n.len()).position(|w| w == n)
}

pub fn parse_response(buf: &[u8], head_only: bool) -> Option<HttpResp> {
    let he = find(buf, b"\r\n\r\n")?;
    let head = std::str::from_utf8(&buf[..he]).ok()?;
    let mut lines = head.split("\r\n");
    let status_line = lines.next()?;
    let mut sp = status_line.splitn(3, ' ');
    let _v = sp.next()?;
    let status: u16 = sp.next()?.parse().ok()?;
    let mut headers = vec![];
    for l in lines {
        let (k, v) = l.split_once(':')?;
        headers.push((k.trim().to_string(), v.trim().to_string()));
    }
    let rest = &buf[he + 4..];
    let get = |n: &str| headers.iter().find(|(k, _)| k.eq_ignore_ascii_case(n)).map(|(_, v)| v.clone());
    let body = if head_only {
        vec![]
    } else if get("transfer-encoding").map(|v| v.to_ascii_lowercase().contains("chunked")).unwrap_or(false) {
        let mut out = vec![];
        let mut r = rest;
        loop {
            let le = find(r, b"\r\n")?;
            let szs = std::str::from_utf8(&r[..le]).ok()?;
            let sz = usize::from_str_radix(szs.split(';').next()?.trim(), 16).ok()?;
            r = &r[le + 2..];
            if sz == 0 {
                break;
            }
            if r.len() < sz + 2 {
                return None;
            }
            out.extend_from_slice(&r[..sz]);
            r = &r[sz + 2..];
        }
        out
    } else if let Some(cl) = get("content-length") {
        let n: usize = cl.parse().ok()?;
        if rest.len() < n {
            return None;
        }
        rest[..n].to_vec()
    } else {
        rest.to_vec()
    };
    Some(HttpResp { status, headers, body, failure: None })
}

/// Send a Content-Length request whose body is written in two parts; `between` runs after the
/// first part has been flushed (used to overlap another upload on the same server worker).
pub fn socket_request_two_parts(addr: &str, req: &HttpReq, first: usize, timeout: Duration, between: &mut dyn FnMut()) -> HttpResp {
    let mut inner = || -> std::io::Result<HttpResp> {
        let body: Vec<u8> = req.chunks.concat();
        let mut s = TcpStream::connect(addr)?;
        s.set_read_timeout(Some(timeout))?;
        s.set_write_timeout(Some(timeout))?;
        s.set_nodelay(true)?;
        let mut head = Vec::new();
        head.extend_from_slice(format!("{} {} HTTP/1.1\r\nHost: localhost\r\nConnection: close\r\n", req.method, req.path).as_bytes());
        for (k, v) in &req.headers {
            head.extend_from_slice(k.as_bytes());
            head.extend_from_slice(b": ");
            head.extend_from_slice(v);
            head.extend_from_slice(b"\r\n");
        }
        head.extend_from_slice(format!("Content-Length: {}\r\n\r\n", body.len()).as_bytes());
        s.write_all(&head)?;
        let first = first.min(body.len());
        s.write_all(&body[..first])?;
        s.flush()?;
        std::thread::sleep(Duration::from_millis(40));
        between();
        s.write_all(&body[first..])?;
        s.flush()?;
        let mut buf = Vec::new();
        let mut tmp = [0u8; 65536];
        loop {
            match s.read(&mut tmp) {
                Ok(0) => break,
                Ok(n) => buf.extend_from_slice(&tmp[..n]),
                Err(e) => {
                    if buf.is_empty() {
                        return Err(e);
                    }
                    break;
                }
            }
        }
        parse_response(&buf, false).ok_or_else(|| std::io::Error::new(std::io::ErrorKind::InvalidData, "unparsable response"))
    };
    match inner() {
        Ok(r) => r,
        Err(e) => HttpResp::failed(format!("socket: {e}")),
    }
}

/// Several requests on ONE connection (HTTP/1.1 keep-alive). `pipelined`: all requests are written
/// before the first response is read. Bodies use Content-Length or chunked framing alternately.
/// Returns one response per request (a `failed` response once the connection is gone).
fn session_encode(req: &HttpReq, chunked: bool, last: bool) -> Vec<u8> {
    let mut out = Vec::new();
    out.extend_from_slice(format!("{} {} HTTP/1.1\r\nHost: localhost\r\n", req.method, req.path).as_bytes());
    if last {
        out.extend_from_slice(b"Connection: close\r\n");
    }
    for (k, v) in &req.headers {
        out.extend_from_slice(k.as_bytes());
        out.extend_from_slice(b": ");
        out.extend_from_slice(v);
        out.extend_from_slice(b"\r\n");
    }
    if req.chunks.is_empty() {
        if !matches!(req.method.as_str(), "GET" | "HEAD") {
            out.extend_from_slice(b"Content-Length: 0\r\n");
        }
        out.extend_from_slice(b"\r\n");
    } else if chunked {
        out.extend_from_slice(b"Transfer-Encoding: chunked\r\n\r\n");
        for c in req.chunks.iter().filter(|c| !c.is_empty()) {
            out.extend_from_slice(format!("{:x}\r\n", c.len()).as_bytes());
            out.extend_from_slice(c);
            out.extend_from_slice(b"\r\n");
        }
        out.extend_from_slice(b"0\r\n\r\n");
    } else {
        out.extend_from_slice(format!("Content-Length: {}\r\n\r\n", req.body_len()).as_bytes());
        for c in &req.chunks {
            out.extend_from_slice(c);
        }
    }
    out
}
/// read one response from `s`, using and refilling `buf`
fn session_read_one(s: &mut TcpStream, buf: &mut Vec<u8>, head_only: bool) -> std::io::Result<HttpResp> {
    let mut tmp = [0u8; 65536];
    let bad = |m: &str| std::io::Error::new(std::io::ErrorKind::InvalidData, m.to_string());
    let he = loop {
        if let Some(p) = find(buf, b"\r\n\r\n") {
            break p;
        }
        let n = s.read(&mut tmp)?;
        if n == 0 {
            return Err(std::io::Error::new(std::io::ErrorKind::UnexpectedEof, "connection closed before a complete response head"));
        }
        buf.extend_from_slice(&tmp[..n]);
    };
    let head = std::str::from_utf8(&buf[..he]).map_err(|_| bad("non-utf8 head"))?.to_string();
    let lower = head.to_ascii_lowercase();
    let chunked = lower.lines().any(|l| l.starts_with("transfer-encoding:") && l.contains("chunked"));
    let clen: Option<usize> = lower.lines().find_map(|l| l.strip_prefix("content-length:").and_then(|v| v.trim().parse().ok()));
    let total = if head_only {
        he + 4
    } else if chunked {
        // find the end of the chunked body
        loop {
            let mut pos = he + 4;
            let mut done = None;
            loop {
                let Some(le) = find(&buf[pos..], b"\r\n") else { break };
                let Ok(szs) = std::str::from_utf8(&buf[pos..pos + le]) else { return Err(bad("bad chunk size")) };
                let Ok(sz) = usize::from_str_radix(szs.split(';').next().unwrap_or("").trim(), 16) else { return Err(bad("bad chunk size")) };
                let next = pos + le + 2 + sz + 2;
                if sz == 0 {
                    if buf.len() >= pos + le + 2 + 2 {
                        done = Some(pos + le + 2 + 2);
                    }
                    break;
                }
                if buf.len() < next {
                    break;
                }
                pos = next;
            }
            if let Some(d) = done {
                break d;
            }
            let n = s.read(&mut tmp)?;
            if n == 0 {
                return Err(std::io::Error::new(std::io::ErrorKind::UnexpectedEof, "connection closed inside a chunked body"));
            }
            buf.extend_from_slice(&tmp[..n]);
        }
    } else if let Some(n) = clen {
        while buf.len() < he + 4 + n {
            let k = s.read(&mut tmp)?;
            if k == 0 {
                return Err(std::io::Error::new(std::io::ErrorKind::UnexpectedEof, "connection closed inside a body"));
            }
            buf.extend_from_slice(&tmp[..k]);
        }
        he + 4 + n
    } else {
        // delimited by close
        loop {
            let k = s.read(&mut tmp)?;
            if k == 0 {
                break;
            }
            buf.extend_from_slice(&tmp[..k]);
        }
        buf.len()
    };
    let one: Vec<u8> = buf.drain(..total).collect();
    parse_response(&one, head_only).ok_or_else(|| bad("unparsable response"))
}

/// One persistent HTTP/1.1 connection (keep-alive) that is re-opened when the server closes it.
pub struct KeepAlive {
    addr: String,
    stream: Option<TcpStream>,
    buf: Vec<u8>,
    pub requests_on_current_connection: u64,
    pub reconnects: u64,
    n: u64,
}

impl KeepAlive {
    pub fn new(addr: &str) -> Self {
        KeepAlive { addr: addr.to_string(), stream: None, buf: vec![], requests_on_current_connection: 0, reconnects: 0, n: 0 }
    }
    pub fn request(&mut self, req: &HttpReq, timeout: Duration) -> HttpResp {
        self.n += 1;
        let bytes = session_encode(req, self.n % 2 == 1 && !req.chunks.is_empty(), false);
        for attempt in 0..2 {
            if self.stream.is_none() {
                match TcpStream::connect(&self.addr) {
                    Ok(s) => {
                        let _ = s.set_read_timeout(Some(timeout));
                        let _ = s.set_write_timeout(Some(timeout));
                        let _ = s.set_nodelay(true);
                        self.stream = Some(s);
                        self.buf.clear();
                        self.requests_on_current_connection = 0;
                        self.reconnects += 1;
                    }
                    Err(e) => return HttpResp::failed(format!("socket: {e}")),
                }
            }
            let fresh = self.requests_on_current_connection == 0;
            let s = self.stream.as_mut().unwrap();
            let res = s.write_all(&bytes).and_then(|_| s.flush()).and_then(|_| session_read_one(s, &mut self.buf, req.method == "HEAD"));
            match res {
                Ok(r) => {
                    self.requests_on_current_connection += 1;
                    let close = r.header("connection").map(|v| v.eq_ignore_ascii_case("close")).unwrap_or(false);
                    if close {
                        self.stream = None;
                    }
                    return r;
                }
                Err(e) => {
                    // an idle connection may have been closed by the server between two requests: the
                    // request is sent again once, on a new connection (nothing of it was answered)
                    self.stream = None;
                    if fresh || attempt == 1 {
                        return HttpResp::failed(format!("socket: {e}"));
                    }
                }
            }
        }
        HttpResp::failed("socket: unreachable".into())
    }
}

pub fn socket_session(addr: &str, reqs: &[HttpReq], pipelined: bool, timeout: Duration) -> Vec<HttpResp> {
    let mut out: Vec<HttpResp> = vec![];
    let mut s = match TcpStream::connect(addr) {
        Ok(s) => s,
        Err(e) => return reqs.iter().map(|_| HttpResp::failed(format!("socket: {e}"))).collect(),
    };
    let _ = s.set_read_timeout(Some(timeout));
    let _ = s.set_write_timeout(Some(timeout));
    let _ = s.set_nodelay(true);
    let mut buf: Vec<u8> = vec![];
    let mut dead: Option<String> = None;
    if pipelined {
        let mut all = vec![];
        for (i, r) in reqs.iter().enumerate() {
            all.extend_from_slice(&session_encode(r, i % 2 == 1, i + 1 == reqs.len()));
        }
        // write from another thread so that large pipelines cannot dead-lock on full socket buffers
        let mut w = match s.try_clone() {
            Ok(w) => w,
            Err(e) => return reqs.iter().map(|_| HttpResp::failed(format!("socket: {e}"))).collect(),
        };
        let wt = std::thread::spawn(move || {
            let _ = w.write_all(&all).and_then(|_| w.flush());
        });
        for r in reqs {
            match &dead {
                Some(d) => out.push(HttpResp::failed(d.clone())),
                None => match session_read_one(&mut s, &mut buf, r.method == "HEAD") {
                    Ok(x) => out.push(x),
                    Err(e) => {
                        dead = Some(format!("socket: {e}"));
                        out.push(HttpResp::failed(format!("socket: {e}")));
                    }
                },
            }
        }
        let _ = s.shutdown(std::net::Shutdown::Both);
        let _ = wt.join();
    } else {
        for (i, r) in reqs.iter().enumerate() {
            if let Some(d) = &dead {
                out.push(HttpResp::failed(d.clone()));
                continue;
            }
            let bytes = session_encode(r, i % 2 == 1, i + 1 == reqs.len());
            let res = s.write_all(&bytes).and_then(|_| s.flush()).and_then(|_| session_read_one(&mut s, &mut buf, r.method == "HEAD"));
            match res {
                Ok(x) => out.push(x),
                Err(e) => {
                    dead = Some(format!("socket: {e}"));
                    out.push(HttpResp::failed(format!("socket: {e}")));
                }
            }
        }
    }
    out
}

/// Two Content-Length uploads on two connections whose bodies are written in the order
/// A.first, B.first, A.rest (A's response is read), B.rest (B's response is read): A completes while
/// B is suspended in the middle of its body.
pub fn socket_uploads_abab(addr: &str, a: &HttpReq, b: &HttpReq, timeout: Duration) -> (HttpResp, HttpResp) {
    fn head(req: &HttpReq, len: usize) -> Vec<u8> {
        let mut h = Vec::new();
        h.extend_from_slice(format!("{} {} HTTP/1.1\r\nHost: localhost\r\nConnection: close\r\n", req.method, req.path).as_bytes());
        for (k, v) in &req.headers {
            h.extend_from_slice(k.as_bytes());
            h.extend_from_slice(b": ");
            h.extend_from_slice(v);
            h.extend_from_slice(b"\r\n");
        }
        h.extend_from_slice(format!("Content-Length: {len}\r\n\r\n").as_bytes());
        h
    }
    fn read_all(s: &mut TcpStream) -> HttpResp {
        let mut buf = Vec::new();
        let mut tmp = [0u8; 65536];
        loop {
            match s.read(&mut tmp) {
                Ok(0) => break,
                Ok(n) => buf.extend_from_slice(&tmp[..n]),
                Err(e) => {
                    if buf.is_empty() {
                        return HttpResp::failed(format!("socket: {e}"));
                    }
                    break;
                }
            }
        }
        parse_response(&buf, false).unwrap_or_else(|| HttpResp::failed("unparsable response".into()))
    }
    let inner = || -> std::io::Result<(HttpResp, HttpResp)> {
        let (ba, bb) = (a.chunks.concat(), b.chunks.concat());
        let mut sa = TcpStream::connect(addr)?;
        let mut sb = TcpStream::connect(addr)?;
        for s in [&sa, &sb] {
            s.set_read_timeout(Some(timeout))?;
            s.set_write_timeout(Some(timeout))?;
            s.set_nodelay(true)?;
        }
        let pause = || std::thread::sleep(Duration::from_millis(40));
        sa.write_all(&head(a, ba.len()))?;
        sa.write_all(&ba[..ba.len() / 2])?;
        sa.flush()?;
        pause();
        sb.write_all(&head(b, bb.len()))?;
        sb.write_all(&bb[..bb.len() / 2])?;
        sb.flush()?;
        pause();
        sa.write_all(&ba[ba.len() / 2..])?;
        sa.flush()?;
        let ra = read_all(&mut sa);
        sb.write_all(&bb[bb.len() / 2..])?;
        sb.flush()?;
        let rb = read_all(&mut sb);
        Ok((ra, rb))
    };
    match inner() {
        Ok(r) => r,
        Err(e) => (HttpResp::failed(format!("socket: {e}")), HttpResp::failed(format!("socket: {e}"))),
    }
}

/// `n` uploads that have sent their head and the first bytes of their body and then wait (requests
/// "in progress" inside the server). Complete them with `finish_held_uploads`.
pub fn hold_uploads(addr: &str, n: usize, mk: &dyn Fn(usize) -> HttpReq) -> Vec<(TcpStream, Vec<u8>)> {
    let mut held = vec![];
    for i in 0..n {
        let req = mk(i);
        let body = req.chunks.concat();
        let Ok(mut s) = TcpStream::connect(addr) else { continue };
        let _ = s.set_read_timeout(Some(Duration::from_secs(20)));
        let _ = s.set_write_timeout(Some(Duration::from_secs(20)));
        let _ = s.set_nodelay(true);
        let mut head = Vec::new();
        head.extend_from_slice(format!("{} {} HTTP/1.1\r\nHost: localhost\r\nConnection: close\r\n", req.method, req.path).as_bytes());
        for (k, v) in &req.headers {
            head.extend_from_slice(k.as_bytes());
            head.extend_from_slice(b": ");
            head.extend_from_slice(v);
            head.extend_from_slice(b"\r\n");
        }
        head.extend_from_slice(format!("Content-Length: {}\r\n\r\n", body.len()).as_bytes());
        let first = body.len() / 2;
        if s.write_all(&head).and_then(|_| s.write_all(&body[..first])).and_then(|_| s.flush()).is_ok() {
            held.push((s, body[first..].to_vec()));
        }
    }
    std::thread::sleep(Duration::from_millis(80));
    held
}

/// Send the rest of every held upload and read the responses.
pub fn finish_held_uploads(held: Vec<(TcpStream, Vec<u8>)>) -> Vec<HttpResp> {
    let mut out = vec![];
    for (mut s, rest) in held {
        let _ = s.write_all(&rest).and_then(|_| s.flush());
        let mut buf = Vec::new();
        let mut tmp = [0u8; 16384];
        loop {
            match s.read(&mut tmp) {
                Ok(0) | Err(_) => break,
                Ok(n) => buf.extend_from_slice(&tmp[..n]),
            }
        }
        out.push(parse_response(&buf, false).unwrap_or_else(|| HttpResp::failed("no response".into())));
    }
    out
}
