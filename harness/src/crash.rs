//! E3 — crash explorer: shadow file-system model over the VFS event log, process-crash and
//! power-loss image construction, recovery with the code under test.

use crate::prng::Rng;
use crate::vfs::Ev;
use std::collections::BTreeMap;
use std::path::Path;

#[derive(Clone, Debug)]
pub enum Op {
    Write { off: i64, data: Vec<u8> },
    Trunc { size: i64 },
}

fn apply(buf: &mut Vec<u8>, op: &Op) {
    match op {
        Op::Write { off, data } => {
            let end = *off as usize + data.len();
            if buf.len() < end {
                buf.resize(end, 0);
            }
            buf[*off as usize..end].copy_from_slice(data);
        }
        Op::Trunc { size } => {
            buf.resize(*size as usize, 0);
        }
    }
}

#[derive(Clone, Debug, Default)]
pub struct FileModel {
    /// as the OS shows it now
    pub exists: bool,
    pub cur: Vec<u8>,
    /// content (and existence) at the last successful sync; None = never synced since creation
    pub durable: Option<Vec<u8>>,
    /// writes / truncates issued since the last sync
    pub pending: Vec<Op>,
    /// deleted without a directory sync: the durable image may still contain the file
    pub deleted_unsynced: bool,
}

#[derive(Clone, Debug, Default)]
pub struct Shadow {
    pub files: BTreeMap<String, FileModel>,
}

pub fn tracked(name: &str) -> bool {
    !name.starts_with('<') && !name.ends_with("-shm")
}

impl Shadow {
    /// Start from the files of an existing directory (all content durable).
    pub fn from_dir(dir: &Path) -> Shadow {
        let mut s = Shadow::default();
        if let Ok(rd) = std::fs::read_dir(dir) {
            for e in rd.flatten() {
                if e.file_type().map(|t| t.is_file()).unwrap_or(false) {
                    let name = e.path().to_string_lossy().to_string();
                    if !tracked(&name) {
                        continue;
                    }
                    if let Ok(data) = std::fs::read(e.path()) {
                        s.files.insert(name, FileModel { exists: true, cur: data.clone(), durable: Some(data), pending: vec![], deleted_unsynced: false });
                    }
                }
            }
        }
        s
    }

    pub fn apply(&mut self, ev: &Ev) {
        match ev {
            Ev::Open { file, flags } => {
                if !tracked(file) {
                    return;
                }
                let create = flags & 0x4 != 0; // SQLITE_OPEN_CREATE
                let e = self.files.entry(file.clone()).or_default();
                if !e.exists && create {
                    *e = FileModel { exists: true, cur: vec![], durable: None, pending: vec![], deleted_unsynced: false };
                }
            }
            Ev::Write { file, off, data } => {
                if let Some(f) = self.files.get_mut(file) {
                    let op = Op::Write { off: *off, data: data.clone() };
                    apply(&mut f.cur, &op);
                    f.pending.push(op);
                }
            }
            Ev::Truncate { file, size } => {
                if let Some(f) = self.files.get_mut(file) {
                    let op = Op::Trunc { size: *size };
                    apply(&mut f.cur, &op);
                    f.pending.push(op);
                }
            }
            Ev::Sync { file, .. } => {
                if let Some(f) = self.files.get_mut(file) {
                    f.durable = Some(f.cur.clone());
                    f.pending.clear();
                }
                // an unlink that preceded a later successful fsync in the same directory is taken
                // to be durable (journaled file systems commit metadata in order); without this
                // the rollback journal of the initial switch to WAL mode could "come back" after
                // any number of later commits, which SQLite itself does not defend against unless
                // synchronous=EXTRA
                self.files.retain(|_, f| !f.deleted_unsynced);
            }
            Ev::Delete { file, sync_dir } => {
                if let Some(f) = self.files.get_mut(file) {
                    if *sync_dir || f.durable.is_none() && f.pending.is_empty() {
                        self.files.remove(file);
                    } else {
                        f.exists = false;
                        f.deleted_unsynced = true;
                    }
                }
            }
            Ev::Close { .. } | Ev::Mark(_) => {}
        }
    }

    /// Does the recorded I/O explain what is in `dir` now? (`None` = yes.) A difference means the
    /// code did file I/O that bypasses SQLite's VFS (std::fs writes, renames): the crash model
    /// cannot vouch for such I/O.
    pub fn unexplained(&self, dir: &Path) -> Option<String> {
        let mut on_disk: BTreeMap<String, Vec<u8>> = BTreeMap::new();
        if let Ok(rd) = std::fs::read_dir(dir) {
            for e in rd.flatten() {
                if e.file_type().map(|t| t.is_file()).unwrap_or(false) {
                    let name = e.path().to_string_lossy().to_string();
                    if tracked(&name) {
                        if let Ok(d) = std::fs::read(e.path()) {
                            on_disk.insert(short(&name).to_string(), d);
                        }
                    }
                }
            }
        }
        let mut model: BTreeMap<String, &Vec<u8>> = BTreeMap::new();
        for (n, f) in &self.files {
            if f.exists {
                model.insert(short(n).to_string(), &f.cur);
            }
        }
        for (n, d) in &on_disk {
            match model.get(n) {
                None => return Some(format!("file {n} ({} bytes) exists although no I/O through the VFS created it", d.len())),
                Some(m) if *m != d => return Some(format!("file {n} holds {} bytes that differ from the {} bytes the recorded writes produce", d.len(), m.len())),
                _ => {}
            }
        }
        for n in model.keys() {
            if !on_disk.contains_key(n) {
                return Some(format!("file {n} was written through the VFS but is gone"));
            }
        }
        None
    }

    /// If a file of `dir` holds exactly what another file written through the VFS holds (and that
    /// other file is gone), the code renamed it into place outside the VFS. Returns (from, to, what
    /// of `from` was durable when it was renamed: its last synced content).
    pub fn renamed_into_place(&self, dir: &Path) -> Option<(String, String, Option<Vec<u8>>)> {
        // exactly one file the VFS created is gone without a VFS delete, and exactly one file on disk
        // is not what the recorded writes produce
        let gone: Vec<(&String, &FileModel)> = self.files.iter().filter(|(n, f)| f.exists && !Path::new(n.as_str()).exists()).collect();
        let mut odd: Vec<String> = vec![];
        for e in std::fs::read_dir(dir).ok()?.flatten() {
            if !e.file_type().map(|t| t.is_file()).unwrap_or(false) {
                continue;
            }
            let name = e.path().to_string_lossy().to_string();
            if !tracked(&name) {
                continue;
            }
            let Ok(d) = std::fs::read(e.path()) else { continue };
            let explained = self.files.iter().any(|(n, f)| short(n) == short(&name) && f.exists && f.cur == d);
            if !explained {
                odd.push(name);
            }
        }
        if gone.len() == 1 && odd.len() == 1 {
            let (n, f) = gone[0];
            return Some((short(n).to_string(), short(&odd[0]).to_string(), f.durable.clone()));
        }
        None
    }

    /// What the OS shows after a process crash (all writes so far; page cache intact).
    pub fn process_image(&self) -> Image {
        let mut im = Image::default();
        for (n, f) in &self.files {
            if f.exists {
                im.files.insert(n.clone(), f.cur.clone());
            }
        }
        im
    }

    /// Number of pending (unsynced) operations over all files.
    pub fn pending_total(&self) -> usize {
        self.files.values().map(|f| f.pending.len() + if f.deleted_unsynced { 1 } else { 0 }).sum()
    }

    /// A power-loss image: per file the content at its last sync plus the chosen subset of the
    /// later writes (in issue order); unsynced deletes are applied iff `deletes_durable`; a file
    /// that was never synced exists only if `unsynced_files_exist`.
    pub fn power_image(&self, keep: &dyn Fn(&str, usize) -> bool, deletes_durable: bool, unsynced_files_exist: bool) -> Image {
        let mut im = Image::default();
        for (n, f) in &self.files {
            if f.deleted_unsynced && deletes_durable {
                continue;
            }
            if !f.exists && !f.deleted_unsynced {
                continue;
            }
            let mut buf = match &f.durable {
                Some(d) => d.clone(),
                None => {
                    if !unsynced_files_exist {
                        continue;
                    }
                    vec![]
                }
            };
            for (i, op) in f.pending.iter().enumerate() {
                if keep(n, i) {
                    apply(&mut buf, op);
                }
            }
            im.files.insert(n.clone(), buf);
        }
        im
    }

    /// The family of power-loss images explored at one crash point.
    pub fn power_images(&self, rng: &mut Rng, n_random: usize, tear: bool) -> Vec<(String, Image)> {
        let mut out = vec![];
        let total = self.pending_total();
        out.push(("none,deletes-durable".to_string(), self.power_image(&|_, _| false, true, false)));
        if total == 0 {
            return out;
        }
        out.push(("none,deletes-undone".to_string(), self.power_image(&|_, _| false, false, true)));
        out.push(("all,deletes-undone".to_string(), self.power_image(&|_, _| true, false, true)));
        out.push(("all,deletes-durable".to_string(), self.power_image(&|_, _| true, true, true)));
        // per file with pending writes: prefixes, single drops, single keeps
        for (name, f) in &self.files {
            let p = f.pending.len();
            if p == 0 {
                continue;
            }
            let budget = 6usize;
            let step = (p / budget).max(1);
            let mut k = 1;
            while k < p {
                let kk = k;
                let nm = name.clone();
                out.push((format!("prefix {kk}/{p} of {}", short(name)), self.power_image(&move |n, i| n != nm || i < kk, true, true)));
                k += step;
            }
            for _ in 0..budget.min(p) {
                let d = rng.usize(p);
                let nm = name.clone();
                out.push((format!("drop #{d}/{p} of {}", short(name)), self.power_image(&move |n, i| n != nm || i != d, true, true)));
                let nm2 = name.clone();
                out.push((format!("keep only #{d}/{p} of {}", short(name)), self.power_image(&move |n, i| n == nm2 && i == d, true, true)));
            }
        }
        for r in 0..n_random {
            let seed = rng.next_u64();
            let dd = rng.pct(50);
            let ue = rng.pct(70);
            let density = [10u64, 50, 90][rng.usize(3)];
            out.push((
                format!("random subset #{r} ({density}%)"),
                self.power_image(
                    &move |n, i| {
                        let mut h = seed ^ (i as u64).wrapping_mul(0x9E3779B97F4A7C15);
                        for b in n.bytes() {
                            h = (h ^ b as u64).wrapping_mul(0x100000001b3);
                        }
                        (h >> 7) % 100 < density
                    },
                    dd,
                    ue,
                ),
            ));
        }
        if tear {
            // one write torn at 512-byte sector granularity: a prefix of its sectors reaches the disk
            for (name, f) in &self.files {
                let p = f.pending.len();
                if p == 0 {
                    continue;
                }
                let t = rng.usize(p);
                if let Op::Write { off, data } = &f.pending[t] {
                    if data.len() > 512 {
                        let sectors = data.len() / 512;
                        let keep_s = 1 + rng.usize(sectors.max(1));
                        let mut buf = f.durable.clone().unwrap_or_default();
                        for (i, op) in f.pending.iter().enumerate() {
                            if i < t {
                                apply(&mut buf, op);
                            } else if i == t {
                                apply(&mut buf, &Op::Write { off: *off, data: data[..(keep_s * 512).min(data.len())].to_vec() });
                            }
                        }
                        let mut im = self.power_image(&|_, _| true, true, true);
                        im.files.insert(name.clone(), buf);
                        out.push((format!("torn write #{t} of {} after {keep_s} sectors", short(name)), im));
                    }
                }
            }
        }
        out
    }
}

fn short(n: &str) -> &str {
    n.rsplit('/').next().unwrap_or(n)
}

#[derive(Clone, Debug, Default, PartialEq)]
pub struct Image {
    pub files: BTreeMap<String, Vec<u8>>,
}

impl Image {
    /// Write the image into `dir` (file names are re-based onto it).
    pub fn materialize(&self, dir: &Path) -> std::io::Result<()> {
        std::fs::create_dir_all(dir)?;
        for (n, data) in &self.files {
            let base = short(n);
            std::fs::write(dir.join(base), data)?;
        }
        Ok(())
    }
    pub fn fingerprint(&self) -> u64 {
        let mut h: u64 = 0xcbf29ce484222325;
        for (n, d) in &self.files {
            for b in short(n).bytes() {
                h = (h ^ b as u64).wrapping_mul(0x100000001b3);
            }
            h ^= crate::dump::hash_bytes(d);
            h = h.wrapping_mul(0x100000001b3);
        }
        h
    }
}
