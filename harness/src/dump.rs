//! Complete protocol-visible state dumps, taken at quiescent points through the storage's own
//! transactions (closure of point look-ups over every id ever seen) and, for SQLite, by direct
//! SQL over all tables (sees rows no protocol request can reach).

use std::collections::BTreeMap;
use std::hash::Hasher;
use std::path::Path;
use taskchampion_sync_server_core::Storage;
use uuid::Uuid;

pub fn hash_bytes(b: &[u8]) -> u64 {
    let mut h = std::collections::hash_map::DefaultHasher::new();
    h.write(b);
    h.write_usize(b.len());
    h.finish()
}

#[derive(Clone, Debug, PartialEq, Eq, Default)]
pub struct ClientDump {
    pub exists: bool,
    pub latest: Option<Uuid>,
    /// (version id, timestamp seconds, versions_since)
    pub snapshot: Option<(Uuid, i64, u32)>,
    /// (len, hash) of the snapshot data
    pub snapshot_data: Option<(usize, u64)>,
    /// version id -> (parent, len, hash)
    pub versions: BTreeMap<Uuid, (Uuid, usize, u64)>,
    /// parent id -> child version id
    pub children: BTreeMap<Uuid, Uuid>,
    pub errors: Vec<String>,
}

#[derive(Clone, Debug, PartialEq, Eq, Default)]
pub struct Dump {
    pub clients: BTreeMap<Uuid, ClientDump>,
    pub sql: Option<Vec<String>>,
}

impl Dump {
    /// human readable difference (empty if equal)
    pub fn diff(&self, other: &Dump) -> String {
        let mut out = vec![];
        for (c, a) in &self.clients {
            match other.clients.get(c) {
                None => out.push(format!("client {c}: missing in second dump")),
                Some(b) => {
                    if a != b {
                        if a.exists != b.exists {
                            out.push(format!("client {c}: exists {} -> {}", a.exists, b.exists));
                        }
                        if a.latest != b.latest {
                            out.push(format!("client {c}: latest {:?} -> {:?}", a.latest, b.latest));
                        }
                        if a.snapshot != b.snapshot {
                            out.push(format!("client {c}: snapshot meta {:?} -> {:?}", a.snapshot, b.snapshot));
                        }
                        if a.snapshot_data != b.snapshot_data {
                            out.push(format!("client {c}: snapshot data {:?} -> {:?}", a.snapshot_data, b.snapshot_data));
                        }
                        if a.versions != b.versions {
                            out.push(format!("client {c}: versions {} -> {} entries (or content changed)", a.versions.len(), b.versions.len()));
                        }
                        if a.children != b.children {
                            out.push(format!("client {c}: child index changed"));
                        }
                        if a.errors != b.errors {
                            out.push(format!("client {c}: lookup errors {:?} -> {:?}", a.errors, b.errors));
                        }
                    }
                }
            }
        }
        if self.sql != other.sql {
            let a = self.sql.clone().unwrap_or_default();
            let b = other.sql.clone().unwrap_or_default();
            let only_a: Vec<_> = a.iter().filter(|r| !b.contains(r)).take(3).cloned().collect();
            let only_b: Vec<_> = b.iter().filter(|r| !a.contains(r)).take(3).cloned().collect();
            out.push(format!("sql rows differ: only-before={only_a:?} only-after={only_b:?}"));
        }
        out.join("; ")
    }
}

/// Dump through the public storage traits.
pub fn dump_storage(st: &dyn Storage, clients: &[Uuid], ids: &[Uuid]) -> Dump {
    let mut d = Dump::default();
    for c in clients {
        let mut cd = ClientDump::default();
        match st.txn(*c) {
            Err(e) => cd.errors.push(format!("txn: {e:#}")),
            Ok(mut txn) => {
                match txn.get_client() {
                    Err(e) => cd.errors.push(format!("get_client: {e:#}")),
                    Ok(None) => {}
                    Ok(Some(cl)) => {
                        cd.exists = true;
                        cd.latest = Some(cl.latest_version_id);
                        if let Some(s) = cl.snapshot {
                            cd.snapshot = Some((s.version_id, s.timestamp.timestamp(), s.versions_since));
                            match txn.get_snapshot_data(s.version_id) {
                                Ok(Some(data)) => cd.snapshot_data = Some((data.len(), hash_bytes(&data))),
                                Ok(None) => {}
                                Err(e) => cd.errors.push(format!("get_snapshot_data: {e:#}")),
                            }
                        }
                    }
                }
                for id in ids {
                    match txn.get_version(*id) {
                        Ok(Some(v)) => {
                            cd.versions.insert(v.version_id, (v.parent_version_id, v.history_segment.len(), hash_bytes(&v.history_segment)));
                        }
                        Ok(None) => {}
                        Err(e) => cd.errors.push(format!("get_version({id}): {e:#}")),
                    }
                    match txn.get_version_by_parent(*id) {
                        Ok(Some(v)) => {
                            cd.children.insert(*id, v.version_id);
                            cd.versions.insert(v.version_id, (v.parent_version_id, v.history_segment.len(), hash_bytes(&v.history_segment)));
                        }
                        Ok(None) => {}
                        Err(e) => cd.errors.push(format!("get_version_by_parent({id}): {e:#}")),
                    }
                }
            }
        }
        d.clients.insert(*c, cd);
    }
    d
}

fn val(v: rusqlite::types::ValueRef<'_>) -> String {
    use rusqlite::types::ValueRef::*;
    match v {
        Null => "NULL".into(),
        Integer(i) => format!("i{i}"),
        Real(f) => format!("r{f}"),
        Text(t) => format!("t'{}'", String::from_utf8_lossy(t)),
        Blob(b) => format!("b[{}:{:016x}]", b.len(), hash_bytes(b)),
    }
}

/// All rows of all tables, canonicalised and sorted (schema-agnostic).
pub fn dump_sql(db: &Path) -> anyhow::Result<Vec<String>> {
    let con = rusqlite::Connection::open_with_flags(db, rusqlite::OpenFlags::SQLITE_OPEN_READ_WRITE)?;
    con.busy_timeout(std::time::Duration::from_secs(10))?;
    let mut rows_out = vec![];
    let tables: Vec<String> = {
        let mut st = con.prepare("SELECT name FROM sqlite_master WHERE type='table' AND name NOT LIKE 'sqlite_%' ORDER BY name")?;
        let r = st.query_map([], |r| r.get::<_, String>(0))?;
        r.collect::<Result<_, _>>()?
    };
    for t in tables {
        let mut st = con.prepare(&format!("SELECT * FROM \"{t}\""))?;
        let names: Vec<String> = st.column_names().iter().map(|s| s.to_string()).collect();
        let n = names.len();
        let mut rows = st.query([])?;
        while let Some(r) = rows.next()? {
            let mut parts = vec![];
            for i in 0..n {
                parts.push(format!("{}={}", names[i], val(r.get_ref(i)?)));
            }
            rows_out.push(format!("{t}: {}", parts.join(",")));
        }
    }
    rows_out.sort();
    Ok(rows_out)
}

/// Raw typed view of the two known tables for structural checks (forks, orphans).
#[derive(Clone, Debug, Default)]
pub struct SqlView {
    /// (version_id, client_id, parent_version_id, len)
    pub versions: Vec<(String, String, String, usize)>,
    /// (client_id, latest_version_id, snapshot_version_id)
    pub clients: Vec<(String, Option<String>, Option<String>)>,
}

pub fn sql_view(db: &Path) -> anyhow::Result<SqlView> {
    let con = rusqlite::Connection::open_with_flags(db, rusqlite::OpenFlags::SQLITE_OPEN_READ_WRITE)?;
    con.busy_timeout(std::time::Duration::from_secs(10))?;
    let mut v = SqlView::default();
    {
        let mut st = con.prepare("SELECT CAST(version_id AS TEXT), CAST(client_id AS TEXT), CAST(parent_version_id AS TEXT), length(history_segment) FROM versions")?;
        let mut rows = st.query([])?;
        while let Some(r) = rows.next()? {
            v.versions.push((
                r.get::<_, Option<String>>(0)?.unwrap_or_default(),
                r.get::<_, Option<String>>(1)?.unwrap_or_default(),
                r.get::<_, Option<String>>(2)?.unwrap_or_default(),
                r.get::<_, Option<i64>>(3)?.unwrap_or(0) as usize,
            ));
        }
    }
    {
        let mut st = con.prepare("SELECT CAST(client_id AS TEXT), CAST(latest_version_id AS TEXT), CAST(snapshot_version_id AS TEXT) FROM clients")?;
        let mut rows = st.query([])?;
        while let Some(r) = rows.next()? {
            v.clients.push((r.get::<_, Option<String>>(0)?.unwrap_or_default(), r.get(1)?, r.get(2)?));
        }
    }
    Ok(v)
}
