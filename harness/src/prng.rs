//! Small deterministic, splittable PRNG (SplitMix64). All random choices of the harness
//! derive from `VERIF_SEED` through this type, so every case can be regenerated from
//! (seed, case index).

#[derive(Clone, Debug)]
pub struct Rng(u64);

fn mix(mut z: u64) -> u64 {
    z = (z ^ (z >> 30)).wrapping_mul(0xBF58476D1CE4E5B9);
    z = (z ^ (z >> 27)).wrapping_mul(0x94D049BB133111EB);
    z ^ (z >> 31)
}

impl Rng {
    pub fn new(seed: u64) -> Self {
        Rng(mix(seed ^ 0x9E3779B97F4A7C15))
    }
    /// Independent stream derived from this one and a label (does not advance `self`).
    pub fn fork(&self, label: u64) -> Rng {
        Rng(mix(self.0 ^ mix(label.wrapping_add(0xD1B54A32D192ED03))))
    }
    pub fn next_u64(&mut self) -> u64 {
        self.0 = self.0.wrapping_add(0x9E3779B97F4A7C15);
        mix(self.0)
    }
    pub fn below(&mut self, n: u64) -> u64 {
        if n == 0 {
            0
        } else {
            self.next_u64() % n
        }
    }
    pub fn range(&mut self, lo: u64, hi_incl: u64) -> u64 {
        lo + self.below(hi_incl - lo + 1)
    }
    pub fn usize(&mut self, n: usize) -> usize {
        self.below(n as u64) as usize
    }
    /// true with probability pct/100
    pub fn pct(&mut self, pct: u32) -> bool {
        self.below(100) < pct as u64
    }
    pub fn pick<'a, T>(&mut self, xs: &'a [T]) -> &'a T {
        &xs[self.usize(xs.len())]
    }
    /// weighted choice: returns index
    pub fn weighted(&mut self, w: &[u32]) -> usize {
        let tot: u64 = w.iter().map(|x| *x as u64).sum();
        let mut r = self.below(tot.max(1));
        for (i, x) in w.iter().enumerate() {
            if r < *x as u64 {
                return i;
            }
            r -= *x as u64;
        }
        w.len() - 1
    }
    pub fn uuid(&mut self) -> uuid::Uuid {
        let a = self.next_u64();
        let b = self.next_u64();
        let mut bytes = [0u8; 16];
        bytes[..8].copy_from_slice(&a.to_le_bytes());
        bytes[8..].copy_from_slice(&b.to_le_bytes());
        // make it a well-formed v4 so it is indistinguishable from server-made ids
        bytes[6] = (bytes[6] & 0x0f) | 0x40;
        bytes[8] = (bytes[8] & 0x3f) | 0x80;
        uuid::Uuid::from_bytes(bytes)
    }
    /// any 128-bit value as a uuid (arbitrary version / variant nibbles; still a well-formed id)
    pub fn uuid_any(&mut self) -> uuid::Uuid {
        let a = self.next_u64();
        let b = self.next_u64();
        let mut bytes = [0u8; 16];
        bytes[..8].copy_from_slice(&a.to_le_bytes());
        bytes[8..].copy_from_slice(&b.to_le_bytes());
        if bytes == [0u8; 16] {
            bytes[0] = 1;
        }
        uuid::Uuid::from_bytes(bytes)
    }
    pub fn shuffle<T>(&mut self, xs: &mut [T]) {
        for i in (1..xs.len()).rev() {
            let j = self.usize(i + 1);
            xs.swap(i, j);
        }
    }
}
