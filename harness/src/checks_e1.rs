//! The E1-based checks (C01, C02, C07, C08, C09, C10, C11, C13, C14, C18 and the history part
//! of C12): plans, parallel driver, cross-subject comparisons, small-scope enumerations.

use crate::e1::{history_json, norm_entry, Cov, Monitors, RunOut, Runner, SoloSpec};
use crate::evidence::{CheckResult, Found, Shard, ShardOut, Verdict};
use crate::gen::{generate, GenProfile, History};
use crate::http::{HttpResp, CT_HISTORY, CT_SNAPSHOT};
use crate::ops::{IdRef, Op, OpKind, PaySpec, Req, Resp, Urg};
use crate::prng::Rng;
use crate::subject::{Backend, Config, Entry, Kind, Subject};
use serde_json::{json, Value};
use std::sync::atomic::{AtomicBool, AtomicUsize, Ordering};
use std::sync::Mutex;
use uuid::Uuid;

#[derive(Clone, Copy, Debug, PartialEq, Eq)]
pub enum Compare {
    None,
    /// C13: same-entry subjects must agree response by response
    Backends,
    /// C14: HTTP subject vs library twin on the same backend
    Twin,
    /// C09: projection onto each client re-run alone
    TwoRun,
}

#[derive(Clone)]
pub struct Plan {
    pub property: &'static str,
    pub mon: Monitors,
    pub kinds: Vec<Kind>,
    pub profile: GenProfile,
    pub compare: Compare,
    pub n_random: usize,
    pub scope: Option<Scope>,
    pub config: Config,
    pub walk_every: usize,
    pub required: Vec<&'static str>,
    pub rule: &'static str,
    pub assumptions: Vec<String>,
    /// extra long histories: (count, ops)
    pub long: (usize, usize),
    /// also run a SQLite/HTTP subject that is configured with an allow-list holding the history's
    /// clients and is re-created (storage object and web server) at 40% of the gaps
    pub allowlisted_variant: bool,
    /// HTTP subjects reached over a real socket, run for every case in thorough and for one case in
    /// `socket_every` in quick
    pub socket_kinds: Vec<Kind>,
    pub socket_every: usize,
    /// one case in `binary_every` is also run against the real executable (SQLite, allow-list
    /// holding the history's clients, kill -9 + restart at 8% of the gaps); 0 = never
    pub binary_every: usize,
}

#[derive(Clone, Copy, Debug, PartialEq, Eq)]
pub enum ScopeKind {
    /// final op = paired probe GetChildVersion(p);AddVersion(p) for every class of p
    Parent,
    /// final op = AddSnapshot(v) for every class of v
    Snapshot,
}

#[derive(Clone, Copy, Debug)]
pub struct Scope {
    pub kind: ScopeKind,
    pub max_len: usize,
}

/// Enumerate the small scope: chain length 0..=max_len x base {nil, non-nil} x existing snapshot
/// {none, taken when the chain had j versions} x final argument class. States are built by
/// protocol requests only.
pub fn scope_histories(sc: Scope, seed: u64) -> Vec<History> {
    let mut out = vec![];
    let mut n = 0u64;
    for len in 0..=sc.max_len {
        for base_nonnil in [false, true] {
            if len == 0 && base_nonnil {
                continue;
            }
            for snap_at in 0..=len {
                // snap_at = 0: no snapshot; j: AddSnapshot(latest) when the chain had j versions
                let mut finals: Vec<IdRef> = vec![IdRef::Nil, IdRef::Latest(0), IdRef::Base(0), IdRef::Fresh(1), IdRef::Fresh(0), IdRef::Nth(1, 0), IdRef::Latest(1), IdRef::SnapVid(0), IdRef::SnapVid(1)];
                for k in 1..=(len + 1) {
                    finals.push(IdRef::Back(0, k));
                }
                for fin in finals {
                    n += 1;
                    let hseed = Rng::new(seed).fork(0x5C09E + n).next_u64();
                    let mut ops = vec![];
                    let mut u = hseed.wrapping_mul(977);
                    let mut pay = |u: &mut u64| {
                        *u += 1;
                        PaySpec::new(12 + (*u % 40) as usize, 9, *u)
                    };
                    // the foreign client: two versions and a snapshot
                    ops.push(Op { client: 1, kind: OpKind::AddVersion { parent: IdRef::Nil, pay: pay(&mut u) } });
                    ops.push(Op { client: 1, kind: OpKind::AddVersion { parent: IdRef::Latest(1), pay: pay(&mut u) } });
                    ops.push(Op { client: 1, kind: OpKind::AddSnapshot { vid: IdRef::Latest(1), pay: pay(&mut u) } });
                    for i in 0..len {
                        let parent = if i == 0 {
                            if base_nonnil {
                                IdRef::Fresh(0)
                            } else {
                                IdRef::Nil
                            }
                        } else {
                            IdRef::Latest(0)
                        };
                        ops.push(Op { client: 0, kind: OpKind::AddVersion { parent, pay: pay(&mut u) } });
                        if snap_at == i + 1 {
                            ops.push(Op { client: 0, kind: OpKind::AddSnapshot { vid: IdRef::Latest(0), pay: pay(&mut u) } });
                        }
                    }
                    if len == 0 {
                        // half of the empty-client cases are made on a created-but-empty client
                        // (a rejected request cannot create one through the library; an HTTP
                        // AddVersion always creates it), so just leave the client never seen.
                    }
                    let fk = match sc.kind {
                        ScopeKind::Parent => OpKind::Probe { parent: fin, pay: pay(&mut u) },
                        ScopeKind::Snapshot => OpKind::AddSnapshot { vid: fin, pay: pay(&mut u) },
                    };
                    ops.push(Op { client: 0, kind: fk });
                    // one follow-up so that effects of the final op are observed by the monitors
                    ops.push(Op { client: 0, kind: OpKind::GetSnapshot });
                    ops.push(Op { client: 0, kind: OpKind::GetChild { parent: IdRef::Latest(0) } });
                    out.push(History { seed: hseed, n_clients: 2, ops });
                }
            }
        }
    }
    out
}

fn viol_found(plan: &Plan, kind: &Kind, h: &History, case: usize, out: &RunOut, origin: &str) -> Vec<Found> {
    out.violations
        .iter()
        .filter(|v| v.property == plan.property)
        .map(|v| Found {
            property: v.property.to_string(),
            msg: v.msg.clone(),
            signature: format!("{}:{}", v.property, v.msg.split_whitespace().take(6).collect::<Vec<_>>().join(" ")),
            replay: json!({
                "origin": origin, "case": case, "subject": kind.name(), "op_index": v.op_index,
                "history": history_json(h),
                "log_tail": out.log.iter().rev().take(25).rev().cloned().collect::<Vec<_>>(),
            }),
        })
        .collect()
}

fn mk_found(plan: &Plan, msg: String, h: &History, case: usize, origin: &str, extra: Value) -> Found {
    Found {
        property: plan.property.to_string(),
        signature: format!("{}:{}", plan.property, msg.split_whitespace().take(6).collect::<Vec<_>>().join(" ")),
        msg,
        replay: json!({"origin": origin, "case": case, "history": history_json(h), "detail": extra}),
    }
}

/// C14 decode table: the raw HTTP response against the library twin's outcome.
pub fn c14_table(req: &Req, twin: &Resp, raw: &HttpResp) -> Option<String> {
    if let Some(f) = &raw.failure {
        return Some(format!("request failed: {f}"));
    }
    let has = |n: &str| raw.header_count(n) > 0;
    let uuid_of = |n: &str| raw.header(n).and_then(|v| Uuid::parse_str(v).ok());
    let absent = |names: &[&str]| -> Option<String> {
        for n in names {
            if has(n) {
                return Some(format!("header {n} must be absent but is {:?}", raw.header(n)));
            }
        }
        None
    };
    let status = |s: u16| -> Option<String> {
        if raw.status != s {
            Some(format!("status {} where the protocol outcome {} requires {s}", raw.status, twin.outcome()))
        } else {
            None
        }
    };
    match (req, twin) {
        (Req::AddVersion { .. }, Resp::AddOk { urg, .. }) => status(200)
            .or_else(|| if raw.header_count("X-Version-Id") != 1 || uuid_of("X-Version-Id").map(|u| u.is_nil()).unwrap_or(true) { Some(format!("accepted version needs exactly one X-Version-Id carrying a non-nil uuid, got {:?}", raw.header("X-Version-Id"))) } else { None })
            .or_else(|| absent(&["X-Parent-Version-Id"]))
            .or_else(|| {
                let got = raw.header("X-Snapshot-Request");
                let want = match urg {
                    Urg::None => None,
                    Urg::Low => Some("urgency=low"),
                    Urg::High => Some("urgency=high"),
                };
                if got != want || raw.header_count("X-Snapshot-Request") > 1 {
                    Some(format!("X-Snapshot-Request is {got:?} but the protocol outcome's urgency {urg:?} requires {want:?}"))
                } else {
                    None
                }
            }),
        (Req::AddVersion { .. }, Resp::AddConflict { .. }) => status(409)
            .or_else(|| if raw.header_count("X-Parent-Version-Id") != 1 || uuid_of("X-Parent-Version-Id").is_none() { Some("conflict needs exactly one X-Parent-Version-Id carrying a uuid".to_string()) } else { None })
            .or_else(|| absent(&["X-Version-Id", "X-Snapshot-Request"])),
        (Req::GetChild { .. }, Resp::Found { data, .. }) => status(200)
            .or_else(|| if uuid_of("X-Version-Id").is_none() || uuid_of("X-Parent-Version-Id").is_none() { Some("found child needs X-Version-Id and X-Parent-Version-Id".to_string()) } else { None })
            .or_else(|| if raw.header("Content-Type") != Some(CT_HISTORY) { Some(format!("found child has Content-Type {:?}, expected {CT_HISTORY}", raw.header("Content-Type"))) } else { None })
            .or_else(|| { let _ = data; None }),
        (Req::GetChild { .. }, Resp::NotFound) | (Req::GetChild { .. }, Resp::NoSuchClient) => status(404).or_else(|| absent(&["X-Version-Id", "X-Parent-Version-Id"])),
        (Req::GetChild { .. }, Resp::Gone) => status(410).or_else(|| absent(&["X-Version-Id", "X-Parent-Version-Id"])),
        (Req::AddSnapshot { .. }, Resp::SnapOk) => status(200),
        (Req::AddSnapshot { .. }, Resp::NoSuchClient) => status(404),
        (Req::GetSnapshot, Resp::Snap { data, .. }) => status(200)
            .or_else(|| if uuid_of("X-Version-Id").is_none() { Some("snapshot needs X-Version-Id".to_string()) } else { None })
            .or_else(|| if raw.header("Content-Type") != Some(CT_SNAPSHOT) { Some(format!("snapshot has Content-Type {:?}, expected {CT_SNAPSHOT}", raw.header("Content-Type"))) } else { None })
            .or_else(|| { let _ = data; None }),
        (Req::GetSnapshot, Resp::NoSnap) | (Req::GetSnapshot, Resp::NoSuchClient) => status(404).or_else(|| absent(&["X-Version-Id"])),
        (_, Resp::Error(_)) => None, // the twin itself failed: nothing to compare (not this property)
        _ => None,
    }
}

/// C14, id/body part: the ids and bytes carried by the HTTP response against what the same
/// storage holds (read through the storage traits right after the request).
pub fn c14_ids(req: &Req, decoded: &Resp, raw: &HttpResp, f: &crate::e1::Facts) -> Option<String> {
    match (req, decoded) {
        (Req::AddVersion { .. }, Resp::AddOk { vid, .. }) => {
            if f.latest != Some(*vid) {
                return Some(format!("X-Version-Id is {vid} but the client's latest version in storage is {:?}", f.latest));
            }
        }
        (Req::AddVersion { .. }, Resp::AddConflict { expected }) => {
            if f.latest != Some(*expected) {
                return Some(format!("X-Parent-Version-Id is {expected} but the client's latest version in storage is {:?}", f.latest));
            }
        }
        (Req::GetChild { .. }, Resp::Found { vid, parent, data }) => match &f.child {
            Some((cv, cp, len, h)) => {
                if cv != vid || cp != parent {
                    return Some(format!("id headers (v={vid}, p={parent}) differ from the stored child (v={cv}, p={cp})"));
                }
                if *len != data.len() || *h != crate::dump::hash_bytes(data) {
                    return Some(format!("body ({} bytes) differs from the stored history segment ({len} bytes)", data.len()));
                }
            }
            None => return Some("a child version was returned but storage holds none for that parent".into()),
        },
        (Req::GetSnapshot, Resp::Snap { vid, data }) => match &f.snap {
            Some((sv, len, h)) => {
                if sv != vid {
                    return Some(format!("X-Version-Id {vid} differs from the stored snapshot version {sv}"));
                }
                if *len != data.len() || *h != crate::dump::hash_bytes(data) {
                    return Some(format!("body ({} bytes) differs from the stored snapshot ({len} bytes)", data.len()));
                }
            }
            None => return Some("a snapshot was returned but storage holds none".into()),
        },
        _ => {}
    }
    let _ = raw;
    None
}

struct Shared {
    found: Mutex<Vec<Found>>,
    cov: Mutex<Cov>,
    stop: AtomicBool,
    next: AtomicUsize,
    errors: Mutex<Vec<String>>,
}

/// The snapshot targets a case's servers are configured with: the plan's own in two of three cases,
/// otherwise drawn from small sets that include zero and one (operators may configure either).
fn config_for(plan: &Plan, h: &History, case: usize, origin: &str) -> Config {
    if origin == "scope" || case % 3 != 2 {
        return plan.config;
    }
    let mut r = Rng::new(h.seed).fork(0xCF6);
    Config { snapshot_days: *r.pick(&[0i64, 1, 2, 14, 30]), snapshot_versions: *r.pick(&[0u32, 1, 2, 3, 4, 7, 100]) }
}

fn run_case(plan: &Plan, h: &History, case: usize, origin: &str, sh: &Shared) {
    let config = config_for(plan, h, case, origin);
    let mut outs: Vec<(Kind, RunOut)> = vec![];
    let mut subjects: Vec<(Kind, Option<std::collections::HashSet<Uuid>>)> = plan.kinds.iter().map(|k| (*k, None)).collect();
    if plan.allowlisted_variant {
        let ids: std::collections::HashSet<Uuid> = (0..h.n_clients).map(|c| crate::e1::client_uuid(h.seed, c)).chain([Rng::new(h.seed).fork(0xA110).uuid()]).collect();
        subjects.push((Kind { backend: Backend::Sqlite, entry: Entry::Http, reopen_pct: 40, socket: false, peers: false, pinned_first: false }, Some(ids)));
    }
    if !plan.socket_kinds.is_empty() && case % plan.socket_every.max(1) == 0 {
        for k in &plan.socket_kinds {
            subjects.push((*k, None));
        }
    }
    let mut binary_idx: Option<usize> = None;
    if plan.binary_every > 0 && case % plan.binary_every == 0 && crate::net::server_bin().is_some() {
        let ids: std::collections::HashSet<Uuid> = (0..h.n_clients).map(|c| crate::e1::client_uuid(h.seed, c)).collect();
        binary_idx = Some(subjects.len());
        subjects.push((Kind { backend: Backend::Sqlite, entry: Entry::Http, reopen_pct: 8, socket: true, peers: (case / plan.binary_every) % 2 == 1, pinned_first: false }, Some(ids)));
    }
    for (si, (kind, allow)) in subjects.iter().enumerate() {
        let made = if Some(si) == binary_idx { Subject::with_binary_peers(config, allow.clone(), 8, kind.peers) } else { Subject::with(*kind, config, allow.clone(), None) };
        let mut subj = match made {
            Ok(s) => s,
            Err(e) => {
                sh.errors.lock().unwrap().push(format!("cannot create subject {}: {e:#}", kind.name()));
                return;
            }
        };
        let mut r = Runner::new(&mut subj, h, plan.mon);
        r.prop = plan.property;
        r.walk_every = plan.walk_every;
        r.own_only = plan.compare == Compare::TwoRun;
        let out = r.run();
        let f = viol_found(plan, kind, h, case, &out, origin);
        if !f.is_empty() {
            sh.found.lock().unwrap().extend(f);
            sh.stop.store(true, Ordering::SeqCst);
        }
        {
            let mut cov = sh.cov.lock().unwrap();
            let mut c = out.cov.clone();
            if cov.samples.len() < 3 && c.samples.is_empty() {
                c.samples.push(json!({"subject": kind.name(), "origin": origin, "clients": h.n_clients, "total_ops": h.ops.len(),
                    "first_ops_with_responses": h.ops.iter().zip(out.abs.iter()).take(8).map(|(o, a)| json!({"op": o.json(), "response": a.0})).collect::<Vec<_>>()}));
            }
            cov.merge(c);
        }
        // C09 two-run
        if plan.compare == Compare::TwoRun && out.violations.is_empty() {
            for x in 0..h.n_clients {
                let mut solo_subj = match Subject::new(*kind, config) {
                    Ok(s) => s,
                    Err(_) => continue,
                };
                let mut r2 = Runner::new(&mut solo_subj, h, Monitors::default());
                r2.solo = Some(SoloSpec { client: x, full_reqs: &out.reqs, full_clients: &out.clients });
                r2.own_only = true;
                let so = r2.run();
                sh.cov.lock().unwrap().count("solo_runs", 1);
                for (i, op) in h.ops.iter().enumerate() {
                    if op.client != x || i >= out.abs.len() || i >= so.abs.len() {
                        continue;
                    }
                    sh.cov.lock().unwrap().count("two_run_comparisons", 1);
                    if out.abs[i] != so.abs[i] {
                        let msg = format!(
                            "client #{x} on {}: response to op #{i} ({}) is {} when other clients' requests are interleaved but {} when its own requests run alone",
                            kind.name(), op.kind_name(), out.abs[i].0, so.abs[i].0
                        );
                        sh.found.lock().unwrap().push(mk_found(plan, msg, h, case, origin, json!({"subject": kind.name(), "client": x, "op_index": i, "full_log": out.log.iter().filter(|l| l.contains(&format!(" c{x} "))).cloned().collect::<Vec<_>>(), "solo_log": so.log.clone(), "full_state": out.abs_state.iter().enumerate().filter(|(j, _)| h.ops[*j].client == x).map(|(j, s)| format!("#{j} {s}")).collect::<Vec<_>>(), "solo_state": so.abs_state.iter().enumerate().filter(|(j, _)| h.ops[*j].client == x).map(|(j, s)| format!("#{j} {s}")).collect::<Vec<_>>()})));
                        sh.stop.store(true, Ordering::SeqCst);
                        return;
                    }
                }
            }
        }
        outs.push((*kind, out));
    }
    match plan.compare {
        Compare::Backends => {
            for i in 1..outs.len() {
                // compare with the first subject of the same entry
                let j = match outs.iter().position(|(k, _)| k.entry == outs[i].0.entry) {
                    Some(j) if j < i => j,
                    _ => continue,
                };
                let (ka, a) = (&outs[j].0, &outs[j].1);
                let (kb, b) = (&outs[i].0, &outs[i].1);
                let n = a.abs.len().min(b.abs.len());
                for t in 0..n {
                    sh.cov.lock().unwrap().count("lockstep_comparisons", 1);
                    if a.abs[t] != b.abs[t] || a.abs_state[t] != b.abs_state[t] {
                        let msg = format!(
                            "op #{t} ({}) answered {} [client record {}] on {} but {} [client record {}] on {}",
                            h.ops[t].kind_name(), a.abs[t].0, a.abs_state[t], ka.name(), b.abs[t].0, b.abs_state[t], kb.name()
                        );
                        sh.found.lock().unwrap().push(mk_found(plan, msg, h, case, origin, json!({"a": ka.name(), "b": kb.name(), "op_index": t, "log_a": a.log.iter().rev().take(20).rev().cloned().collect::<Vec<_>>(), "log_b": b.log.iter().rev().take(20).rev().cloned().collect::<Vec<_>>()})));
                        sh.stop.store(true, Ordering::SeqCst);
                        return;
                    }
                }
                if a.abs.len() != b.abs.len() {
                    // one of them stopped early because of a monitor violation elsewhere
                }
            }
        }
        Compare::Twin => {
            for i in 0..outs.len() {
                if outs[i].0.entry != Entry::Http {
                    continue;
                }
                let j = match outs.iter().position(|(k, _)| k.entry == Entry::Lib && k.backend == outs[i].0.backend) {
                    Some(j) => j,
                    None => continue,
                };
                let (hk, ho) = (&outs[i].0, &outs[i].1);
                let lo = &outs[j].1;
                let mut hi = 0usize; // index into the flattened per-request lists
                for t in 0..ho.resps.len().min(lo.resps.len()) {
                    for s in 0..ho.resps[t].len().min(lo.resps[t].len()) {
                        let raw = ho.http.get(hi).cloned().flatten();
                        let facts = ho.facts.get(hi).cloned().unwrap_or_default();
                        hi += 1;
                        let req = &lo.reqs[t][s];
                        let twin = &lo.resps[t][s];
                        let decoded = &ho.resps[t][s];
                        sh.cov.lock().unwrap().count("twin_comparisons", 1);
                        sh.cov.lock().unwrap().hit(format!("row:{}:{}", req.name(), match twin { Resp::AddOk { urg, .. } => format!("accepted-urgency-{urg:?}"), o => o.outcome().to_string() }));
                        let Some((_, raw)) = raw else { continue };
                        let mut problem = c14_table(req, twin, &raw);
                        if problem.is_none() {
                            problem = c14_ids(req, decoded, &raw, &facts);
                        }
                        if problem.is_none() {
                            // payload bytes are determined by the symbolic history, so the twin's
                            // bytes are what the library returns for the request as sent
                            match (twin, decoded) {
                                (Resp::Found { data: a, .. }, Resp::Found { data: b, .. }) | (Resp::Snap { data: a, .. }, Resp::Snap { data: b, .. }) => {
                                    if a != b {
                                        problem = Some(format!("body has {} bytes but the library on the twin storage returns {} bytes for the same request (first difference at {:?})", b.len(), a.len(), crate::ops::first_diff(b, a)));
                                    }
                                }
                                _ => {}
                            }
                        }
                        if let Some(m) = problem {
                            let msg = format!("op #{t} {} on {}: {m}; HTTP response was: {}; library outcome on the twin storage: {}", req.name(), hk.name(), raw.describe(), twin.short());
                            sh.found.lock().unwrap().push(mk_found(plan, msg, h, case, origin, json!({"subject": hk.name(), "op_index": t, "twin_outcome": twin.short()})));
                            sh.stop.store(true, Ordering::SeqCst);
                            return;
                        }
                    }
                }
            }
        }
        _ => {}
    }
}

pub fn cases_for(plan: &Plan, seed: u64) -> (Vec<(String, History)>, usize) {
    let mut cases: Vec<(String, History)> = vec![];
    if let Some(sc) = plan.scope {
        for h in scope_histories(sc, seed) {
            cases.push(("scope".into(), h));
        }
    }
    let scope_n = cases.len();
    let base = Rng::new(seed).fork(plan.property.as_bytes().iter().fold(0u64, |a, b| a * 31 + *b as u64));
    for i in 0..plan.n_random {
        let hseed = base.fork(i as u64).next_u64();
        let mut prof = plan.profile.clone();
        if plan.compare == Compare::TwoRun && i % 3 == 0 {
            prof.aligned = true;
        }
        if plan.compare == Compare::TwoRun && i % 3 == 1 {
            // entangled: chains that start from other clients' versions, short, with snapshot and
            // child-version arguments pointing into the other chains
            prof.entangle_pct = 80;
            prof.w_kind = [40, 15, 30, 10, 5];
            prof.valid_add_pct = 80;
            prof.max_ops = 50;
        }
        if plan.compare != Compare::TwoRun && (i % 5 == 4 || i % 5 == 2) {
            prof.entangle_pct = 60;
        }
        // wide: many clients on one server (per-client caches, tables keyed by client, eviction)
        if i % 16 == 9 {
            // (plans whose monitors dump every client around every operation get narrower ones)
            let two = plan.compare == Compare::TwoRun || plan.mon.frame || plan.mon.cas || plan.mon.snapwin;
            prof.min_clients = if two { 10 } else { 20 };
            prof.max_clients = if two { 14 } else { 40 };
            prof.min_ops = if two { 100 } else { 200 };
            prof.max_ops = if two { 140 } else { 320 };
            prof.valid_add_pct = prof.valid_add_pct.max(70);
        }
        cases.push(("random".into(), generate(hseed, &prof)));
    }
    for i in 0..plan.long.0 {
        let hseed = base.fork(0x10_0000 + i as u64).next_u64();
        let mut p = plan.profile.clone();
        p.min_ops = plan.long.1;
        p.max_ops = plan.long.1;
        p.valid_add_pct = 75;
        cases.push(("long".into(), generate(hseed, &p)));
    }
    if plan.long.0 > 0 {
        // one deep single-client chain (hundreds of versions)
        let mut p = plan.profile.clone();
        p.min_clients = 1;
        p.max_clients = 1;
        p.min_ops = plan.long.1.max(500);
        p.max_ops = plan.long.1.max(500);
        p.valid_add_pct = 96;
        p.w_kind = [80, 6, 8, 3, 3];
        p.snapshot_bursts = false;
        cases.push(("long".into(), generate(base.fork(0x20_0000).next_u64(), &p)));
    }
    (cases, scope_n)
}

/// Run this worker's share of the plan's cases (single-threaded; workers are processes).
pub fn shard_run(plan: &Plan, seed: u64, replay_case: Option<usize>, shard: Shard) -> ShardOut {
    let (cases, _) = cases_for(plan, seed);
    let sh = Shared { found: Mutex::new(vec![]), cov: Mutex::new(Cov::default()), stop: AtomicBool::new(false), next: AtomicUsize::new(0), errors: Mutex::new(vec![]) };
    let mut executed = 0u64;
    // long cases first so that no worker is left with one at the very end
    let mut order: Vec<usize> = (0..cases.len()).collect();
    order.sort_by_key(|i| std::cmp::Reverse(cases[*i].1.ops.len()));
    for (rank, i) in order.iter().enumerate() {
        let i = *i;
        match replay_case {
            Some(c) => {
                if c != i {
                    continue;
                }
            }
            None => {
                if !shard.mine(rank) {
                    continue;
                }
            }
        }
        if sh.stop.load(Ordering::SeqCst) {
            break;
        }
        executed += 1;
        if cases[i].0 == "long" {
            let mut p2 = plan.clone();
            p2.walk_every = 50;
            run_case(&p2, &cases[i].1, i, &cases[i].0, &sh);
        } else {
            run_case(plan, &cases[i].1, i, &cases[i].0, &sh);
        }
    }
    ShardOut { found: sh.found.into_inner().unwrap(), cov: sh.cov.into_inner().unwrap(), errors: sh.errors.into_inner().unwrap(), executed }
}

pub fn finalize(plan: &Plan, seed: u64, out: ShardOut, is_replay: bool) -> CheckResult {
    let (cases, scope_n) = cases_for(plan, seed);
    let cov = out.cov;
    let found = out.found;
    let errors = out.errors;
    let mut top: Vec<(&String, &u64)> = cov.situations.iter().collect();
    top.sort_by(|a, b| b.1.cmp(a.1));
    let coverage = json!({
        "evaluations": cov.evaluations,
        "distinct_nontrivial": cov.situations.len(),
        "rule": plan.rule,
        "samples": cov.samples,
        "histories_planned": cases.len(),
        "histories_executed": out.executed,
        "scope_histories": scope_n,
        "exhaustive_small_scope": plan.scope.map(|s| json!({"kind": format!("{:?}", s.kind), "max_chain_len": s.max_len, "cases": scope_n, "exhaustive": true})),
        "distinct_response_traces": cov.traces.len(),
        "subjects": plan.kinds.iter().chain(plan.socket_kinds.iter()).map(|k| k.name()).chain(if plan.allowlisted_variant { vec!["sqlite/http+reopen40+allow-list".to_string()] } else { vec![] }).collect::<Vec<_>>(),
        "counters": cov.counters,
        "situations_top": top.iter().take(40).map(|(k, v)| json!({"situation": k, "n": v})).collect::<Vec<_>>(),
    });
    let verdict = if !found.is_empty() {
        Verdict::Violated(found)
    } else if !errors.is_empty() {
        Verdict::Inconclusive(errors.join("; "))
    } else if !is_replay {
        match crate::evidence::require(&cov.situations, &plan.required) {
            Some(r) => Verdict::Inconclusive(r),
            None => Verdict::Held,
        }
    } else {
        Verdict::Held
    };
    CheckResult { verdict, coverage, assumptions: plan.assumptions.clone(), level: "exploration", notes: vec![] }
}

pub fn plan_for(id: &str, tier: &str) -> Option<Plan> {
    let thorough = tier == "thorough";
    let sqlite_reopen = Kind { backend: Backend::Sqlite, entry: Entry::Lib, reopen_pct: 30, socket: false, peers: false, pinned_first: false };
    // (one SQLite subject has two server instances, each with its own storage object, on one directory)
    let sqlite_peers = Kind { backend: Backend::Sqlite, entry: Entry::Http, reopen_pct: 0, socket: false, peers: true, pinned_first: false };
    // (and one whose directory is first served by the pinned release and taken over mid-history)
    let sqlite_upgraded = Kind { backend: Backend::Sqlite, entry: Entry::Lib, reopen_pct: 10, socket: false, peers: false, pinned_first: true };
    let all = vec![Kind::MEM_LIB, Kind::SQL_LIB, sqlite_reopen, Kind::MEM_HTTP, sqlite_peers, sqlite_upgraded];
    let base_assumptions = vec![
        "ids are bound when first observed; freshness is judged against ids seen in this run only".to_string(),
        "state is compared at quiescent points through the storage's own transactions and raw SQL".to_string(),
    ];
    let n = |q: usize, t: usize| if thorough { t } else { q };
    let mut p = Plan {
        property: "",
        mon: Monitors::default(),
        kinds: all.clone(),
        profile: GenProfile::default(),
        compare: Compare::None,
        n_random: n(180, 3000),
        scope: None,
        config: Config { snapshot_days: 14, snapshot_versions: 4 },
        walk_every: 1,
        required: vec![],
        rule: "",
        assumptions: base_assumptions,
        long: (0, 0),
        allowlisted_variant: false,
        socket_kinds: vec![],
        socket_every: 8,
        binary_every: if thorough { 6 } else { 16 },
    };
    match id {
        "C01" => {
            p.property = "C01";
            p.allowlisted_variant = true;
            p.mon.chain = true;
            p.binary_every = if thorough { 6 } else { 16 };
            p.long = (n(2, 20), n(600, 2000));
            p.required = vec!["AddVersion|", "base=id", "arg=foreign|conflict", "arg=base", "|accepted", "walk-under-storage-failure|sqlite/http|", "walk-under-storage-failure|sqlite/lib|", "quota-walk|limit=96-blocks|failures-seen=1", "quota-walk|limit=300-blocks|failures-seen=1"];
            p.rule = "random adversarial multi-client histories (nil/latest/stale/base/fresh/foreign ids, nil and non-nil first parent, reopen) on 5 subjects; after every operation every client's chain is walked from its base through the same entry point and, for SQLite, all rows are scanned for forks/orphans. A situation = (operation, client state class, argument class, outcome); distinct_nontrivial counts distinct situations observed. Concurrent part: the E2 scenarios in which only AddVersion requests overlap (pairs, triples, two-request programs; never-seen, empty and existing clients; all backends; both entries) under the controlled scheduler with the differential oracle (final state includes every known id that exists as a version and the child index, so a fork or an orphan cannot match any one-at-a-time order).";
        }
        "C02" => {
            p.property = "C02";
            p.allowlisted_variant = true;
            p.mon.cas = true;
            p.scope = Some(Scope { kind: ScopeKind::Parent, max_len: n(5, 8) });
            p.n_random = n(150, 3000);
            p.profile.valid_add_pct = 45;
            p.profile.w_kind = [60, 8, 12, 5, 15];
            p.required = vec!["AddVersion|absent", "arg=latest|accepted", "arg=older|conflict", "arg=base|conflict", "arg=foreign|conflict", "arg=unknown|conflict", "arg=nil|conflict", "base=id"];
            p.rule = "exhaustive small scope (chain length x base x snapshot x every class of requested parent) plus random histories with 55% invalid parents and re-sent versions; every AddVersion is judged against the acceptance rule on the observed chain, read back, checked for id freshness, and rejected ones are framed by full state dumps. distinct_nontrivial = distinct (operation, state class, argument class, outcome) situations. Atomicity under overlap: the E2 scenarios in which only AddVersion requests race (controlled scheduler, differential oracle) — two requests on one parent are never both accepted.";
        }
        "C07" => {
            p.property = "C07";
            p.mon.immut = true;
            p.allowlisted_variant = true;
            p.binary_every = if thorough { 6 } else { 16 };
            p.n_random = n(140, 2500);
            p.long = (n(1, 12), n(400, 2000));
            p.required = vec!["AddSnapshot|", "|conflict", "|accepted", "legacy-fork-directory:abandoned1:live1:nil-base", "legacy-fork-directory:abandoned3:live", "locked-open|exclusive-locking-mode|", "locked-open|open-write-transaction|"];
            p.rule = "every accepted (version, parent, payload) is re-read through GetChildVersion after later operations (a random third after every operation, all of them every 10 operations, after every reopen and at the end), across snapshots, rejected requests, other clients' activity and reopen. distinct_nontrivial = distinct situations that occurred while accepted versions were being re-read. Concurrent part: uncontrolled stress (6-12 threads on one storage / one SQLite object per thread / sockets) after which every version whose acceptance was acknowledged must still be served with its parent and payload. Legacy forks: directories written by the pinned crates in which a client was re-created (two children of one parent) - the pinned code's answers for every id are the reference for the current code, before and after appending.";
        }
        "C08" => {
            p.property = "C08";
            p.allowlisted_variant = true;
            p.mon.gcv = true;
            p.scope = Some(Scope { kind: ScopeKind::Parent, max_len: n(6, 8) });
            p.n_random = n(600, 6000);
            p.profile.w_kind = [30, 10, 12, 3, 45];
            p.profile.valid_add_pct = 35;
            p.required = vec!["probe|", "gcv=not-found|add=accepted", "gcv=gone|add=conflict", "gcv=found", "probe:never-seen-client", "base=id"];
            p.rule = "paired probes GetChildVersion(p) immediately followed by AddVersion(p) on the same state: exhaustive small scope (chain length x base x snapshot x every class of p) plus random histories with 45% probes. distinct_nontrivial = distinct (state class, argument class, GetChildVersion outcome, AddVersion outcome) situations. Concurrent part: the E2 scenarios in which a GetChildVersion(p) overlaps an AddVersion(p) (all backends, both entries, all client states) under the controlled scheduler: the read must answer what some one-at-a-time order gives.";
        }
        "C09" => {
            p.property = "C09";
            p.binary_every = 0;
            p.mon.isolation = true;
            p.compare = Compare::TwoRun;
            p.kinds = vec![Kind::MEM_LIB, Kind::SQL_LIB, Kind::MEM_HTTP, Kind::SQL_HTTP];
            p.n_random = n(240, 4000);
            p.profile.min_clients = 3;
            p.profile.max_clients = 4;
            p.profile.max_ops = 80;
            p.required = vec!["arg=foreign", "concurrent-clients|SqlitePerThread", "concurrent-clients|SocketSqlite", "overlapping-uploads-of-two-clients|workers=1", "id-space-overlap|mem/lib", "id-space-overlap|sqlite/http", "shared-header-values|mem/http|Idempotency-Key", "shared-header-values|sqlite/http|Cookie"];
            p.rule = "two-run non-interference: each multi-client history is run in full, then the projection onto each client is re-run alone with foreign ids resolved to the same concrete uuids; responses compared one-to-one modulo the client's own ids; in the full run every other client's dump must be unchanged by each operation. Half of the histories are aligned (all bases nil, equal payload lengths). Concurrent part: 3-5 clients, one thread each, act at the same time (one shared server on the in-memory backend / on one SQLite object, one server instance per thread on one SQLite directory, an HttpServer over sockets); every client's adaptive request sequence is then re-run alone on a fresh server of the same kind and the transcripts (ids named by first appearance) must be identical; two clients' uploads that overlap on one server worker must each be stored with their own bytes.";
        }
        "C10" => {
            p.property = "C10";
            p.allowlisted_variant = true;
            p.mon.snapwin = true;
            p.scope = Some(Scope { kind: ScopeKind::Snapshot, max_len: n(6, 8) });
            p.n_random = n(150, 3000);
            p.profile.w_kind = [45, 5, 40, 5, 5];
            p.profile.valid_add_pct = 85;
            p.required = vec!["snapwin:accept:back5", "snapwin:accept:back1", "snapwin:decline:arg=back6", "snapwin:decline:arg=nil", "snapwin:decline:arg=foreign", "snapwin:accept:back2:cur=back3", "snapwin:decline:arg=back3:back3"];
            p.rule = "exhaustive small scope (chain length x base x position of existing snapshot x every class of v) plus random histories with bursts of AddSnapshots; each AddSnapshot is judged by the window predicate evaluated on the observed chain and snapshot, declines are framed by full state dumps, snapshot position monotone; the unspecified corner v == non-nil base is tolerated and tallied. Under overlap: the E2 scenarios with two overlapping AddSnapshots (for the latest and for an older version; with and without a concurrent GetSnapshot; library and HTTP handlers) under the controlled scheduler — the snapshot must not move backwards whatever the interleaving.";
        }
        "C11" => {
            p.property = "C11";
            p.allowlisted_variant = true;
            p.mon.snapget = true;
            p.profile.pause_per_10k = 4;
            p.n_random = n(220, 3000);
            p.profile.w_kind = [45, 5, 35, 10, 5];
            p.profile.valid_add_pct = 80;
            p.required = vec!["getsnapshot:new", "getsnapshot:kept", "getsnapshot:none"];
            p.rule = "after every AddVersion/AddSnapshot (accepted or declined) the snapshot is fetched: it must be the previously returned pair or exactly the pair just uploaded (id and bytes of one upload; every upload has distinct bytes), and following child versions from its id must reach the latest version without gone. Concurrent part: every E2 scenario that contains an AddSnapshot on an existing chain (AddSnapshot overlapping GetSnapshot / AddVersion / AddSnapshot, pairs and triples, three backends, both entries) is explored under the controlled scheduler with the differential linearizability oracle, so a snapshot read is always one whole generation consistent with real-time order (counters executions_with_overlapping_requests, lock_wait_probes_blocked).";
        }
        "C13" => {
            p.property = "C13";
            p.compare = Compare::Backends;
            p.allowlisted_variant = true;
            p.binary_every = if thorough { 6 } else { 16 };
            p.profile.pause_per_10k = 4;
            p.kinds = vec![
                Kind::MEM_LIB,
                Kind::SQL_LIB,
                Kind { backend: Backend::Sqlite, entry: Entry::Lib, reopen_pct: 10, socket: false, peers: false, pinned_first: false },
                Kind { backend: Backend::Sqlite, entry: Entry::Lib, reopen_pct: 50, socket: false, peers: true, pinned_first: false },
                Kind { backend: Backend::Sqlite, entry: Entry::Lib, reopen_pct: 100, socket: false, peers: false, pinned_first: true },
                Kind::MEM_HTTP,
                Kind { backend: Backend::Sqlite, entry: Entry::Http, reopen_pct: 40, socket: false, peers: false, pinned_first: false },
            ];
            p.n_random = n(260, 3500);
            p.required = vec!["AddSnapshot|", "GetSnapshot|", "|conflict"];
            p.rule = "identical symbolic histories in lock step on in-memory, SQLite and SQLite reopened at 10/50/100% of the gaps (new storage object, schema setup re-run), library and HTTP entries compared within the same entry; responses abstracted by id role and the client record (latest, snapshot version, versions-since) compared after every operation.";
        }
        "C14" => {
            p.property = "C14";
            p.mon.facts = true;
            p.compare = Compare::Twin;
            p.kinds = vec![Kind::MEM_LIB, Kind::MEM_HTTP, Kind::SQL_LIB, Kind::SQL_HTTP];
            p.socket_kinds = vec![Kind { backend: Backend::Mem, entry: Entry::Http, reopen_pct: 0, socket: true, peers: false, pinned_first: false }, Kind { backend: Backend::Sqlite, entry: Entry::Http, reopen_pct: 0, socket: true, peers: false, pinned_first: false }];
            p.socket_every = if thorough { 4 } else { 16 };
            p.n_random = n(800, 8000);
            p.required = vec!["row:AddVersion:accepted-urgency-None", "row:AddVersion:accepted-urgency-Low", "row:AddVersion:accepted-urgency-High", "row:AddVersion:conflict", "row:GetChildVersion:found", "row:GetChildVersion:not-found", "row:GetChildVersion:gone", "row:AddSnapshot:snap-ok", "row:AddSnapshot:no-such-client", "row:GetSnapshot:snapshot", "row:GetSnapshot:no-snapshot"];
            p.rule = "every operation is executed through the HTTP handlers and through the library on twin storages of the same kind; the raw HTTP response (status, id headers, X-Snapshot-Request, content type, body, headers that must be absent) is checked against the decode-table row of the library outcome. snapshot_versions=4 so that urgency none/low/high all occur in real histories. One history in 16 (quick) / 4 (thorough) is additionally run against an in-process HttpServer over a real TCP socket (both backends), so that the HTTP/1.1 serialisation of status, headers and body is part of what is compared.";
        }
        "C18" => {
            p.property = "C18";
            p.allowlisted_variant = true;
            p.mon.frame = true;
            p.n_random = n(150, 3000);
            p.profile.w_kind = [30, 25, 25, 12, 8];
            p.profile.valid_add_pct = 40;
            p.required = vec!["frame:GetChildVersion:found", "frame:GetChildVersion:gone", "frame:GetChildVersion:not-found", "frame:GetSnapshot:snapshot", "frame:AddVersion:conflict", "frame:AddSnapshot:declined", "frame:refused:add-version with empty body from a never-seen client", "frame:refused:add-snapshot with empty body", "frame:refused:request to an unknown route"];
            p.rule = "the complete state of all clients (trait-level closure over every id ever seen, plus all SQL rows for SQLite) is dumped before and after every GetChildVersion, GetSnapshot, conflicting AddVersion and AddSnapshot the acceptance rule declines, and (HTTP subjects) around refused requests (empty body, wrong content type, missing client id, malformed path id, unknown route; from known and never-seen clients); any difference is a violation. Concurrent part: the E2 scenarios with two overlapping AddSnapshots (latest / older version, pairs and triples with GetSnapshot) under the controlled scheduler: the upload that every one-at-a-time order declines must not change the state.";
        }
        "C12H" => {
            p.property = "C12";
            p.mon.counter = true;
            p.n_random = n(400, 5000);
            p.profile.w_kind = [60, 3, 25, 4, 8];
            p.profile.valid_add_pct = 85;
            p.required = vec!["urgency:High", "urgency:Low", "urgency:None", "since:0", "since:6", "plant:sweep-versions:t=overflowing-u32", "plant:sweep-days:t=overflowing-i64", "plant:sweep-versions:t=0", "plant:sweep-days:t=1", "plant:sweep-versions:t=small-odd:Low", "plant-executable:sweep-versions:t=0:High", "plant-executable:sweep-days:t=0:High", "pinned-upgrade:first-add-version:"];
            p.rule = "(a) planted states: for each configuration (targets 0, 1, odd, large, values whose 3/2 multiple overflows u32/i64, type extremes) snapshot ages / versions-since counters around each threshold are planted through the public storage API, one real AddVersion is issued through library and HTTP on both backends and its urgency compared with the wide-integer specification, monotonicity and threshold order; (b) real histories on both backends (incl. reopen): after every operation the stored versions-since counter must equal the number of versions accepted since the snapshot was stored, and every accepted AddVersion's urgency must equal the exact-arithmetic specification for (targets, snapshot age, versions since).";
        }
        _ => return None,
    }
    if id == "C09" {
        // half of the histories aligned: done in run via profile toggle per case is not possible
        // here, so make alignment probabilistic through two profiles in the driver
    }
    Some(p)
}

/// C01, count thresholds: one very long chain on SQLite (beyond 10 000 versions; beyond 65 536 in
/// thorough), re-opened, walked end to end, extended, re-opened and walked again.
pub fn bulk_chain(n: usize, seed: u64, cov: &mut Cov) -> Option<Found> {
    let mut subj = Subject::new(Kind { backend: Backend::Sqlite, entry: Entry::Lib, reopen_pct: 0, socket: false, peers: false, pinned_first: false }, Config::default()).ok()?;
    let client = Rng::new(seed).fork(0xB01C).uuid();
    let other = Rng::new(seed).fork(0xB01D).uuid();
    let mut chain: Vec<Uuid> = Vec::with_capacity(n + 8);
    let mut parent = Uuid::nil();
    let fail = |m: String| Some(Found { property: "C01".into(), signature: format!("C01:bulk {}", m.split_whitespace().take(6).collect::<Vec<_>>().join(" ")), msg: m, replay: json!({"origin": "bulk-chain", "case": 0}) });
    // a second, short chain that must survive as well
    let mut op = Uuid::nil();
    for i in 0..3 {
        if let Resp::AddOk { vid, .. } = subj.exec(other, &Req::AddVersion { parent: op, data: vec![i as u8; 5] }) {
            op = vid;
        }
    }
    for round in 0..2 {
        let target = if round == 0 { n } else { n + 5 };
        while chain.len() < target {
            let i = chain.len();
            match subj.exec(client, &Req::AddVersion { parent, data: (i as u32).to_le_bytes().to_vec() }) {
                Resp::AddOk { vid, .. } => {
                    chain.push(vid);
                    parent = vid;
                }
                o => return fail(format!("bulk chain: AddVersion #{i} on the latest version failed: {}", o.short())),
            }
        }
        cov.evaluations += chain.len() as u64;
        if let Err(e) = subj.reopen() {
            return fail(format!("bulk chain: reopening a database with {} versions failed: {e:#}", chain.len()));
        }
        let mut p = Uuid::nil();
        for (i, v) in chain.iter().enumerate() {
            match subj.exec(client, &Req::GetChild { parent: p }) {
                Resp::Found { vid, data, .. } if vid == *v && data == (i as u32).to_le_bytes() => p = vid,
                o => return fail(format!("bulk chain of {} versions on sqlite/lib, after reopening: walk step {i} from {p} expected accepted version #{i} ({v}) but got {}", chain.len(), o.short())),
            }
        }
        match subj.exec(client, &Req::GetChild { parent: p }) {
            Resp::NotFound => {}
            o => return fail(format!("bulk chain: child of the latest version should be not-found, got {}", o.short())),
        }
        cov.evaluations += chain.len() as u64;
        cov.hit(format!("bulk-chain:{}-versions:reopen#{round}", if chain.len() > 65_536 { ">65536" } else { ">10000" }));
    }
    None
}

/// C07: one long-lived server object, two clients, more than a thousand accepted versions without a
/// reopen; every version accepted so far (all of the short chain, a sample of the long one) is re-read
/// every 100 steps and must still be served with its parent and payload.
pub fn bulk_two_clients(n: usize, seed: u64, cov: &mut Cov) -> Option<Found> {
    for kind in [Kind::MEM_LIB, Kind::SQL_LIB, Kind::MEM_HTTP] {
        let mut subj = Subject::new(kind, Config::default()).ok()?;
        let a = Rng::new(seed).fork(0xB02A).uuid();
        let b = Rng::new(seed).fork(0xB02B).uuid();
        let fail = |m: String| Some(Found { property: "C07".into(), signature: format!("C07:bulk {}", m.split_whitespace().take(6).collect::<Vec<_>>().join(" ")), msg: m, replay: json!({"origin": "bulk-two-clients", "case": 0}) });
        let mut chain_a: Vec<(Uuid, Uuid, Vec<u8>)> = vec![];
        let mut chain_b: Vec<(Uuid, Uuid, Vec<u8>)> = vec![];
        let mut pa = Uuid::nil();
        for i in 0..3u8 {
            let data = vec![b'a', i, 7];
            if let Resp::AddOk { vid, .. } = subj.exec(a, &Req::AddVersion { parent: pa, data: data.clone() }) {
                chain_a.push((vid, pa, data));
                pa = vid;
            }
        }
        let mut pb = Uuid::nil();
        let mut rng = Rng::new(seed).fork(0xB02C);
        for i in 0..n {
            let data = format!("b{i}").into_bytes();
            match subj.exec(b, &Req::AddVersion { parent: pb, data: data.clone() }) {
                Resp::AddOk { vid, .. } => {
                    chain_b.push((vid, pb, data));
                    pb = vid;
                }
                o => return fail(format!("AddVersion #{i} on the latest version of the long chain failed on {}: {}", kind.name(), o.short())),
            }
            if i % 100 == 99 || i + 1 == n {
                let mut to_check: Vec<(Uuid, &(Uuid, Uuid, Vec<u8>), &str)> = chain_a.iter().map(|v| (a, v, "short")).collect();
                for _ in 0..12 {
                    to_check.push((b, &chain_b[rng.usize(chain_b.len())], "long"));
                }
                to_check.push((b, &chain_b[0], "long"));
                for (c, (vid, parent, data), which) in to_check {
                    cov.evaluations += 1;
                    match subj.exec(c, &Req::GetChild { parent: *parent }) {
                        Resp::Found { vid: v2, parent: p2, data: d2 } if v2 == *vid && p2 == *parent && d2 == *data => {}
                        o => return fail(format!("on {} (one server object, no reopen), after {} versions were accepted for another client, accepted version {vid} of the {which} chain (parent {parent}, {} bytes) is served as {}", kind.name(), i + 1, data.len(), o.short())),
                    }
                }
            }
        }
        cov.hit(format!("bulk-two-clients:{}:{}-versions", kind.name(), if n > 1024 { ">1024" } else { "few" }));
    }
    None
}

/// C13: the largest bodies the API accepts (100 MiB and a few bytes less) through the library on the
/// in-memory backend, on SQLite, and on SQLite re-opened before every request: same outcomes.
pub fn largest_body_lockstep(cov: &mut Cov) -> Option<Found> {
    const MAX: usize = 100 * 1024 * 1024;
    // (and the smallest: an empty segment / snapshot can only arrive through the library)
    for len in [0usize, 1, MAX, MAX - 64] {
        let mut outcomes: Vec<(String, Vec<String>)> = vec![];
        for (name, kind, reopen) in [("mem/lib", Kind::MEM_LIB, false), ("sqlite/lib", Kind::SQL_LIB, false), ("sqlite/lib re-opened before every request", Kind::SQL_LIB, true)] {
            let Ok(mut subj) = Subject::new(kind, Config::default()) else { continue };
            let c = Uuid::from_u128(0xC13_0000_0000 + len as u128);
            let data = PaySpec::new(len, 0, len as u64).bytes();
            let mut o = vec![];
            let mut step = |subj: &mut Subject, req: Req| -> Resp {
                if reopen {
                    let _ = subj.reopen();
                }
                subj.exec(c, &req)
            };
            let r1 = step(&mut subj, Req::AddVersion { parent: Uuid::nil(), data: data.clone() });
            let vid = if let Resp::AddOk { vid, .. } = &r1 { *vid } else { Uuid::nil() };
            o.push(format!("AddVersion: {}", r1.outcome()));
            let r2 = step(&mut subj, Req::GetChild { parent: Uuid::nil() });
            o.push(format!("GetChildVersion: {}", match &r2 { Resp::Found { data: d, .. } => format!("found, {} bytes, equal={}", d.len(), *d == data), x => x.short() }));
            let r3 = step(&mut subj, Req::AddSnapshot { vid, data: data.clone() });
            o.push(format!("AddSnapshot: {}", r3.outcome()));
            let r4 = step(&mut subj, Req::GetSnapshot);
            o.push(format!("GetSnapshot: {}", match &r4 { Resp::Snap { data: d, .. } => format!("snapshot, {} bytes, equal={}", d.len(), *d == data), x => x.short() }));
            cov.evaluations += 4;
            outcomes.push((name.to_string(), o));
        }
        cov.hit(format!("largest-body-lockstep:{}", if len == MAX { "limit" } else if len < 2 { "empty-or-one-byte" } else { "limit-64" }));
        if let Some((n, o)) = outcomes.iter().skip(1).find(|(_, o)| *o != outcomes[0].1) {
            return Some(Found {
                property: "C13".into(),
                signature: "C13:largest body".into(),
                msg: format!("with bodies of {len} bytes (the API accepts up to 100 MiB) the same four requests give {:?} on {} but {:?} on {n}", outcomes[0].1, outcomes[0].0, o),
                replay: json!({"origin": "largest-body", "case": 0}),
            });
        }
    }
    None
}

/// C18: the database's write lock is held by another process for 3.5 s (within the 5 s lock-wait
/// budget) while a write request arrives. Whatever the server answers: if it answers with an
/// error, the stored state must be - and stay, once the lock is released - what it was.
pub fn lock_held_part(cov: &mut Cov, prop: &'static str) -> Option<Found> {
    for (which, hold_ms) in [("AddVersion", 3500u64), ("AddSnapshot", 2600)] {
        let Ok(mut subj) = Subject::new(Kind::SQL_HTTP, Config::default()) else { continue };
        let c = Uuid::new_v4();
        let Resp::AddOk { vid: v1, .. } = subj.exec(c, &Req::AddVersion { parent: Uuid::nil(), data: b"one".to_vec() }) else { continue };
        let db = subj.db_path()?;
        let clients = [c];
        let ids = [v1];
        let before = crate::dump::dump_storage(subj.storage.as_ref(), &clients, &ids);
        let holder = std::thread::spawn(move || {
            if let Ok(con) = rusqlite::Connection::open(&db) {
                if con.execute_batch("BEGIN IMMEDIATE").is_ok() {
                    std::thread::sleep(std::time::Duration::from_millis(hold_ms));
                    let _ = con.execute_batch("ROLLBACK");
                }
            }
        });
        std::thread::sleep(std::time::Duration::from_millis(150));
        let t0 = std::time::Instant::now();
        let req = if which == "AddVersion" { Req::AddVersion { parent: v1, data: b"two".to_vec() } } else { Req::AddSnapshot { vid: v1, data: b"snap".to_vec() } };
        let resp = subj.exec(c, &req);
        let waited = t0.elapsed();
        let _ = holder.join();
        cov.evaluations += 1;
        cov.hit(format!("write-lock-held-{}s:{which}:{}", hold_ms / 1000, resp.outcome()));
        if let (Resp::Error(e), "C03") = (&resp, prop) {
            return Some(Found {
                property: "C03".into(),
                signature: "C03:lock held".into(),
                msg: format!("another process held the database's write lock for {hold_ms} ms (the lock-wait budget is 5 s); the {which} that overlapped it was answered with a server error after {} ms merely because of that: {e}", waited.as_millis()),
                replay: json!({"origin": "lock-held", "case": 0}),
            });
        }
        if let Resp::Error(e) = &resp {
            // the lock is free now; give an abandoned piece of work time to finish
            std::thread::sleep(std::time::Duration::from_millis(2500));
            let after = crate::dump::dump_storage(subj.storage.as_ref(), &clients, &ids);
            if before != after {
                return Some(Found {
                    property: "C18".into(),
                    signature: "C18:lock held".into(),
                    msg: format!("another process held the database's write lock for {} ms; the {which} that arrived meanwhile was answered with an error after {} ms ({e}), yet once the lock was released the stored state changed: {}", hold_ms, waited.as_millis(), before.diff(&after)),
                    replay: json!({"origin": "lock-held", "case": 0}),
                });
            }
        }
    }
    None
}
