//! E2 — controlled schedule explorer for 2-3 overlapping requests, with a differential
//! linearizability oracle: an observed concurrent execution is accepted iff some one-at-a-time
//! order of the same requests (respecting real-time order), executed by the same code on a fresh
//! storage, produces the same responses and the same final state.

use crate::evidence::{Cov, Found, Shard, ShardOut};
use crate::http::HttpApp;
use crate::ops::{Req, Resp};
use crate::scratch::ScratchDir;
use crate::subject::{lib_exec, Config, Entry, Subject};
use crate::wrap::{Call, Event, Hook, Hooked, Shared};
use serde_json::{json, Value};
use std::cell::Cell;
use std::collections::{HashMap, HashSet};
use std::sync::{Arc, Condvar, Mutex};
use std::time::{Duration, Instant};
use taskchampion_sync_server::WebServer;
use taskchampion_sync_server_core::{InMemoryStorage, Server, Storage, NIL_VERSION_ID};
use taskchampion_sync_server_storage_sqlite::SqliteStorage;
use uuid::Uuid;

thread_local! {
    static WID: Cell<Option<usize>> = const { Cell::new(None) };
}

#[derive(Clone, Copy, Debug, PartialEq, Eq, Hash)]
pub enum Pt {
    Invoke(usize),
    Return(usize),
    Call(Call),
    AfterDrop,
}

#[derive(Clone, Copy, Debug, PartialEq, Eq)]
enum St {
    NotStarted,
    Parked(Pt),
    Running,
    Blocked,
    Finished,
}

struct CtlState {
    st: Vec<St>,
    grant: Option<usize>,
    step: u64,
    trace: Vec<(u64, usize, Pt)>,
    open: Vec<u32>,
    /// began and not yet committed / dropped (for overlap detection; `open` = object alive)
    active: Vec<u32>,
    calls_in_txn: Vec<u32>,
    overlap_seen: bool,
    blocked_attempts: u32,
    lock_waits_resolved: u32,
    abort: bool,
}

pub struct Ctl {
    m: Mutex<CtlState>,
    cv: Condvar,
}

impl Ctl {
    fn new(n: usize) -> Arc<Ctl> {
        Arc::new(Ctl {
            m: Mutex::new(CtlState {
                st: vec![St::NotStarted; n],
                grant: None,
                step: 0,
                trace: vec![],
                open: vec![0; n],
                active: vec![0; n],
                calls_in_txn: vec![0; n],
                overlap_seen: false,
                blocked_attempts: 0,
                lock_waits_resolved: 0,
                abort: false,
            }),
            cv: Condvar::new(),
        })
    }

    /// Worker side: park at a yield point until the controller grants the token. Returns the
    /// logical step at which the worker resumed.
    fn park(&self, pt: Pt) -> u64 {
        let Some(id) = WID.with(|w| w.get()) else { return 0 };
        let mut g = self.m.lock().unwrap();
        if g.st[id] == St::Blocked {
            g.lock_waits_resolved += 1;
        }
        g.st[id] = St::Parked(pt);
        self.cv.notify_all();
        while g.grant != Some(id) && !g.abort {
            g = self.cv.wait(g).unwrap();
        }
        g.grant = None;
        g.st[id] = St::Running;
        g.step += 1;
        let s = g.step;
        g.trace.push((s, id, pt));
        self.cv.notify_all();
        s
    }

    fn finish(&self) {
        let Some(id) = WID.with(|w| w.get()) else { return };
        let mut g = self.m.lock().unwrap();
        g.st[id] = St::Finished;
        self.cv.notify_all();
    }
}

pub struct SchedHook(pub Arc<Ctl>);

impl Hook for SchedHook {
    fn before(&self, ev: &Event) -> Option<anyhow::Error> {
        if let Some(id) = WID.with(|w| w.get()) {
            self.0.park(Pt::Call(ev.call));
            let mut g = self.0.m.lock().unwrap();
            if ev.call != Call::Begin && ev.call != Call::Drop {
                g.calls_in_txn[id] += 1;
            }
            if ev.call == Call::Drop && g.open[id] > 0 {
                // counted as closed just before the real transaction is released, so that a
                // waiter that gets the lock right afterwards is never mistaken for an overlap
                g.open[id] -= 1;
                g.active[id] = 0;
            }
        }
        None
    }
    fn after(&self, ev: &Event, ok: bool) -> Option<anyhow::Error> {
        if ev.call == Call::Drop && WID.with(|w| w.get()).is_some() {
            // a yield point right after the transaction has ended (before the request goes on to
            // whatever it does outside the transaction)
            self.0.park(Pt::AfterDrop);
            return None;
        }
        if let Some(id) = WID.with(|w| w.get()) {
            let mut g = self.0.m.lock().unwrap();
            match ev.call {
                Call::Begin if ok => {
                    g.open[id] += 1;
                    g.active[id] += 1;
                    g.calls_in_txn[id] = 0;
                    if g.active.iter().enumerate().any(|(i, n)| i != id && *n > 0) {
                        g.overlap_seen = true;
                    }
                }
                Call::Commit if ok => {
                    g.active[id] = 0;
                }
                _ => {}
            }
        }
        None
    }
}

// ------------------------------------------------------------------------------------------
// scenarios

#[derive(Clone, Copy, Debug, PartialEq, Eq, Hash)]
pub enum Bk {
    Mem,
    Sql1,
    /// one SqliteStorage object per worker on one directory
    Sql2,
}

#[derive(Clone, Copy, Debug, PartialEq, Eq, Hash)]
pub enum Prefix {
    NeverSeen,
    Empty,
    Chain3,
    Chain3Snap,
    Chain6Snap,
    /// three versions and a snapshot of 3 MiB + 77 bytes (large bodies may be served piecewise)
    Chain3BigSnap,
}

#[derive(Clone, Copy, Debug, PartialEq, Eq, Hash)]
pub enum PRef {
    Nil,
    Latest,
    /// i-th prefix version (0-based)
    P(usize),
    /// version created by request k of this scenario if already known to the issuing worker's
    /// own program (falls back to Latest)
    New(usize),
    Fresh,
}

#[derive(Clone, Copy, Debug, PartialEq, Eq, Hash)]
pub enum SReq {
    Add(PRef),
    Gcv(PRef),
    Snap(PRef),
    GetSnap,
}

#[derive(Clone, Debug)]
pub struct Scn {
    pub name: String,
    pub bk: Bk,
    pub entry: Entry,
    pub prefix: Prefix,
    /// per worker: global request indices are assigned in order of (worker, position)
    pub programs: Vec<Vec<SReq>>,
}

impl Scn {
    pub fn reqs(&self) -> Vec<(usize, usize, SReq)> {
        let mut v = vec![];
        for (w, p) in self.programs.iter().enumerate() {
            for (j, r) in p.iter().enumerate() {
                v.push((w, j, *r));
            }
        }
        v
    }
    pub fn json(&self) -> Value {
        json!({"name": self.name, "backend": format!("{:?}", self.bk), "entry": format!("{:?}", self.entry), "prefix": format!("{:?}", self.prefix),
               "programs": self.programs.iter().map(|p| p.iter().map(|r| format!("{r:?}")).collect::<Vec<_>>()).collect::<Vec<_>>()})
    }
}

struct World {
    client: Uuid,
    dir: Option<ScratchDir>,
    /// raw storages (one per worker for Sql2, else one)
    raw: Vec<Arc<dyn Storage>>,
    servers: Vec<Arc<Server>>,
    webs: Vec<WebServer>,
    prefix_ids: Vec<Uuid>,
    fresh: Uuid,
}

fn payload_for(k: usize) -> Vec<u8> {
    format!("payload-of-request-{k}-{}", "x".repeat(k * 3 + 5)).into_bytes()
}

fn build_world(scn: &Scn, ctl: &Arc<Ctl>) -> anyhow::Result<World> {
    let n = scn.programs.len();
    let (raw, dir): (Vec<Arc<dyn Storage>>, Option<ScratchDir>) = match scn.bk {
        Bk::Mem => (vec![Arc::new(InMemoryStorage::new())], None),
        Bk::Sql1 => {
            let d = ScratchDir::new("e2");
            (vec![Arc::new(SqliteStorage::new(d.path())?)], Some(d))
        }
        Bk::Sql2 => {
            let d = ScratchDir::new("e2");
            let mut v: Vec<Arc<dyn Storage>> = vec![];
            for _ in 0..n {
                v.push(Arc::new(SqliteStorage::new(d.path())?));
            }
            (v, Some(d))
        }
    };
    let cfg = Config { snapshot_days: 14, snapshot_versions: 100 };
    let mut servers = vec![];
    let mut webs = vec![];
    for r in &raw {
        let hooked: Arc<dyn Storage> = Arc::new(Hooked::new(r.clone(), Arc::new(SchedHook(ctl.clone()))));
        match scn.entry {
            Entry::Lib => servers.push(Arc::new(Server::new(cfg.to_server(), Shared(hooked)))),
            Entry::Http => webs.push(WebServer::new(cfg.to_server(), None, Shared(hooked))),
        }
    }
    let client = Uuid::new_v4();
    let mut w = World { client, dir, raw, servers, webs, prefix_ids: vec![], fresh: Uuid::new_v4() };
    // prefix (sequential, on this thread: the hook passes through)
    let st = w.raw[0].clone();
    let direct = Server::new(cfg.to_server(), Shared(st.clone()));
    let nver = match scn.prefix {
        Prefix::NeverSeen => None,
        Prefix::Empty => Some(0),
        Prefix::Chain3 | Prefix::Chain3Snap | Prefix::Chain3BigSnap => Some(3),
        Prefix::Chain6Snap => Some(6),
    };
    if let Some(nv) = nver {
        {
            let mut t = st.txn(client)?;
            t.new_client(NIL_VERSION_ID)?;
            t.commit()?;
        }
        let mut parent = Uuid::nil();
        for i in 0..nv {
            match lib_exec(&direct, client, &Req::AddVersion { parent, data: format!("prefix-{i}").into_bytes() }, false) {
                Resp::AddOk { vid, .. } => {
                    w.prefix_ids.push(vid);
                    parent = vid;
                }
                o => anyhow::bail!("prefix add failed: {}", o.short()),
            }
        }
        match scn.prefix {
            Prefix::Chain3Snap | Prefix::Chain6Snap | Prefix::Chain3BigSnap => {
                let v = w.prefix_ids[1];
                let data = if scn.prefix == Prefix::Chain3BigSnap { crate::ops::PaySpec::new(3 * 1024 * 1024 + 77, 0, 0xB16).bytes() } else { b"prefix-snapshot".to_vec() };
                match lib_exec(&direct, client, &Req::AddSnapshot { vid: v, data }, false) {
                    Resp::SnapOk => {}
                    o => anyhow::bail!("prefix snapshot failed: {}", o.short()),
                }
            }
            _ => {}
        }
    }
    Ok(w)
}

fn resolve(w: &World, r: PRef, created: &HashMap<usize, Uuid>) -> Uuid {
    match r {
        PRef::Nil => Uuid::nil(),
        PRef::Latest => w.prefix_ids.last().copied().unwrap_or(Uuid::nil()),
        PRef::P(i) => w.prefix_ids.get(i).copied().unwrap_or(w.fresh),
        PRef::New(k) => created.get(&k).copied().unwrap_or_else(|| w.prefix_ids.last().copied().unwrap_or(Uuid::nil())),
        PRef::Fresh => w.fresh,
    }
}

fn concrete(w: &World, k: usize, r: SReq, created: &HashMap<usize, Uuid>) -> Req {
    match r {
        SReq::Add(p) => Req::AddVersion { parent: resolve(w, p, created), data: payload_for(k) },
        SReq::Gcv(p) => Req::GetChild { parent: resolve(w, p, created) },
        SReq::Snap(p) => Req::AddSnapshot { vid: resolve(w, p, created), data: payload_for(100 + k) },
        SReq::GetSnap => Req::GetSnapshot,
    }
}

enum Front {
    Lib(Arc<Server>),
    Http(HttpApp),
}

fn exec_front(f: &mut Front, client: Uuid, req: &Req) -> Resp {
    match f {
        Front::Lib(s) => lib_exec(s, client, req, false),
        Front::Http(app) => {
            let h = Subject::build_http(client, req);
            let r = app.request(&h);
            Subject::decode_http(req, &r)
        }
    }
}

#[derive(Clone, Debug)]
pub struct Observed {
    /// the id argument each request was actually issued with, by role (nil, P<i>, N<k>, F)
    pub args: Vec<String>,
    pub resp: Vec<Resp>,
    pub inv: Vec<u64>,
    pub ret: Vec<u64>,
    pub state: AbsState,
    pub abs: Vec<String>,
    pub trace: Vec<(u64, usize, Pt)>,
    pub blocked_attempts: u32,
    pub lock_waits_resolved: u32,
    pub overlap_seen: bool,
    pub divergent: bool,
    pub choices: Vec<(usize, usize)>,
}

pub type AbsState = String;

fn symbolize(w: &World, created: &HashMap<usize, Uuid>, id: Uuid) -> String {
    if id.is_nil() {
        return "nil".into();
    }
    if let Some(i) = w.prefix_ids.iter().position(|p| *p == id) {
        return format!("P{i}");
    }
    for (k, v) in created {
        if *v == id {
            return format!("N{k}");
        }
    }
    if id == w.fresh {
        return "F".into();
    }
    "?".into()
}

fn abs_resp(w: &World, created: &HashMap<usize, Uuid>, r: &Resp) -> String {
    let s = |id: &Uuid| symbolize(w, created, *id);
    match r {
        Resp::AddOk { vid, urg } => format!("AddOk({},{urg:?})", s(vid)),
        Resp::AddConflict { expected } => format!("Conflict({})", s(expected)),
        Resp::Found { vid, parent, data } => format!("Found({},{},{:016x})", s(vid), s(parent), crate::dump::hash_bytes(data)),
        Resp::Snap { vid, data } => format!("Snap({},{:016x})", s(vid), crate::dump::hash_bytes(data)),
        Resp::Error(e) => format!("Error({e})"),
        o => o.outcome().to_string(),
    }
}

/// Abstract final state, read at quiescence through the raw storage (no scheduler).
fn abs_state(w: &World, created: &HashMap<usize, Uuid>) -> AbsState {
    let st = &w.raw[0];
    let mut out = String::new();
    let Ok(mut t) = st.txn(w.client) else { return "txn-error".into() };
    match t.get_client() {
        Ok(None) => out.push_str("absent"),
        Err(e) => out.push_str(&format!("error({e:#})")),
        Ok(Some(c)) => {
            out.push_str(&format!("latest={}", symbolize(w, created, c.latest_version_id)));
            // chain by parents
            let mut chain = vec![];
            let mut cur = c.latest_version_id;
            for _ in 0..24 {
                if cur.is_nil() {
                    break;
                }
                match t.get_version(cur) {
                    Ok(Some(v)) => {
                        chain.push(format!("{}<{}:{:016x}", symbolize(w, created, v.version_id), symbolize(w, created, v.parent_version_id), crate::dump::hash_bytes(&v.history_segment)));
                        cur = v.parent_version_id;
                    }
                    _ => {
                        chain.push(format!("missing({})", symbolize(w, created, cur)));
                        break;
                    }
                }
            }
            out.push_str(&format!(";chain=[{}]", chain.join(",")));
            match c.snapshot {
                None => out.push_str(";snap=none"),
                Some(s) => {
                    let d = t.get_snapshot_data(s.version_id).ok().flatten().map(|d| crate::dump::hash_bytes(&d));
                    out.push_str(&format!(";snap={}@since{}:{:?}", symbolize(w, created, s.version_id), s.versions_since, d.map(|h| format!("{h:016x}"))));
                }
            }
        }
    }
    // which known ids exist as versions (orphans show up here), and children index
    let mut known: Vec<(String, Uuid)> = w.prefix_ids.iter().enumerate().map(|(i, v)| (format!("P{i}"), *v)).collect();
    let mut ks: Vec<_> = created.iter().collect();
    ks.sort();
    for (k, v) in ks {
        known.push((format!("N{k}"), *v));
    }
    let mut ex = vec![];
    for (name, id) in &known {
        if let Ok(Some(_)) = t.get_version(*id) {
            ex.push(name.clone());
        }
        if let Ok(Some(ch)) = t.get_version_by_parent(*id) {
            ex.push(format!("{}->{}", name, symbolize(w, created, ch.version_id)));
        }
    }
    if let Ok(Some(ch)) = t.get_version_by_parent(Uuid::nil()) {
        ex.push(format!("nil->{}", symbolize(w, created, ch.version_id)));
    }
    out.push_str(&format!(";exist=[{}]", ex.join(",")));
    drop(t);
    if let Some(d) = &w.dir {
        if let Ok(v) = crate::dump::sql_view(&crate::subject::db_file(d.path())) {
            let cid = w.client.to_string();
            let n = v.versions.iter().filter(|r| r.1.to_lowercase() == cid).count();
            out.push_str(&format!(";rows={n}"));
        }
    }
    out
}

pub trait Chooser {
    fn choose(&mut self, n_options: usize) -> usize;
    /// choice with knowledge of which worker each option is (default: by count only)
    fn choose_worker(&mut self, options: &[usize]) -> usize {
        self.choose(options.len())
    }
}

/// One-preemption schedules: workers run to completion in priority order, except that the
/// first one is set aside after `at` of its steps and resumed only when nothing else can run.
pub struct PreemptChooser {
    pub prio: Vec<usize>,
    pub at: usize,
    pub victim_steps: usize,
    pub taken: Vec<(usize, usize)>,
}

impl Chooser for PreemptChooser {
    fn choose(&mut self, _n: usize) -> usize {
        0
    }
    fn choose_worker(&mut self, options: &[usize]) -> usize {
        let victim = self.prio[0];
        let rank = |w: usize| -> usize {
            let r = self.prio.iter().position(|x| *x == w).unwrap_or(self.prio.len());
            if w == victim && self.victim_steps >= self.at {
                usize::MAX
            } else {
                r
            }
        };
        let (i, w) = options.iter().enumerate().min_by_key(|(_, w)| rank(**w)).map(|(i, w)| (i, *w)).unwrap();
        if w == victim {
            self.victim_steps += 1;
        }
        self.taken.push((i, options.len()));
        i
    }
}

pub struct DfsChooser {
    pub prefix: Vec<usize>,
    pub pos: usize,
    pub taken: Vec<(usize, usize)>,
    pub divergent: bool,
}

impl Chooser for DfsChooser {
    fn choose(&mut self, n: usize) -> usize {
        let c = if self.pos < self.prefix.len() {
            let c = self.prefix[self.pos];
            if c >= n {
                self.divergent = true;
                0
            } else {
                c
            }
        } else {
            0
        };
        self.pos += 1;
        self.taken.push((c, n));
        c
    }
}

pub struct RandChooser {
    pub rng: crate::prng::Rng,
    pub taken: Vec<(usize, usize)>,
}

impl Chooser for RandChooser {
    fn choose(&mut self, n: usize) -> usize {
        let c = self.rng.usize(n);
        self.taken.push((c, n));
        c
    }
}

fn block_ms() -> u64 {
    std::env::var("VERIF_BLOCK_MS").ok().and_then(|s| s.parse().ok()).unwrap_or(40)
}

/// Execute one scenario under the controller with the given chooser.
pub fn execute(scn: &Scn, chooser: &mut dyn Chooser, probe: bool) -> Result<Observed, String> {
    let n = scn.programs.len();
    let ctl = Ctl::new(n);
    let world = Arc::new(build_world(scn, &ctl).map_err(|e| format!("build: {e:#}"))?);
    let reqs = scn.reqs();
    let nreq = reqs.len();
    let results: Arc<Mutex<Vec<Option<(Resp, u64, u64)>>>> = Arc::new(Mutex::new(vec![None; nreq]));
    let args_rec: Arc<Mutex<Vec<String>>> = Arc::new(Mutex::new(vec![String::new(); nreq]));
    let created: Arc<Mutex<HashMap<usize, Uuid>>> = Arc::new(Mutex::new(HashMap::new()));
    let mut handles = vec![];
    for wid in 0..n {
        let ctl2 = ctl.clone();
        let world2 = world.clone();
        let results2 = results.clone();
        let created2 = created.clone();
        let args2 = args_rec.clone();
        let mine: Vec<(usize, SReq)> = reqs.iter().enumerate().filter(|(_, (w, _, _))| *w == wid).map(|(k, (_, _, r))| (k, *r)).collect();
        let entry = scn.entry;
        handles.push(std::thread::spawn(move || {
            struct Fin(Arc<Ctl>);
            impl Drop for Fin {
                fn drop(&mut self) {
                    self.0.finish();
                }
            }
            let idx = if world2.raw.len() > 1 { wid } else { 0 };
            let mut front = match entry {
                Entry::Lib => Front::Lib(world2.servers[idx].clone()),
                Entry::Http => Front::Http(HttpApp::new(world2.webs[idx].clone())),
            };
            WID.with(|w| w.set(Some(wid)));
            let _fin = Fin(ctl2.clone());
            for (k, r) in mine {
                let inv = ctl2.park(Pt::Invoke(k));
                let cr = created2.lock().unwrap().clone();
                let req = concrete(&world2, k, r, &cr);
                let arg_id = match &req {
                    Req::AddVersion { parent, .. } | Req::GetChild { parent } => Some(*parent),
                    Req::AddSnapshot { vid, .. } => Some(*vid),
                    Req::GetSnapshot => None,
                };
                args2.lock().unwrap()[k] = arg_id.map(|i| symbolize(&world2, &cr, i)).unwrap_or_default();
                let resp = std::panic::catch_unwind(std::panic::AssertUnwindSafe(|| exec_front(&mut front, world2.client, &req))).unwrap_or_else(|_| Resp::Error("panic".into()));
                let ret = ctl2.park(Pt::Return(k));
                if let Resp::AddOk { vid, .. } = &resp {
                    created2.lock().unwrap().insert(k, *vid);
                }
                results2.lock().unwrap()[k] = Some((resp, inv, ret));
            }
        }));
    }
    // ---- controller
    let t0 = Instant::now();
    let bt = Duration::from_millis(block_ms());
    let mut cand_blocked: Option<usize> = None;
    let mut cand_since = Instant::now();
    let mut stuck = false;
    let mut deadlock: Option<String> = None;
    let mut none_parked_since: Option<Instant> = None;
    let mut starved_since: Option<Instant> = None;
    let deadlock_after = Duration::from_secs(std::env::var("VERIF_E2_DEADLOCK_S").ok().and_then(|s| s.parse().ok()).unwrap_or(10));
    {
        let mut g = ctl.m.lock().unwrap();
        loop {
            // every unfinished worker is inside the code under test (none is held by the controller,
            // none is about to be resumed) and stays there: the requests wait for each other
            let held = g.st.iter().any(|s| matches!(s, St::Parked(_) | St::NotStarted)) || g.grant.is_some();
            if held || g.st.iter().all(|s| *s == St::Finished) {
                none_parked_since = None;
            } else if none_parked_since.is_none() {
                none_parked_since = Some(Instant::now());
            }
            if let Some(t) = none_parked_since {
                if t.elapsed() > deadlock_after {
                    deadlock = Some(format!("states {:?} after schedule {:?}", g.st, g.trace.iter().map(|(_, w, p)| format!("w{w}:{p:?}")).collect::<Vec<_>>()));
                    g.abort = true;
                    ctl.cv.notify_all();
                    break;
                }
            }
            if t0.elapsed() > Duration::from_secs(std::env::var("VERIF_E2_WATCHDOG_S").ok().and_then(|s| s.parse().ok()).unwrap_or(25)) {
                if std::env::var("VERIF_E2_TIMING").is_ok() {
                    eprintln!("STUCK st={:?} grant={:?} open={:?} active={:?} blocked_attempts={} overlap={} cand={:?} trace={:?}", g.st, g.grant, g.open, g.active, g.blocked_attempts, g.overlap_seen, cand_blocked, g.trace.iter().map(|(s, w, p)| format!("{s}:w{w}:{p:?}")).collect::<Vec<_>>());
                }
                stuck = true;
                g.abort = true;
                ctl.cv.notify_all();
                break;
            }
            if g.st.iter().all(|s| *s == St::Finished) {
                break;
            }
            let busy = g.st.iter().any(|s| matches!(s, St::Running | St::NotStarted)) || g.grant.is_some();
            if busy {
                let (g2, to) = ctl.cv.wait_timeout(g, Duration::from_millis(5)).unwrap();
                g = g2;
                let _ = to;
                if let Some(w) = cand_blocked {
                    if g.st[w] == St::Running && cand_since.elapsed() >= bt {
                        g.st[w] = St::Blocked;
                        g.blocked_attempts += 1;
                        cand_blocked = None;
                    } else if g.st[w] != St::Running && g.grant != Some(w) {
                        cand_blocked = None;
                    }
                }
                continue;
            }
            // quiescent: every worker is parked, blocked or finished
            let others_open = |g: &CtlState, w: usize| g.open.iter().enumerate().any(|(i, n)| i != w && *n > 0);
            let mut options: Vec<usize> = vec![];
            for w in 0..n {
                if let St::Parked(pt) = g.st[w] {
                    if pt == Pt::Call(Call::Begin) && others_open(&g, w) && !g.overlap_seen {
                        // a begin while another transaction is open: probe the real lock only at
                        // chosen positions of the holder, and only once per execution
                        if g.blocked_attempts > 0 || !probe {
                            continue;
                        }
                        let holder_at_probe = (0..n).any(|h| {
                            h != w
                                && g.open[h] > 0
                                && match g.st[h] {
                                    St::Parked(Pt::Call(Call::Commit)) | St::Parked(Pt::Call(Call::Drop)) => true,
                                    St::Parked(Pt::Call(_)) => g.calls_in_txn[h] == 0,
                                    _ => false,
                                }
                        });
                        if !holder_at_probe {
                            continue;
                        }
                    }
                    options.push(w);
                }
            }
            if options.is_empty() {
                // only blocked workers remain (waiting for the backend's lock): wait for them. If
                // that lasts, the workers the exploration policy keeps back are released too, so
                // that nothing but the code under test decides whether the requests complete.
                let kept_back: Vec<usize> = (0..n).filter(|w| matches!(g.st[*w], St::Parked(_))).collect();
                if !kept_back.is_empty() {
                    let since = *starved_since.get_or_insert_with(Instant::now);
                    if since.elapsed() > Duration::from_millis(400) {
                        starved_since = None;
                        let w = kept_back[0];
                        cand_blocked = Some(w);
                        cand_since = Instant::now();
                        g.grant = Some(w);
                        ctl.cv.notify_all();
                        continue;
                    }
                }
                let (g2, _) = ctl.cv.wait_timeout(g, Duration::from_millis(5)).unwrap();
                g = g2;
                continue;
            }
            starved_since = None;
            let pick = if options.len() == 1 { 0 } else { chooser.choose_worker(&options) };
            let w = options[pick];
            // any granted worker may turn out to be waiting for the backend's lock (another
            // transaction is open, or an earlier waiter is still queued): watch it
            // (any granted worker is watched: it may wait for a lock, a latch or a result that a parked
            // worker holds; one that merely runs long is then scheduled around, which is harmless)
            let _ = others_open(&g, w);
            cand_blocked = Some(w);
            cand_since = Instant::now();
            g.grant = Some(w);
            ctl.cv.notify_all();
        }
    }
    if let Some(d) = deadlock {
        // the worker threads are left behind (they never return)
        return Err(format!("deadlock: {d}"));
    }
    if stuck {
        // do not wait for threads that may never return
        return Err("execution did not finish within the watchdog".into());
    }
    for h in handles {
        let _ = h.join();
    }
    if stuck {
        return Err("execution did not finish within the watchdog".into());
    }
    let g = ctl.m.lock().unwrap();
    let created = created.lock().unwrap().clone();
    let res = results.lock().unwrap().clone();
    let mut resp = vec![];
    let mut inv = vec![];
    let mut ret = vec![];
    for r in res {
        match r {
            Some((a, b, c)) => {
                resp.push(a);
                inv.push(b);
                ret.push(c);
            }
            None => return Err("a worker ended without answering its request".into()),
        }
    }
    let abs: Vec<String> = resp.iter().map(|r| abs_resp(&world, &created, r)).collect();
    let state = abs_state(&world, &created);
    let args_final: Vec<String> = { let g2 = args_rec.lock().unwrap(); g2.clone() };
    Ok(Observed {
        args: args_final,
        resp,
        inv,
        ret,
        state,
        abs,
        trace: g.trace.clone(),
        blocked_attempts: g.blocked_attempts,
        lock_waits_resolved: g.lock_waits_resolved,
        overlap_seen: g.overlap_seen,
        divergent: false,
        choices: vec![],
    })
}

#[derive(Clone, Copy, Debug, PartialEq, Eq, Hash, PartialOrd, Ord)]
pub enum Step {
    /// whole request
    Req(usize),
    /// relaxed model: creation of the (absent) client by request k
    Create(usize),
}

/// Execute the steps one at a time on a fresh world (same code, no overlap).
pub fn sequential(scn: &Scn, order: &[Step], args: &[String]) -> Result<(Vec<String>, AbsState), String> {
    let ctl = Ctl::new(scn.programs.len());
    let world = build_world(scn, &ctl).map_err(|e| format!("build: {e:#}"))?;
    let reqs = scn.reqs();
    let mut created: HashMap<usize, Uuid> = HashMap::new();
    let mut resp: Vec<Option<Resp>> = vec![None; reqs.len()];
    let mut fronts: Vec<Front> = vec![];
    for i in 0..world.raw.len() {
        fronts.push(match scn.entry {
            Entry::Lib => Front::Lib(world.servers[i].clone()),
            Entry::Http => Front::Http(HttpApp::new(world.webs[i].clone())),
        });
    }
    for s in order {
        match s {
            Step::Create(_) => {
                let st = &world.raw[0];
                let r: anyhow::Result<()> = (|| {
                    let mut t = st.txn(world.client)?;
                    if t.get_client()?.is_none() {
                        t.new_client(NIL_VERSION_ID)?;
                        t.commit()?;
                    }
                    Ok(())
                })();
                if let Err(e) = r {
                    return Err(format!("create step failed: {e:#}"));
                }
            }
            Step::Req(k) => {
                let (w, _, r) = reqs[*k];
                // the request is issued with the same argument (by role) as in the observed execution
                let arg: Uuid = match args.get(*k).map(|s| s.as_str()).unwrap_or("") {
                    "" | "nil" => Uuid::nil(),
                    "F" => world.fresh,
                    a if a.starts_with('P') => a[1..].parse::<usize>().ok().and_then(|i| world.prefix_ids.get(i).copied()).unwrap_or(world.fresh),
                    a if a.starts_with('N') => match a[1..].parse::<usize>().ok().and_then(|i| created.get(&i).copied()) {
                        Some(id) => id,
                        None => return Err("order uses a version before it exists".into()),
                    },
                    _ => world.fresh,
                };
                let req = match r {
                    SReq::Add(_) => Req::AddVersion { parent: arg, data: payload_for(*k) },
                    SReq::Gcv(_) => Req::GetChild { parent: arg },
                    SReq::Snap(_) => Req::AddSnapshot { vid: arg, data: payload_for(100 + *k) },
                    SReq::GetSnap => Req::GetSnapshot,
                };
                let idx = if fronts.len() > 1 { w } else { 0 };
                let rr = exec_front(&mut fronts[idx], world.client, &req);
                if let Resp::AddOk { vid, .. } = &rr {
                    created.insert(*k, *vid);
                }
                resp[*k] = Some(rr);
            }
        }
    }
    let abs: Vec<String> = resp.iter().map(|r| r.as_ref().map(|r| abs_resp(&world, &created, r)).unwrap_or_default()).collect();
    Ok((abs, abs_state(&world, &created)))
}

fn permutations(items: &[Step], ok_before: &dyn Fn(Step, Step) -> bool) -> Vec<Vec<Step>> {
    // all orders of items such that no pair violates `must a before b`
    fn rec(rest: &mut Vec<Step>, cur: &mut Vec<Step>, out: &mut Vec<Vec<Step>>, must: &dyn Fn(Step, Step) -> bool) {
        if rest.is_empty() {
            out.push(cur.clone());
            return;
        }
        for i in 0..rest.len() {
            let c = rest[i];
            // c can come next only if no remaining item must precede it
            if rest.iter().enumerate().any(|(j, o)| j != i && must(*o, c)) {
                continue;
            }
            rest.remove(i);
            cur.push(c);
            rec(rest, cur, out, must);
            cur.pop();
            rest.insert(i, c);
        }
    }
    let mut out = vec![];
    rec(&mut items.to_vec(), &mut vec![], &mut out, ok_before);
    out
}

pub struct Oracle<'a> {
    pub scn: &'a Scn,
    cache: HashMap<(Vec<Step>, Vec<String>), Result<(Vec<String>, AbsState), String>>,
    pub seq_runs: u64,
}

#[derive(Debug, Clone, PartialEq)]
pub enum Lin {
    Ok(Vec<Step>),
    /// strict fails, the two-step-creation model explains it
    RelaxedOnly(Vec<Step>),
    No,
}

impl<'a> Oracle<'a> {
    pub fn new(scn: &'a Scn) -> Self {
        Oracle { scn, cache: HashMap::new(), seq_runs: 0 }
    }

    fn seq(&mut self, order: &[Step], args: &[String]) -> Result<(Vec<String>, AbsState), String> {
        let key = (order.to_vec(), args.to_vec());
        if let Some(r) = self.cache.get(&key) {
            return r.clone();
        }
        self.seq_runs += 1;
        let r = sequential(self.scn, order, args);
        self.cache.insert(key, r.clone());
        r
    }

    pub fn check(&mut self, o: &Observed) -> Lin {
        let reqs = self.scn.reqs();
        let n = reqs.len();
        let before_req = |a: usize, b: usize| -> bool {
            // program order, or a returned before b was invoked
            (reqs[a].0 == reqs[b].0 && reqs[a].1 < reqs[b].1) || o.ret[a] < o.inv[b]
        };
        let items: Vec<Step> = (0..n).map(Step::Req).collect();
        let must = |a: Step, b: Step| -> bool {
            match (a, b) {
                (Step::Req(x), Step::Req(y)) => before_req(x, y),
                _ => false,
            }
        };
        for p in permutations(&items, &must) {
            if let Ok((abs, st)) = self.seq(&p, &o.args) {
                if abs == o.abs && st == o.state {
                    return Lin::Ok(p);
                }
            }
        }
        // relaxed: an HTTP AddVersion for a never-seen client is create-client; add-version
        if self.scn.entry == Entry::Http && self.scn.prefix == Prefix::NeverSeen {
            let adds: Vec<usize> = (0..n).filter(|k| matches!(reqs[*k].2, SReq::Add(_))).collect();
            if !adds.is_empty() {
                let mut items: Vec<Step> = (0..n).map(Step::Req).collect();
                for a in &adds {
                    items.push(Step::Create(*a));
                }
                let rq = |s: Step| match s {
                    Step::Req(k) | Step::Create(k) => k,
                };
                let must = |a: Step, b: Step| -> bool {
                    let (x, y) = (rq(a), rq(b));
                    if x == y {
                        return matches!((a, b), (Step::Create(_), Step::Req(_)));
                    }
                    before_req(x, y)
                };
                let perms = permutations(&items, &must);
                for p in perms.iter().take(400) {
                    if let Ok((abs, st)) = self.seq(p, &o.args) {
                        if abs == o.abs && st == o.state {
                            return Lin::RelaxedOnly(p.clone());
                        }
                    }
                }
            }
        }
        Lin::No
    }
}

pub fn trace_hash(t: &[(u64, usize, Pt)]) -> u64 {
    let mut h: u64 = 0xcbf29ce484222325;
    for (_, w, p) in t {
        let s = format!("{w}{p:?}");
        for b in s.bytes() {
            h = (h ^ b as u64).wrapping_mul(0x100000001b3);
        }
    }
    h
}
