//! The pinned release (vendored crates) as a subject's FIRST life: a history starts on a server
//! of the pinned release and, after some operations, the directory is taken over by the code under
//! test ("upgrade in the middle of a history"). While the pinned release runs, nothing of the
//! current code opens the directory; the harness reads state through this adapter.

use crate::ops::{Req, Resp, Urg};
use pinned_core as pc;
use std::sync::Arc;
use taskchampion_sync_server_core as cc;
use uuid::Uuid;

pub type PServer = pc::Server;

pub fn new_server(dir: &std::path::Path, days: i64, versions: u32) -> anyhow::Result<Arc<PServer>> {
    let st = pinned_sqlite::SqliteStorage::new(dir)?;
    Ok(Arc::new(pc::Server::new(pc::ServerConfig { snapshot_days: days, snapshot_versions: versions }, st)))
}

fn urg(u: pc::SnapshotUrgency) -> Urg {
    match u {
        pc::SnapshotUrgency::None => Urg::None,
        pc::SnapshotUrgency::Low => Urg::Low,
        pc::SnapshotUrgency::High => Urg::High,
    }
}

/// One protocol request through the pinned library (AddVersion for an unknown client creates it,
/// as the pinned HTTP handler does).
pub fn exec(server: &PServer, client: Uuid, req: &Req) -> Resp {
    match req {
        Req::AddVersion { parent, data } => {
            let mut tries = 0;
            loop {
                tries += 1;
                match server.add_version(client, *parent, data.clone()) {
                    Ok((pc::AddVersionResult::Ok(v), u)) => return Resp::AddOk { vid: v, urg: urg(u) },
                    Ok((pc::AddVersionResult::ExpectedParentVersion(e), _)) => return Resp::AddConflict { expected: e },
                    Err(pc::ServerError::NoSuchClient) => {
                        if tries > 3 {
                            return Resp::NoSuchClient;
                        }
                        let created = (|| -> anyhow::Result<()> {
                            let mut txn = server.txn(client).map_err(|e| anyhow::anyhow!("{e}"))?;
                            if txn.get_client()?.is_none() {
                                txn.new_client(Uuid::nil())?;
                                txn.commit()?;
                            }
                            Ok(())
                        })();
                        if let Err(e) = created {
                            return Resp::Error(format!("create client: {e:#}"));
                        }
                    }
                    Err(e) => return Resp::Error(format!("{e:#}")),
                }
            }
        }
        Req::GetChild { parent } => match server.get_child_version(client, *parent) {
            Ok(pc::GetVersionResult::Success { version_id, parent_version_id, history_segment }) => Resp::Found { vid: version_id, parent: parent_version_id, data: history_segment },
            Ok(pc::GetVersionResult::NotFound) => Resp::NotFound,
            Ok(pc::GetVersionResult::Gone) => Resp::Gone,
            Err(pc::ServerError::NoSuchClient) => Resp::NoSuchClient,
            Err(e) => Resp::Error(format!("{e:#}")),
        },
        Req::AddSnapshot { vid, data } => match server.add_snapshot(client, *vid, data.clone()) {
            Ok(()) => Resp::SnapOk,
            Err(pc::ServerError::NoSuchClient) => Resp::NoSuchClient,
            Err(e) => Resp::Error(format!("{e:#}")),
        },
        Req::GetSnapshot => match server.get_snapshot(client) {
            Ok(Some((vid, data))) => Resp::Snap { vid, data },
            Ok(None) => Resp::NoSnap,
            Err(pc::ServerError::NoSuchClient) => Resp::NoSuchClient,
            Err(e) => Resp::Error(format!("{e:#}")),
        },
    }
}

/// The current `Storage` trait over the pinned server's own storage (reads and the harness's
/// planting go through the pinned code while it is in charge of the directory).
pub struct ViaPinned(pub Arc<PServer>);

struct Txn<'a>(Box<dyn pc::StorageTxn + 'a>);

impl cc::Storage for ViaPinned {
    fn txn(&self, client_id: Uuid) -> anyhow::Result<Box<dyn cc::StorageTxn + '_>> {
        let t = self.0.txn(client_id).map_err(|e| anyhow::anyhow!("{e}"))?;
        Ok(Box::new(Txn(t)))
    }
}

impl<'a> cc::StorageTxn for Txn<'a> {
    fn get_client(&mut self) -> anyhow::Result<Option<cc::Client>> {
        Ok(self.0.get_client()?.map(|c| cc::Client { latest_version_id: c.latest_version_id, snapshot: c.snapshot.map(|s| cc::Snapshot { version_id: s.version_id, timestamp: s.timestamp, versions_since: s.versions_since }) }))
    }
    fn new_client(&mut self, latest_version_id: Uuid) -> anyhow::Result<()> {
        self.0.new_client(latest_version_id)
    }
    fn set_snapshot(&mut self, s: cc::Snapshot, data: Vec<u8>) -> anyhow::Result<()> {
        self.0.set_snapshot(pc::Snapshot { version_id: s.version_id, timestamp: s.timestamp, versions_since: s.versions_since }, data)
    }
    fn get_snapshot_data(&mut self, version_id: Uuid) -> anyhow::Result<Option<Vec<u8>>> {
        self.0.get_snapshot_data(version_id)
    }
    fn get_version_by_parent(&mut self, p: Uuid) -> anyhow::Result<Option<cc::Version>> {
        Ok(self.0.get_version_by_parent(p)?.map(|v| cc::Version { version_id: v.version_id, parent_version_id: v.parent_version_id, history_segment: v.history_segment }))
    }
    fn get_version(&mut self, id: Uuid) -> anyhow::Result<Option<cc::Version>> {
        Ok(self.0.get_version(id)?.map(|v| cc::Version { version_id: v.version_id, parent_version_id: v.parent_version_id, history_segment: v.history_segment }))
    }
    fn add_version(&mut self, v: Uuid, p: Uuid, seg: Vec<u8>) -> anyhow::Result<()> {
        self.0.add_version(v, p, seg)
    }
    fn commit(&mut self) -> anyhow::Result<()> {
        self.0.commit()
    }
}
