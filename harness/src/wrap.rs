//! Wrappers around the public `Storage` / `StorageTxn` traits. They attach at a boundary the
//! repository already exposes, so no source hooks are needed.

use std::sync::atomic::{AtomicU64, Ordering};
use std::sync::{Arc, Mutex};
use taskchampion_sync_server_core::{Client, Snapshot, Storage, StorageTxn, Version};
use uuid::Uuid;

/// `Arc` delegate so the harness keeps a second handle to the storage a server owns.
pub struct Shared(pub Arc<dyn Storage>);

impl Storage for Shared {
    fn txn(&self, client_id: Uuid) -> anyhow::Result<Box<dyn StorageTxn + '_>> {
        self.0.txn(client_id)
    }
}

#[derive(Clone, Copy, Debug, PartialEq, Eq, Hash, PartialOrd, Ord)]
pub enum Call {
    Begin,
    GetClient,
    NewClient,
    SetSnapshot,
    GetSnapshotData,
    GetVersionByParent,
    GetVersion,
    AddVersion,
    Commit,
    Drop,
}

impl Call {
    pub fn is_write(self) -> bool {
        matches!(self, Call::NewClient | Call::SetSnapshot | Call::AddVersion)
    }
}

#[derive(Clone, Copy, Debug, PartialEq, Eq)]
pub struct Event {
    pub call: Call,
    pub client: Uuid,
    /// sequence number of the transaction within this wrapper
    pub txn_no: u64,
}

pub trait Hook: Send + Sync {
    /// Called before the wrapped call; `Some(err)` makes the call fail without taking effect.
    fn before(&self, _ev: &Event) -> Option<anyhow::Error> {
        None
    }
    /// Called after the wrapped call returned (`ok` = it succeeded); `Some(err)` makes the call
    /// report failure although it took effect.
    fn after(&self, _ev: &Event, _ok: bool) -> Option<anyhow::Error> {
        None
    }
}

pub struct Hooked {
    pub inner: Arc<dyn Storage>,
    pub hook: Arc<dyn Hook>,
    pub txn_counter: AtomicU64,
}

impl Hooked {
    pub fn new(inner: Arc<dyn Storage>, hook: Arc<dyn Hook>) -> Self {
        Hooked { inner, hook, txn_counter: AtomicU64::new(0) }
    }
}

struct HookedTxn<'a> {
    inner: Option<Box<dyn StorageTxn + 'a>>,
    hook: Arc<dyn Hook>,
    client: Uuid,
    txn_no: u64,
}

impl Storage for Hooked {
    fn txn(&self, client_id: Uuid) -> anyhow::Result<Box<dyn StorageTxn + '_>> {
        let txn_no = self.txn_counter.fetch_add(1, Ordering::SeqCst);
        let ev = Event { call: Call::Begin, client: client_id, txn_no };
        if let Some(e) = self.hook.before(&ev) {
            return Err(e);
        }
        let r = self.inner.txn(client_id);
        let ok = r.is_ok();
        let inj = self.hook.after(&ev, ok);
        let inner = r?;
        let t = HookedTxn { inner: Some(inner), hook: self.hook.clone(), client: client_id, txn_no };
        if let Some(e) = inj {
            // the begin "took effect" but is reported as failed: the transaction is dropped here
            drop(t);
            return Err(e);
        }
        Ok(Box::new(t))
    }
}

impl HookedTxn<'_> {
    fn around<T>(
        &mut self,
        call: Call,
        f: impl FnOnce(&mut dyn StorageTxn) -> anyhow::Result<T>,
    ) -> anyhow::Result<T> {
        let ev = Event { call, client: self.client, txn_no: self.txn_no };
        if let Some(e) = self.hook.before(&ev) {
            return Err(e);
        }
        let r = f(self.inner.as_mut().unwrap().as_mut());
        if let Some(e) = self.hook.after(&ev, r.is_ok()) {
            return Err(e);
        }
        r
    }
}

impl StorageTxn for HookedTxn<'_> {
    fn get_client(&mut self) -> anyhow::Result<Option<Client>> {
        self.around(Call::GetClient, |t| t.get_client())
    }
    fn new_client(&mut self, latest_version_id: Uuid) -> anyhow::Result<()> {
        self.around(Call::NewClient, |t| t.new_client(latest_version_id))
    }
    fn set_snapshot(&mut self, snapshot: Snapshot, data: Vec<u8>) -> anyhow::Result<()> {
        self.around(Call::SetSnapshot, |t| t.set_snapshot(snapshot, data))
    }
    fn get_snapshot_data(&mut self, version_id: Uuid) -> anyhow::Result<Option<Vec<u8>>> {
        self.around(Call::GetSnapshotData, |t| t.get_snapshot_data(version_id))
    }
    fn get_version_by_parent(&mut self, parent_version_id: Uuid) -> anyhow::Result<Option<Version>> {
        self.around(Call::GetVersionByParent, |t| t.get_version_by_parent(parent_version_id))
    }
    fn get_version(&mut self, version_id: Uuid) -> anyhow::Result<Option<Version>> {
        self.around(Call::GetVersion, |t| t.get_version(version_id))
    }
    fn add_version(&mut self, version_id: Uuid, parent_version_id: Uuid, history_segment: Vec<u8>) -> anyhow::Result<()> {
        self.around(Call::AddVersion, |t| t.add_version(version_id, parent_version_id, history_segment))
    }
    fn commit(&mut self) -> anyhow::Result<()> {
        self.around(Call::Commit, |t| t.commit())
    }
}

impl Drop for HookedTxn<'_> {
    fn drop(&mut self) {
        let ev = Event { call: Call::Drop, client: self.client, txn_no: self.txn_no };
        let _ = self.hook.before(&ev);
        // drop the real transaction (releases the backend's lock) before reporting
        self.inner.take();
        let _ = self.hook.after(&ev, true);
    }
}

/// Records every storage access.
#[derive(Default)]
pub struct AccessLog {
    pub events: Mutex<Vec<Event>>,
}

impl AccessLog {
    pub fn new() -> Arc<Self> {
        Arc::new(Self::default())
    }
    pub fn take(&self) -> Vec<Event> {
        std::mem::take(&mut *self.events.lock().unwrap())
    }
    pub fn len(&self) -> usize {
        self.events.lock().unwrap().len()
    }
}

impl Hook for AccessLog {
    fn before(&self, ev: &Event) -> Option<anyhow::Error> {
        self.events.lock().unwrap().push(*ev);
        None
    }
}
