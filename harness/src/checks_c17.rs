//! C17 — E6 process driver: the real executable, configured by flags or environment variables,
//! observed over loopback including kill -9 and restart on the same data directory.

use crate::e1::spec_urgency;
use crate::evidence::{CheckResult, Cov, Found, Shard, ShardOut, Verdict};
use crate::http::{socket_request, Framing, HttpReq, HttpResp};
use crate::net::{free_port, server_bin, Proc};
use crate::ops::{Req, Resp, Urg};
use crate::prng::Rng;
use crate::scratch::ScratchDir;
use crate::subject::{db_file, Config, Subject};
use serde_json::{json, Value};
use std::time::Duration;
use taskchampion_sync_server_core::{Snapshot, Storage};
use taskchampion_sync_server_storage_sqlite::SqliteStorage;
use uuid::Uuid;

#[derive(Clone, Debug)]
struct Cfg {
    addrs: Vec<String>,
    listen_form: u8, // 0 repeated flag, 1 comma list flag, 2 env LISTEN
    data_by_env: bool,
    allow: Vec<Uuid>, // empty = no list
    allow_form: u8,   // 0 repeated flag, 1 comma flag, 2 env CLIENT_ID
    versions: Option<u32>,
    versions_by_env: bool,
    days: Option<i64>,
    days_by_env: bool,
    /// index of a listen address that is already taken by another listener when the server starts
    occupied: Option<usize>,
    /// name of the data directory (any legal file name: blanks, '#', '?', '%41', non-ASCII, quotes)
    dir_name: String,
    /// the server runs as process 1 of a PID namespace of its own (a container): every start, and
    /// every restart after kill -9, has the same process id
    pidns: bool,
}

const DIR_NAMES: [&str; 17] = ["<link>moved-to-the-big-disk", "<under-link>sync/data", "<relative>~/tss", "<relative>./state/../state/db", "<latin-1>donn\u{e9}es", "not/yet/there", "fresh volume/sync", "my data", "store#1", "which?", "tasks%41", "d\u{e4}ta-\u{fc}", "a'b\"c", "x;y&z", "semi:colon=eq", "file:name", "trailing."];

impl Cfg {
    fn json(&self) -> Value {
        let lf = ["repeated --listen", "--listen a,b", "LISTEN env"][self.listen_form as usize];
        let af = ["repeated --allow-client-id", "--allow-client-id a,b", "CLIENT_ID env"][self.allow_form as usize];
        json!({"listen": self.addrs, "listen_given_by": lf, "data_dir_by": if self.data_by_env { "DATA_DIR env" } else { "--data-dir" },
               "allow_list": self.allow.iter().map(|u| u.to_string()).collect::<Vec<_>>(), "allow_given_by": af,
               "snapshot_versions": self.versions, "snapshot_versions_by": if self.versions_by_env { "SNAPSHOT_VERSIONS env" } else { "--snapshot-versions" },
               "data_dir_name": self.dir_name, "own_pid_namespace": self.pidns, "occupied_address": self.occupied.map(|i| self.addrs[i].clone()), "snapshot_days": self.days, "snapshot_days_by": if self.days_by_env { "SNAPSHOT_DAYS env" } else { "--snapshot-days" }})
    }
    fn launch(&self, dir: &std::path::Path) -> (Vec<std::ffi::OsString>, Vec<(String, std::ffi::OsString)>) {
        let mut args: Vec<std::ffi::OsString> = vec![];
        let mut env: Vec<(String, std::ffi::OsString)> = vec![];
        match self.listen_form {
            0 => {
                for a in &self.addrs {
                    args.push("--listen".into());
                    args.push(a.clone().into());
                }
            }
            1 => {
                args.push("--listen".into());
                args.push(self.addrs.join(",").into());
            }
            _ => env.push(("LISTEN".into(), self.addrs.join(",").into())),
        }
        if self.data_by_env {
            env.push(("DATA_DIR".into(), dir.as_os_str().to_os_string()));
        } else {
            args.push("--data-dir".into());
            args.push(dir.as_os_str().to_os_string());
        }
        if !self.allow.is_empty() {
            let ids: Vec<String> = self.allow.iter().map(|u| u.to_string()).collect();
            match self.allow_form {
                0 => {
                    for i in &ids {
                        args.push("--allow-client-id".into());
                        args.push(i.clone().into());
                    }
                }
                1 => {
                    args.push("--allow-client-id".into());
                    args.push(ids.join(",").into());
                }
                _ => env.push(("CLIENT_ID".into(), ids.join(",").into())),
            }
        }
        if let Some(v) = self.versions {
            if self.versions_by_env {
                env.push(("SNAPSHOT_VERSIONS".into(), v.to_string().into()));
            } else {
                args.push("--snapshot-versions".into());
                args.push(v.to_string().into());
            }
        }
        if let Some(d) = self.days {
            if self.days_by_env {
                env.push(("SNAPSHOT_DAYS".into(), d.to_string().into()));
            } else {
                args.push("--snapshot-days".into());
                args.push(d.to_string().into());
            }
        }
        (args, env)
    }
    fn effective(&self) -> Config {
        Config { snapshot_days: self.days.unwrap_or(14), snapshot_versions: self.versions.unwrap_or(100) }
    }
}

fn gen_cfg(rng: &mut Rng) -> Option<Cfg> {
    let n = 1 + rng.usize(3);
    let mut addrs = vec![];
    let mut forms = vec![0u8, 1, 2];
    rng.shuffle(&mut forms);
    for i in 0..n {
        let p = free_port()?;
        addrs.push(match forms[i] {
            0 => format!("127.0.0.1:{p}"),
            1 => format!("[::1]:{p}"),
            _ => format!("localhost:{p}"),
        });
    }
    let occupy = n >= 2 && rng.pct(25);
    let occ_idx = rng.usize(n);
    let n_allow = match rng.below(4) {
        0 => 0,
        1 => 1,
        _ => 2 + rng.usize(3),
    };
    let mut allow: Vec<Uuid> = (0..n_allow).map(|_| rng.uuid()).collect();
    // make sure multi-id lists are not accidentally sorted
    if allow.len() >= 2 {
        allow.sort();
        allow.reverse();
        if rng.pct(50) {
            rng.shuffle(&mut allow);
        }
    }
    Some(Cfg {
        addrs,
        listen_form: rng.below(3) as u8,
        data_by_env: rng.pct(50),
        allow,
        allow_form: rng.below(3) as u8,
        versions: if rng.pct(85) { Some(*rng.pick(&[0u32, 1, 2, 3, 5])) } else { None },
        versions_by_env: rng.pct(50),
        days: if rng.pct(85) { Some(*rng.pick(&[0i64, 1, 2, 3, 5, 30])) } else { None },
        days_by_env: rng.pct(50),
        occupied: if occupy { Some(occ_idx) } else { None },
        dir_name: if rng.pct(45) { "data".to_string() } else { rng.pick(&DIR_NAMES).to_string() },
        pidns: false,
    })
}

static REQS: std::sync::atomic::AtomicU64 = std::sync::atomic::AtomicU64::new(0);

fn call(addr: &str, client: Uuid, req: &Req) -> (Resp, HttpResp) {
    REQS.fetch_add(1, std::sync::atomic::Ordering::SeqCst);
    let h = Subject::build_http(client, req);
    let r = socket_request(addr, &h, Framing::ContentLength, Duration::from_secs(20));
    (Subject::decode_http(req, &r), r)
}

fn fail(msg: String, cfg: &Cfg, case: usize) -> Found {
    Found { property: "C17".into(), signature: format!("C17:{}", msg.split_whitespace().take(8).collect::<Vec<_>>().join(" ")), msg, replay: json!({"origin": "c17", "case": case, "configuration": cfg.json()}) }
}

/// Is `unshare --pid` usable here (it needs privileges)? Probed once.
fn pidns_available() -> bool {
    static OK: std::sync::OnceLock<bool> = std::sync::OnceLock::new();
    *OK.get_or_init(|| std::process::Command::new("unshare").args(["--pid", "--fork", "--kill-child", "--mount-proc", "true"]).stdin(std::process::Stdio::null()).stdout(std::process::Stdio::null()).stderr(std::process::Stdio::null()).status().map(|s| s.success()).unwrap_or(false))
}

/// Start the executable, directly or as process 1 of a new PID namespace (`unshare --kill-child`:
/// killing the launcher with SIGKILL kills the server with SIGKILL).
fn start_server(cfg: &Cfg, bin: &std::path::Path, args: &[std::ffi::OsString], env: &[(String, std::ffi::OsString)], probe: &[String], cwd: Option<&std::path::Path>) -> Result<Proc, String> {
    if !cfg.pidns {
        return Proc::start_in(bin, args, env, probe, Duration::from_secs(20), cwd);
    }
    let mut a: Vec<std::ffi::OsString> = ["--pid", "--fork", "--kill-child", "--mount-proc"].iter().map(|s| s.into()).collect();
    a.push(bin.as_os_str().to_os_string());
    a.extend(args.iter().cloned());
    Proc::start_in(std::path::Path::new("/usr/bin/unshare"), &a, env, probe, Duration::from_secs(20), cwd)
}

/// A start right after a kill -9: the killed server's sockets may take a moment to go away (in a
/// PID namespace the server dies when its launcher has died), so a failed start is tried again.
fn restart_server(cfg: &Cfg, bin: &std::path::Path, args: &[std::ffi::OsString], env: &[(String, std::ffi::OsString)], probe: &[String], cwd: Option<&std::path::Path>) -> Result<Proc, String> {
    let mut tries = 0;
    loop {
        tries += 1;
        match start_server(cfg, bin, args, env, probe, cwd) {
            Ok(p) => return Ok(p),
            Err(_) if tries < 4 => std::thread::sleep(Duration::from_millis(300 * tries)),
            Err(e) => return Err(e),
        }
    }
}

/// One configuration end to end; returns a violation message if any.
fn run_cfg(cfg: &Cfg, bin: &std::path::Path, rng: &mut Rng, cov: &mut Cov) -> Result<Option<String>, String> {
    let dir = ScratchDir::new("c17");
    // a name that is not valid UTF-8 (a Latin-1 file name on disk): legal on this platform
    let dir_os: std::ffi::OsString = match cfg.dir_name.strip_prefix("<latin-1>") {
        Some(rest) => {
            use std::os::unix::ffi::OsStringExt;
            std::ffi::OsString::from_vec(rest.chars().map(|ch| if (ch as u32) < 256 { ch as u32 as u8 } else { b'?' }).collect())
        }
        None => cfg.dir_name.clone().into(),
    };
    // a relative path (the server is started in the scratch directory): `~` is an ordinary name there
    let relative: Option<String> = cfg.dir_name.strip_prefix("<relative>").map(|s| s.to_string());
    let dir_os: std::ffi::OsString = match &relative {
        Some(r) => r.clone().into(),
        None => dir_os,
    };
    let mut data = dir.path().join(&dir_os);
    let mut given: std::path::PathBuf = match &relative {
        Some(r) => std::path::PathBuf::from(r),
        None => data.clone(),
    };
    // the configured path is a symbolic link to the directory (data moved to another disk, the
    // old path kept as a link), or lies below a linked directory (a mounted volume)
    if let Some(name) = cfg.dir_name.strip_prefix("<link>") {
        data = dir.path().join("real-volume").join(name);
        std::fs::create_dir_all(&data).map_err(|e| format!("mkdir: {e}"))?;
        given = dir.path().join("data-link");
        std::os::unix::fs::symlink(&data, &given).map_err(|e| format!("symlink: {e}"))?;
        cov.hit("data-dir:symbolic-link-to-the-directory".into());
    } else if let Some(name) = cfg.dir_name.strip_prefix("<under-link>") {
        let real = dir.path().join("real-volume");
        std::fs::create_dir_all(&real).map_err(|e| format!("mkdir: {e}"))?;
        let mnt = dir.path().join("mnt");
        std::os::unix::fs::symlink(&real, &mnt).map_err(|e| format!("symlink: {e}"))?;
        data = real.join(name);
        given = mnt.join(name);
        cov.hit("data-dir:below-a-symbolic-link".into());
    }
    if cfg.pidns {
        cov.hit("own-pid-namespace".into());
    }
    // what the harness itself put into the scratch directory before the server ran
    let preexisting: Vec<String> = std::fs::read_dir(dir.path()).map(|r| r.filter_map(|e| e.ok()).map(|e| e.file_name().to_string_lossy().to_string()).collect()).unwrap_or_default();
    let cwd: Option<std::path::PathBuf> = relative.as_ref().map(|_| dir.path().to_path_buf());
    let (args, env) = cfg.launch(&given);
    let eff = cfg.effective();
    // ---- a configured address that cannot be bound: the server must not come up half-configured
    if let Some(oi) = cfg.occupied {
        let a = cfg.addrs[oi].replace("localhost", "127.0.0.1");
        let Ok(_holder) = std::net::TcpListener::bind(&a) else { return Err("cannot occupy the address".into()) };
        let mut proc = match start_server(cfg, bin, &args, &env, &[], cwd.as_deref()) {
            Ok(p) => p,
            Err(_) => {
                cov.hit("unbindable-address:refused-to-start".into());
                return Ok(None);
            }
        };
        let t0 = std::time::Instant::now();
        while t0.elapsed() < Duration::from_millis(2500) {
            if !proc.alive() {
                cov.hit("unbindable-address:refused-to-start".into());
                return Ok(None);
            }
            std::thread::sleep(Duration::from_millis(25));
        }
        // still running: is it serving the other addresses while silently skipping this one?
        let served: Vec<&String> = cfg.addrs.iter().enumerate().filter(|(i, _)| *i != oi).map(|(_, a)| a).filter(|a| socket_request(a, &HttpReq::new("GET", "/"), Framing::ContentLength, Duration::from_secs(5)).status == 200).collect();
        proc.kill9();
        if !served.is_empty() {
            return Ok(Some(format!("listen address {} was already in use when the server started, yet the server runs and serves {served:?}: it does not serve on every configured address {:?}", cfg.addrs[oi], cfg.addrs)));
        }
        cov.hit("unbindable-address:not-serving".into());
        return Ok(None);
    }
    let mut proc = match start_server(cfg, bin, &args, &env, &[], cwd.as_deref()) {
        Ok(p) => p,
        Err(e) => {
            if cfg.dir_name != "data" {
                // does the same configuration start with a plain directory name?
                let plain = dir.path().join("data");
                let (a2, e2) = cfg.launch(&plain);
                if let Ok(mut p2) = Proc::start_os(bin, &a2, &e2, &cfg.addrs, Duration::from_secs(20)) {
                    p2.kill9();
                    return Ok(Some(format!("the server does not start with the data directory {:?} ({e}) although it starts with the same configuration and a directory called \"data\" next to it", data.display().to_string())));
                }
            }
            return Err(format!("start: {e}"));
        }
    };
    cov.hit(format!("data-dir-name:{}", if cfg.dir_name == "data" { "plain" } else { "unusual" }));
    // every configured address must serve
    let t0 = std::time::Instant::now();
    for a in &cfg.addrs {
        loop {
            let r = socket_request(a, &HttpReq::new("GET", "/"), Framing::ContentLength, Duration::from_secs(5));
            if r.status == 200 {
                cov.hit(format!("address-served:{}", if a.starts_with('[') { "ipv6" } else if a.starts_with("localhost") { "name" } else { "ipv4" }));
                break;
            }
            if !proc.alive() {
                return Err("server exited during start-up (could not bind?)".into());
            }
            if t0.elapsed() > Duration::from_secs(15) {
                return Ok(Some(format!("configured listen address {a} does not serve (GET / -> {}); all configured addresses: {:?}", r.describe(), cfg.addrs)));
            }
            std::thread::sleep(Duration::from_millis(20));
        }
    }
    std::thread::sleep(Duration::from_millis(60));
    if !proc.alive() {
        return Err("server exited during start-up (a port was taken by another process?)".into());
    }
    cov.hit(format!("listen:{}addr:form{}", cfg.addrs.len(), cfg.listen_form));
    cov.hit(format!("data-dir:{}", if cfg.data_by_env { "env" } else { "flag" }));
    cov.hit(format!("allow:{}:form{}", match cfg.allow.len() { 0 => "none", 1 => "one", _ => "many" }, cfg.allow_form));
    cov.hit(format!("targets:versions-{}:days-{}", match (cfg.versions, cfg.versions_by_env) { (None, _) => "default", (_, true) => "env", _ => "flag" }, match (cfg.days, cfg.days_by_env) { (None, _) => "default", (_, true) => "env", _ => "flag" }));
    let pick_addr = |rng: &mut Rng| cfg.addrs[rng.usize(cfg.addrs.len())].clone();
    // ---- allow-list: every listed id is served, others refused
    let stranger = rng.uuid();
    if !cfg.allow.is_empty() {
        for id in &cfg.allow {
            let (r, raw) = call(&pick_addr(rng), *id, &Req::GetChild { parent: Uuid::nil() });
            if !matches!(r, Resp::NotFound | Resp::Found { .. }) {
                return Ok(Some(format!("client {id} is on the configured allow-list {:?} but its request was answered {}", cfg.allow, raw.status)));
            }
        }
        for a in &cfg.addrs {
            let (_, raw) = call(a, stranger, &Req::AddVersion { parent: Uuid::nil(), data: b"x".to_vec() });
            if raw.status != 403 {
                return Ok(Some(format!("client {stranger} is not on the configured allow-list but its add-version on {a} was answered {}", raw.status)));
            }
        }
        cov.hit("allow-list-enforced".into());
    } else {
        let (r, raw) = call(&pick_addr(rng), stranger, &Req::GetChild { parent: Uuid::nil() });
        if !matches!(r, Resp::NotFound) {
            return Ok(Some(format!("no allow-list is configured but client {stranger} was answered {}", raw.status)));
        }
    }
    // ---- history + snapshot targets (versions)
    let client = if cfg.allow.is_empty() { rng.uuid() } else { cfg.allow[rng.usize(cfg.allow.len())] };
    let mut chain: Vec<(Uuid, Uuid, Vec<u8>)> = vec![];
    let mut parent = Uuid::nil();
    let mut since: Option<u32> = None;
    // counting convention (is the version being added counted?): either, but consistently
    let mut conv = (true, true);
    let n1 = 3 + rng.usize(3);
    let total = n1 + 2 + (eff.snapshot_versions.min(6) as usize * 3 / 2);
    let mut snap_data: Option<(Uuid, Vec<u8>)> = None;
    for i in 0..total {
        let data: Vec<u8> = format!("version-{i}-{}", "z".repeat(i * 11)).into_bytes();
        let (r, raw) = call(&pick_addr(rng), client, &Req::AddVersion { parent, data: data.clone() });
        match r {
            Resp::AddOk { vid, urg } => {
                let want = spec_urgency(&eff, since.map(|s| (0, s)));
                let want_after = spec_urgency(&eff, since.map(|s| (0, s + 1)));
                cov.hit(format!("urgency-by-versions:{urg:?}"));
                if urg != want {
                    conv.0 = false;
                }
                if urg != want_after {
                    conv.1 = false;
                }
                if !conv.0 && !conv.1 {
                    return Ok(Some(format!("with snapshot-versions={} snapshot-days={} and {} versions since a fresh snapshot, add-version reported {:?} (header {:?}) where the configured targets require {want:?}", eff.snapshot_versions, eff.snapshot_days, since.map(|s| s.to_string()).unwrap_or("no snapshot;".into()), urg, raw.header("X-Snapshot-Request"))));
                }
                chain.push((vid, parent, data));
                parent = vid;
                if let Some(s) = &mut since {
                    *s += 1;
                }
            }
            o => return Ok(Some(format!("add-version #{i} failed: {}", o.short()))),
        }
        if i + 1 == n1 {
            let sd = b"snapshot-bytes".to_vec();
            let (r, _) = call(&pick_addr(rng), client, &Req::AddSnapshot { vid: parent, data: sd.clone() });
            if !matches!(r, Resp::SnapOk) {
                return Ok(Some(format!("add-snapshot failed: {}", r.short())));
            }
            since = Some(0);
            snap_data = Some((parent, sd));
        }
    }
    // the database lives under the configured directory
    if !db_file(&data).is_file() {
        return Ok(Some(format!("no database file under the configured data directory {}", data.display())));
    }
    // ... and nowhere else: the configured directory is the only entry next to it
    let top_component: String = std::path::Path::new(&dir_os).components().find_map(|c| if let std::path::Component::Normal(n) = c { Some(n.to_string_lossy().to_string()) } else { None }).unwrap_or_default();
    let siblings: Vec<String> = std::fs::read_dir(dir.path()).map(|r| r.filter_map(|e| e.ok()).map(|e| e.file_name().to_string_lossy().to_string()).filter(|n| *n != top_component && *n != dir_os.to_string_lossy() && !preexisting.contains(n)).collect()).unwrap_or_default();
    if !siblings.is_empty() {
        return Ok(Some(format!("the server was given the data directory {:?} but also created {siblings:?} next to it", data.display().to_string())));
    }
    // ---- what the server serves now (the reference for "a restart serves the same history")
    let mut reads: Vec<Req> = vec![Req::GetChild { parent: Uuid::nil() }];
    for (v, _, _) in &chain {
        reads.push(Req::GetChild { parent: *v });
    }
    reads.push(Req::GetSnapshot);
    let before: Vec<Resp> = reads.iter().map(|r| call(&pick_addr(rng), client, r).0).collect();
    if before.iter().all(|r| !matches!(r, Resp::Found { .. })) {
        return Ok(Some(format!("none of the {} stored versions is served before the restart", chain.len())));
    }
    // ---- kill -9 and restart on the same directory (listen given in another form); in half of
    // the configurations another process (a backup job, an operator's sqlite shell) holds the
    // database open meanwhile, so that the write-ahead log is still on disk at the restart
    let bystander: Option<rusqlite::Connection> = if rng.pct(50) { rusqlite::Connection::open(db_file(&data)).ok() } else { None };
    if let Some(c) = &bystander {
        let _: Result<i64, _> = c.query_row("SELECT count(*) FROM clients", [], |r| r.get(0));
        // one more acknowledged request while the other connection is open
        let data2 = b"written-while-another-process-has-the-database-open".to_vec();
        let (r, _) = call(&pick_addr(rng), client, &Req::AddVersion { parent, data: data2.clone() });
        if let Resp::AddOk { vid, .. } = r {
            chain.push((vid, parent, data2));
            reads.push(Req::GetChild { parent });
            parent = vid;
        }
        cov.hit("kill9-restart:another-process-has-the-database-open".into());
    }
    let before: Vec<Resp> = if bystander.is_some() { reads.iter().map(|r| call(&pick_addr(rng), client, r).0).collect() } else { before };
    proc.kill9();
    drop(proc);
    let mut cfg2 = cfg.clone();
    cfg2.listen_form = (cfg.listen_form + 1) % 3;
    cfg2.data_by_env = !cfg.data_by_env;
    let (args, env) = cfg2.launch(&given);
    let started = restart_server(cfg, bin, &args, &env, &cfg.addrs, cwd.as_deref());
    let mut proc = match started {
        Ok(p) => p,
        Err(e) => {
            // the addresses may have been taken by someone else in the meantime: does the same
            // configuration start on an empty directory?
            std::thread::sleep(Duration::from_millis(300));
            let fresh = dir.path().join("control-empty-directory");
            let (a2, e2) = cfg2.launch(&fresh);
            return match start_server(cfg, bin, &a2, &e2, &cfg.addrs, None) {
                Ok(mut p2) => {
                    p2.kill9();
                    Ok(Some(format!("after kill -9 the server does not start again on its data directory {:?} ({e}){}, although the same configuration starts on an empty directory", given.display().to_string(), if cfg.pidns { " (the server runs as process 1 of its own PID namespace, as in a container)" } else { "" })))
                }
                Err(_) => Err(format!("restart: {e}")),
            };
        }
    };
    cov.hit("kill9-restart".into());
    for (i, r) in reads.iter().enumerate() {
        let (after, _) = call(&pick_addr(rng), client, r);
        if after != before[i] {
            return Ok(Some(format!("after kill -9 and restart on the same data directory, {} #{i} is answered {} but was answered {} before the restart", r.name(), after.short(), before[i].short())));
        }
    }
    let _ = &snap_data;
    drop(bystander);
    if !cfg.allow.is_empty() {
        let (_, raw) = call(&pick_addr(rng), stranger, &Req::GetSnapshot);
        if raw.status != 403 {
            return Ok(Some(format!("after restart an unlisted client was answered {}", raw.status)));
        }
    }
    // ---- snapshot-days: age the stored snapshot with the storage API while the server is down
    proc.kill9();
    drop(proc);
    let d = eff.snapshot_days;
    let ages: Vec<i64> = vec![d.max(1) - 1, d, d * 3 / 2 + 1];
    let ages: Vec<i64> = { let mut a = ages; a.dedup(); a };
    let ages: Vec<(i64, i64)> = ages.into_iter().flat_map(|a| [(a, 3600i64), (a, 82_800)]).collect();
    for (age, past) in ages {
        // fresh snapshot at the latest version so that versions-since stays 0
        {
            let st = SqliteStorage::new(&data).map_err(|e| format!("open data dir: {e:#}"))?;
            let mut t = st.txn(client).map_err(|e| format!("{e:#}"))?;
            // one hour / twenty-three hours past the whole number of days
            let ts = chrono::Utc::now() - chrono::Duration::seconds(age * 86400 + past);
            t.set_snapshot(Snapshot { version_id: parent, timestamp: ts, versions_since: 0 }, b"aged".to_vec()).map_err(|e| format!("{e:#}"))?;
            t.commit().map_err(|e| format!("{e:#}"))?;
        }
        let (args, env) = cfg.launch(&given);
        let mut proc = restart_server(cfg, bin, &args, &env, &cfg.addrs, cwd.as_deref()).map_err(|e| format!("restart: {e}"))?;
        let (r, raw) = call(&pick_addr(rng), client, &Req::AddVersion { parent, data: b"after-aging".to_vec() });
        proc.kill9();
        match r {
            Resp::AddOk { vid, urg } => {
                let want = spec_urgency(&eff, Some((age, 0)));
                cov.hit(format!("urgency-by-age:{urg:?}"));
                if urg != want {
                    return Ok(Some(format!("with snapshot-days={} (snapshot-versions={}) and a snapshot aged {age} days with 0 versions since, add-version reported {urg:?} (header {:?}) where the configured targets require {want:?}", eff.snapshot_days, eff.snapshot_versions, raw.header("X-Snapshot-Request"))));
                }
                parent = vid;
            }
            o => return Ok(Some(format!("add-version after aging failed: {}", o.short()))),
        }
    }
    Ok(None)
}

pub fn shard_run(tier: &str, seed: u64, replay_case: Option<usize>, shard: Shard) -> ShardOut {
    let thorough = tier == "thorough";
    let mut out = ShardOut::default();
    let mut cov = Cov::default();
    let Some(bin) = server_bin() else {
        out.errors.push("server binary not built".into());
        return out;
    };
    let n = if thorough { 192 } else { 36 };
    for i in 0..n {
        match replay_case {
            Some(c) => {
                if c != i {
                    continue;
                }
            }
            None => {
                if !shard.mine(i) {
                    continue;
                }
            }
        }
        let mut rng = Rng::new(seed).fork(0xC17 + i as u64);
        let mut attempt = 0;
        loop {
            attempt += 1;
            let Some(mut cfg) = gen_cfg(&mut rng) else {
                out.errors.push("no free port".into());
                break;
            };
            // the unusual directory names are dealt out in turn (every other configuration), so that a
            // run covers all of them whatever the seed
            cfg.dir_name = if i % 2 == 1 { DIR_NAMES[((i / 2) + seed as usize) % DIR_NAMES.len()].to_string() } else if i % 4 == 0 { "data".to_string() } else { cfg.dir_name.clone() };
            if cfg.occupied.is_some() && cfg.dir_name != "data" {
                cfg.occupied = None;
            }
            cfg.pidns = i % 3 == 2 && cfg.occupied.is_none() && pidns_available();
            match run_cfg(&cfg, &bin, &mut rng, &mut cov) {
                Ok(None) => {
                    out.executed += 1;
                    if cov.samples.len() < 3 {
                        cov.samples.push(json!({"configuration": cfg.json(), "verdict": "all observations as configured"}));
                    }
                    break;
                }
                Ok(Some(m)) => {
                    // confirm on fresh ports before reporting: a genuine violation of the configuration
                    // contract reproduces, cross-talk with a foreign listener on a recycled port does not
                    let mut confirmed = false;
                    for _ in 0..2 {
                        let mut c2 = cfg.clone();
                        let mut ok_ports = true;
                        for a in c2.addrs.iter_mut() {
                            match free_port() {
                                Some(p) => {
                                    let host = a.rsplit_once(':').map(|x| x.0.to_string()).unwrap_or_default();
                                    *a = format!("{host}:{p}");
                                }
                                None => ok_ports = false,
                            }
                        }
                        if !ok_ports {
                            break;
                        }
                        let mut scratch_cov = Cov::default();
                        match run_cfg(&c2, &bin, &mut Rng::new(seed).fork(0xC17_000 + i as u64), &mut scratch_cov) {
                            Ok(Some(_)) => {
                                confirmed = true;
                                break;
                            }
                            Ok(None) => break,
                            Err(_) => continue,
                        }
                    }
                    if confirmed {
                        out.found.push(fail(m, &cfg, i));
                        out.cov = cov;
                        return out;
                    }
                    cov.count("unconfirmed_observations_discarded", 1);
                    if attempt >= 3 {
                        out.errors.push(format!("configuration {i}: observation not reproducible: {m}"));
                        break;
                    }
                }
                Err(e) => {
                    // start-up problems (port taken, ...) are retried with other ports
                    if attempt >= 3 {
                        out.errors.push(format!("configuration {i}: {e}"));
                        break;
                    }
                }
            }
        }
    }
    cov.evaluations = REQS.load(std::sync::atomic::Ordering::SeqCst);
    out.cov = cov;
    out
}

pub fn finalize(out: ShardOut, is_replay: bool) -> CheckResult {
    let cov = out.cov;
    let mut top: Vec<(&String, &u64)> = cov.situations.iter().collect();
    top.sort_by(|a, b| b.1.cmp(a.1));
    let coverage = json!({
        "evaluations": cov.evaluations,
        "distinct_nontrivial": cov.situations.len(),
        "rule": "configurations drawn from the seed: 1-3 listen addresses among 127.0.0.1 / [::1] / localhost (repeated flag, comma list, LISTEN), data directory by flag or DATA_DIR (plain and unusual names, relative paths, a symbolic link to the directory, a path below a linked directory), a third of the configurations with the server as process 1 of a PID namespace of its own (where `unshare --pid` is permitted), allow-list none/one/many in non-ascending order (repeated flag, comma list, CLIENT_ID), snapshot-versions in {1,2,3,5} and snapshot-days in {1,2,3,5,30} by flag or env or defaulted. The real executable is started; every address must serve (and in a quarter of the multi-address configurations one address is already taken by another listener: the server must then refuse to start rather than run half-configured); every listed client is served and a stranger refused on every address; a history of add-versions checks X-Snapshot-Request against the exact specification for the configured targets; kill -9, restart with the equivalent configuration given in the other form: chain, payloads and snapshot must be served as stored; then the stored snapshot is aged with the storage API while the server is down (target-1, target, 3/2 target+1 days) and the urgency after restart must follow snapshot-days. distinct_nontrivial = distinct configuration features / observations.",
        "samples": cov.samples,
        "configurations_completed": out.executed,
        "situations": top.iter().take(40).map(|(k, v)| json!({"situation": k, "n": v})).collect::<Vec<_>>(),
    });
    let required = ["unbindable-address:", "address-served:ipv4", "address-served:ipv6", "address-served:name", "allow:many", "allow:none", "kill9-restart", "urgency-by-versions:Low", "urgency-by-versions:High", "urgency-by-age:Low", "urgency-by-age:High", "urgency-by-age:None", "data-dir:env", "data-dir:flag", "data-dir-name:unusual", "kill9-restart:another-process-has-the-database-open", "data-dir:symbolic-link-to-the-directory", "data-dir:below-a-symbolic-link"];
    let verdict = if !out.found.is_empty() {
        Verdict::Violated(out.found)
    } else if !out.errors.is_empty() {
        Verdict::Inconclusive(out.errors.join("; "))
    } else if !is_replay {
        match crate::evidence::require(&cov.situations, &required) {
            Some(r) => Verdict::Inconclusive(r),
            None => Verdict::Held,
        }
    } else {
        Verdict::Held
    };
    CheckResult { verdict, coverage, assumptions: vec!["only loopback interfaces exist in the sandbox; the configuration space is sampled".into(), "snapshot age is produced by rewriting the stored snapshot's timestamp with the storage API of the tree under test while the server is stopped".into()], level: "exploration", notes: vec![] }
}
