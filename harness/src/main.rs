#![allow(dead_code, unused_variables, unused_imports)]
mod checks_c03;
mod checks_c04;
mod checks_c05;
mod checks_c06;
mod pinned;
mod checks_c09;
mod checks_c12;
mod checks_c17;
mod checks_c19;
mod checks_e1;
mod checks_http;
mod checks_slow;
mod crash;
mod dump;
mod e1;
mod e2;
mod evidence;
mod gen;
mod http;
mod net;
mod ops;
mod prng;
mod scratch;
mod stress;
mod subject;
mod vfs;
mod wrap;

use evidence::{CheckResult, Shard, ShardOut, Verdict};
use std::time::{Duration, Instant};

fn usage() -> ! {
    eprintln!("usage: verif <PROPERTY-ID> [--tier quick|thorough] [--seed N] [--replay FILE]");
    std::process::exit(2)
}

fn e1_id(id: &str) -> Option<&'static str> {
    Some(match id {
        "C01" => "C01",
        "C02" => "C02",
        "C07" => "C07",
        "C08" => "C08",
        "C09" => "C09",
        "C10" => "C10",
        "C11" => "C11",
        "C13" => "C13",
        "C14" => "C14",
        "C18" => "C18",
        _ => return None,
    })
}

/// One worker's share of a check.
fn engine_shard(id: &str, tier: &str, seed: u64, replay: Option<&serde_json::Value>, shard: Shard) -> ShardOut {
    let replay_case = replay.map(|r| r["replay"]["case"].as_u64().unwrap_or(0) as usize);
    if let Some(e) = e1_id(id) {
        let plan = checks_e1::plan_for(e, tier).unwrap();
        let mut out = checks_e1::shard_run(&plan, seed, replay_case, shard);
        if id == "C11" && out.found.is_empty() && replay.map(|r| r["replay"]["origin"] == "e2").unwrap_or(true) {
            // concurrent part: AddSnapshot overlapping GetSnapshot / AddVersion / AddSnapshot under
            // the controlled scheduler (E2); the snapshot read must be one whole generation
            let e2 = checks_c03::shard_run("C11", tier, seed, replay, shard);
            out.merge(e2);
        }
        if (id == "C01" || id == "C02") && out.found.is_empty() && replay.map(|r| r["replay"]["origin"] == "e2").unwrap_or(true) {
            let e2 = checks_c03::shard_run(id, tier, seed, replay, shard);
            out.merge(e2);
        }
        if id == "C08" && out.found.is_empty() && replay.map(|r| r["replay"]["origin"] == "e2").unwrap_or(true) {
            let e2 = checks_c03::shard_run("C08", tier, seed, replay, shard);
            out.merge(e2);
        }
        if (id == "C18" || id == "C10") && out.found.is_empty() && replay.map(|r| r["replay"]["origin"] == "e2").unwrap_or(true) {
            let e2 = checks_c03::shard_run(id, tier, seed, replay, shard);
            out.merge(e2);
        }
        if id == "C07" && replay.is_none() && out.found.is_empty() && shard.k == 7 % shard.n {
            if let Some(f) = checks_e1::bulk_two_clients(if tier == "thorough" { 20_000 } else { 1_500 }, seed, &mut out.cov) {
                out.found.push(f);
            }
        }
        if id == "C07" && out.found.is_empty() && replay.map(|r| r["replay"]["origin"] == "legacy-fork").unwrap_or(shard.k == 3 % shard.n) {
            // directories inherited from the pinned release with a re-created client (two children of
            // one parent): what was served before the upgrade is served after it
            if let Some(f) = checks_c19::legacy_fork_part("C07", seed, tier == "thorough", &mut out.cov) {
                if f.signature == "harness-error" {
                    out.errors.push(f.msg);
                } else {
                    out.found.push(f);
                }
            }
        }
        if (id == "C02" || id == "C18") && tier == "thorough" && out.found.is_empty() && replay.map(|r| r["replay"]["origin"] == "slow-storage").unwrap_or(shard.k == 11 % shard.n) {
            // one storage call of a request takes 33 s / 64 s: the ordinary outcome with its effect, or
            // an error with none - also no late one
            let mut errs = vec![];
            if let Some(f) = checks_slow::slow_storage_part(id, seed, &mut out.cov, &mut errs) {
                out.found.push(f);
            }
            out.errors.extend(errs);
        }
        if id == "C07" && out.found.is_empty() && replay.map(|r| r["replay"]["origin"] == "locked-open" || r["replay"]["origin"] == "storage-api-same-version-id").unwrap_or(shard.k == 4 % shard.n) {
            // a start while another program holds the database for longer than the lock-wait budget
            if let Some(f) = checks_slow::locked_open_part("C07", &mut out.cov) {
                out.found.push(f);
            } else if let Some(f) = checks_c09::storage_api_same_version_id_part("C07", &mut out.cov) {
                out.found.push(f);
            }
        }
        if id == "C18" && replay.is_none() && out.found.is_empty() && shard.k == 8 % shard.n {
            if let Some(f) = checks_e1::lock_held_part(&mut out.cov, "C18") {
                out.found.push(f);
            }
        }
        if id == "C14" && replay.is_none() && out.found.is_empty() && shard.k == 6 % shard.n {
            if let Some(f) = checks_c05::c14_fault_twin(seed, &mut out.cov) {
                out.found.push(f);
            }
        }
        if id == "C13" && replay.is_none() && out.found.is_empty() && shard.k == 9 % shard.n {
            if let Some(f) = checks_e1::largest_body_lockstep(&mut out.cov) {
                out.found.push(f);
            }
        }
        if id == "C09" && out.found.is_empty() && replay.map(|r| r["replay"]["origin"] == "id-space-overlap" || r["replay"]["origin"] == "shared-header-values").unwrap_or(shard.k == 2 % shard.n) {
            if let Some(f) = checks_c09::id_space_overlap_part(&mut out.cov) {
                out.found.push(f);
            } else if let Some(f) = checks_c09::shared_header_values_part(&mut out.cov) {
                out.found.push(f);
            } else if let Some(f) = checks_c09::storage_api_same_version_id_part("C09", &mut out.cov) {
                out.found.push(f);
            }
        }
        if id == "C09" && replay.is_none() && out.found.is_empty() {
            // concurrent part: clients acting at the same time vs. each alone
            let c = checks_c09::shard_run(tier, seed, shard);
            out.merge(c);
        }
        if id == "C01" && out.found.is_empty() && replay.map(|r| r["replay"]["origin"] == "c01-walk-faults").unwrap_or(shard.k == 6 % shard.n) {
            if let Some(f) = checks_c05::c01_walk_under_faults(seed, &mut out.cov) {
                out.found.push(f);
            }
        }
        if id == "C01" && out.found.is_empty() && replay.map(|r| r["replay"]["origin"] == "quota-walk").unwrap_or(shard.k == 7 % shard.n) {
            let mut errs = vec![];
            if let Some(f) = checks_c04::quota_walk_part("C01", &mut out.cov, &mut errs) {
                out.found.push(f);
            }
            out.errors.extend(errs);
        }
        if id == "C01" && replay.is_none() && out.found.is_empty() && shard.k == 5 % shard.n {
            if let Some(f) = checks_e1::bulk_chain(if tier == "thorough" { 70_000 } else { 10_500 }, seed, &mut out.cov) {
                out.found.push(f);
            }
        }
        if id == "C07" && replay.is_none() && out.found.is_empty() {
            // accepted history must also survive overlapping requests (uncontrolled stress)
            use stress::Mode;
            let plan: Vec<(Mode, usize, usize)> = if tier == "thorough" {
                vec![(Mode::LibMem, 8, 400), (Mode::LibSqlitePerThread, 8, 120), (Mode::LibSqliteShared, 8, 120), (Mode::SocketMem, 8, 120), (Mode::LibMem, 12, 400), (Mode::LibSqlitePerThread, 12, 120)]
            } else {
                vec![(Mode::LibMem, 8, 150), (Mode::LibSqlitePerThread, 6, 40)]
            };
            for (i, (m, t, n)) in plan.iter().enumerate() {
                if !shard.mine(i + 1) {
                    continue;
                }
                let so = stress::run(*m, *t, *n, seed.wrapping_add(77 + i as u64), i % 2 == 0);
                if let Some(e) = so.error {
                    out.errors.push(format!("stress: {e}"));
                    continue;
                }
                out.cov.evaluations += so.recs.len() as u64;
                out.cov.hit(format!("concurrent-immutability|{m:?}"));
                match stress::check_immutability(&so) {
                    Ok(n) => out.cov.count("accepted_versions_rechecked_after_stress", n),
                    Err(msg) => out.found.push(evidence::Found { property: "C07".into(), signature: format!("C07:stress {}", msg.split_whitespace().take(6).collect::<Vec<_>>().join(" ")), msg: format!("stress {m:?} ({t} threads): {msg}"), replay: serde_json::json!({"origin": "stress", "case": i}) }),
                }
            }
        }
        return out;
    }
    match id {
        "C03" => checks_c03::shard_run("C03", tier, seed, replay, shard),
        "C04" => checks_c04::shard_run(tier, seed, replay_case, shard),
        "C05" => checks_c05::shard_run(tier, seed, replay_case, shard),
        "C06" => checks_c06::shard_run(tier, seed, replay_case, shard),
        "C17" => checks_c17::shard_run(tier, seed, replay_case, shard),
        "C19" => checks_c19::shard_run(tier, seed, replay_case, shard),
        "C15" | "C20" => {
            let mut out = checks_http::shard_run_grammar(id, tier, seed, replay_case, shard);
            if id == "C20" && tier == "thorough" && out.found.is_empty() && replay.map(|r| r["replay"]["origin"] == "slow-storage").unwrap_or(shard.k == 11 % shard.n) {
                // whatever is answered to a request whose storage call takes 33 s / 64 s forbids caching
                let mut errs = vec![];
                if let Some(f) = checks_slow::slow_storage_part("C20", seed, &mut out.cov, &mut errs) {
                    out.found.push(f);
                }
                out.errors.extend(errs);
            }
            out
        }
        "C16" => checks_http::shard_run_c16(tier, seed, replay_case, shard),
        "C12" => {
            let plan = checks_e1::plan_for("C12H", tier).unwrap();
            let mut out = ShardOut::default();
            if replay_case.map(|c| c < 1_000_000).unwrap_or(true) {
                out.merge(checks_e1::shard_run(&plan, seed, replay_case, shard));
            }
            if replay_case.map(|c| c >= 1_000_000).unwrap_or(true) && out.found.is_empty() {
                out.merge(checks_c12::shard_run(tier, seed, replay_case, shard));
            }
            out
        }
        _ => {
            eprintln!("unknown check {id}");
            std::process::exit(2)
        }
    }
}

fn engine_finalize(id: &str, tier: &str, seed: u64, out: ShardOut, is_replay: bool) -> CheckResult {
    if let Some(e) = e1_id(id) {
        let plan = checks_e1::plan_for(e, tier).unwrap();
        return checks_e1::finalize(&plan, seed, out, is_replay);
    }
    match id {
        "C03" => checks_c03::finalize("C03", tier, seed, out, is_replay),
        "C04" => checks_c04::finalize(out, is_replay),
        "C05" => checks_c05::finalize(out, is_replay),
        "C06" => checks_c06::finalize(out, is_replay),
        "C17" => checks_c17::finalize(out, is_replay),
        "C19" => checks_c19::finalize(out, is_replay),
        "C15" | "C20" => checks_http::finalize_grammar(id, tier, out, is_replay),
        "C16" => checks_http::finalize_c16(out, is_replay),
        "C12" => {
            let plan = checks_e1::plan_for("C12H", tier).unwrap();
            checks_e1::finalize(&plan, seed, out, is_replay)
        }
        _ => unreachable!(),
    }
}

/// Spawn worker processes (one shard each), merge what they report.
fn orchestrate(id: &str, tier: &str, seed: u64) -> Result<ShardOut, String> {
    let n = evidence::workers();
    let exe = std::env::current_exe().map_err(|e| e.to_string())?;
    let base = scratch::base();
    let mut kids = vec![];
    for k in 0..n {
        let out = base.join(format!("shard-{k}.json"));
        let wdir = base.join(format!("w{k}"));
        let child = std::process::Command::new(&exe)
            .arg(id)
            .args(["--tier", tier, "--seed", &seed.to_string(), "--shard", &format!("{k}/{n}"), "--shard-out"])
            .arg(&out)
            .env("VERIF_SCRATCH_EXACT", &wdir)
            .stdout(std::process::Stdio::null())
            .stderr(std::process::Stdio::inherit())
            .spawn()
            .map_err(|e| format!("cannot spawn worker: {e}"))?;
        kids.push((k, child, out, false));
    }
    let watchdog = Duration::from_secs(std::env::var("VERIF_WATCHDOG_S").ok().and_then(|s| s.parse().ok()).unwrap_or(if tier == "thorough" { 7200 } else { 1500 }));
    let t0 = Instant::now();
    let mut merged = ShardOut::default();
    let mut problems = vec![];
    let known = evidence::load_known();
    let is_known = |f: &evidence::Found| known.iter().any(|k| k.property == f.property && !k.signature.is_empty() && f.signature.contains(&k.signature));
    let mut stop = false;
    loop {
        let mut running = 0;
        for (k, child, out, done) in kids.iter_mut() {
            if *done {
                continue;
            }
            match child.try_wait() {
                Ok(Some(st)) => {
                    *done = true;
                    match std::fs::read_to_string(&*out).ok().and_then(|s| serde_json::from_str::<serde_json::Value>(&s).ok()) {
                        Some(v) => {
                            let so = ShardOut::from_json(&v);
                            if so.found.iter().any(|f| !is_known(f)) {
                                stop = true;
                            }
                            merged.merge(so);
                        }
                        None => {
                            if !stop {
                                problems.push(format!("worker {k} ended with {st} without a result"));
                            }
                        }
                    }
                }
                Ok(None) => running += 1,
                Err(e) => {
                    *done = true;
                    problems.push(format!("worker {k}: {e}"));
                }
            }
        }
        if running == 0 {
            break;
        }
        if stop || t0.elapsed() > watchdog {
            for (_, child, _, done) in kids.iter_mut() {
                if !*done {
                    let _ = child.kill();
                    let _ = child.wait();
                    *done = true;
                }
            }
            if !stop {
                problems.push(format!("watchdog expired after {} s", watchdog.as_secs()));
            }
            break;
        }
        std::thread::sleep(Duration::from_millis(20));
    }
    if !merged.found.iter().any(|f| !is_known(f)) && !problems.is_empty() {
        merged.errors.extend(problems);
    }
    Ok(merged)
}

/// A logger that formats every record and throws it away: with it installed at `Trace`, the
/// arguments of every log statement in the code under test are evaluated (a log statement that
/// panics or fails while formatting is then reached), as under `RUST_LOG=trace`.
struct FormatOnlyLogger;

impl log::Log for FormatOnlyLogger {
    fn enabled(&self, _: &log::Metadata) -> bool {
        true
    }
    fn log(&self, record: &log::Record) {
        use std::fmt::Write;
        let mut sink = String::new();
        let _ = write!(sink, "{}", record.args());
        std::hint::black_box(&sink);
    }
    fn flush(&self) {}
}

fn main() {
    if std::env::var("VERIF_NO_LOGGER").is_err() {
        let _ = log::set_boxed_logger(Box::new(FormatOnlyLogger));
        log::set_max_level(log::LevelFilter::Trace);
    }
    let args: Vec<String> = std::env::args().collect();
    if args.len() < 2 {
        usage();
    }
    let id = args[1].clone();
    if id == "bench" {
        bench();
        return;
    }
    if id == "payload" {
        // verif payload <len> <class> <seed>: the bytes of one payload specification on stdout
        use std::io::Write;
        let g = |i: usize| args.get(i).and_then(|s| s.parse::<u64>().ok()).unwrap_or(0);
        let b = ops::PaySpec::new(g(2) as usize, g(3) as u8, g(4)).bytes();
        let _ = std::io::stdout().write_all(&b);
        return;
    }
    if id == "gen-fixtures" {
        let out = std::path::PathBuf::from(args.get(2).cloned().unwrap_or_else(|| usage()));
        match checks_c19::gen_fixtures(&out) {
            Ok(()) => println!("fixtures written to {}", out.display()),
            Err(e) => {
                eprintln!("gen-fixtures failed: {e:#}");
                std::process::exit(1);
            }
        }
        scratch::cleanup_base();
        return;
    }
    let mut tier = std::env::var("VERIF_TIER").unwrap_or_else(|_| "quick".into());
    let mut seed: u64 = std::env::var("VERIF_SEED").ok().and_then(|s| s.parse().ok()).unwrap_or(1);
    let mut replay: Option<serde_json::Value> = None;
    let mut shard: Option<Shard> = None;
    let mut shard_out: Option<String> = None;
    let mut i = 2;
    while i < args.len() {
        match args[i].as_str() {
            "--tier" => {
                tier = args.get(i + 1).cloned().unwrap_or_else(|| usage());
                i += 2;
            }
            "--seed" => {
                seed = args.get(i + 1).and_then(|s| s.parse().ok()).unwrap_or_else(|| usage());
                i += 2;
            }
            "--shard" => {
                let s = args.get(i + 1).cloned().unwrap_or_else(|| usage());
                let (k, n) = s.split_once('/').unwrap_or_else(|| usage());
                shard = Some(Shard { k: k.parse().unwrap_or_else(|_| usage()), n: n.parse().unwrap_or_else(|_| usage()) });
                i += 2;
            }
            "--shard-out" => {
                shard_out = Some(args.get(i + 1).cloned().unwrap_or_else(|| usage()));
                i += 2;
            }
            "--replay" => {
                let p = args.get(i + 1).cloned().unwrap_or_else(|| usage());
                let s = std::fs::read_to_string(&p).unwrap_or_else(|e| {
                    eprintln!("cannot read replay file {p}: {e}");
                    std::process::exit(2)
                });
                let v: serde_json::Value = serde_json::from_str(&s).unwrap_or_else(|e| {
                    eprintln!("bad replay file: {e}");
                    std::process::exit(2)
                });
                seed = v["seed"].as_u64().unwrap_or(seed);
                tier = v["tier"].as_str().unwrap_or(&tier).to_string();
                replay = Some(v);
                i += 2;
            }
            _ => usage(),
        }
    }
    if tier != "quick" && tier != "thorough" {
        tier = "quick".into();
    }
    // panics inside the code under test are caught and judged by the monitors; keep the default
    // hook quiet so that expected panics (mutants) do not flood the output
    if std::env::var("VERIF_PANIC_TRACE").is_err() {
        std::panic::set_hook(Box::new(|_| {}));
    }

    // ---- worker mode
    if let (Some(sh), Some(out)) = (shard, &shard_out) {
        let so = engine_shard(&id, &tier, seed, None, sh);
        let _ = std::fs::write(out, serde_json::to_string(&so.to_json()).unwrap());
        std::process::exit(0);
    }

    scratch::sweep_stale();
    let t0 = Instant::now();
    let is_replay = replay.is_some();
    let merged = if is_replay {
        engine_shard(&id, &tier, seed, replay.as_ref(), Shard { k: 0, n: 1 })
    } else {
        match orchestrate(&id, &tier, seed) {
            Ok(m) => m,
            Err(e) => {
                println!("INCONCLUSIVE property={id} reason={e}");
                scratch::cleanup_base();
                std::process::exit(2);
            }
        }
    };
    let mut res = engine_finalize(&id, &tier, seed, merged, is_replay);
    if !is_replay && matches!(res.verdict, Verdict::Held) && res.coverage["samples"].as_array().map(|a| a.is_empty()).unwrap_or(true) {
        res.verdict = Verdict::Inconclusive("the run recorded no sample case".into());
    }
    let wall = t0.elapsed().as_secs_f64();
    let known = evidence::load_known();
    let mut code = 0;
    let mut nviol = 0;
    let mut known_printed: Vec<String> = vec![];
    match &res.verdict {
        Verdict::Held => {
            println!("HELD property={id} tier={tier} seed={seed} wall_s={wall:.1}");
        }
        Verdict::Inconclusive(r) => {
            println!("INCONCLUSIVE property={id} reason={r}");
            code = 2;
        }
        Verdict::Violated(fs) => {
            let mut printed_known = std::collections::HashSet::new();
            for (n, f) in fs.iter().enumerate() {
                if let Some(k) = known.iter().find(|k| k.property == f.property && !k.signature.is_empty() && f.signature.contains(&k.signature)) {
                    if printed_known.insert(k.signature.clone()) {
                        println!("KNOWN-FINDING: property={} {}", k.property, k.what);
                        known_printed.push(format!("{}: {}", k.signature, f.msg));
                    }
                    continue;
                }
                nviol += 1;
                if nviol <= 3 {
                    let p = evidence::write_replay(&id, seed, n, f, &tier);
                    println!("VIOLATION property={} replay={}", f.property, p.display());
                    println!("  {}", f.msg);
                }
            }
            if nviol > 0 {
                code = 1;
            } else {
                println!("HELD property={id} tier={tier} seed={seed} wall_s={wall:.1} (known findings only)");
            }
        }
    }
    // an evidence file always shows at least one actual case of this run
    if res.coverage["samples"].as_array().map(|a| a.is_empty()).unwrap_or(true) {
        let sample = match &res.verdict {
            Verdict::Violated(fs) => serde_json::json!({"violating_case": fs.first().map(|f| f.msg.clone()), "replay": fs.first().map(|f| f.replay.clone())}),
            Verdict::Inconclusive(r) => serde_json::json!({"no_case_completed": r}),
            Verdict::Held => serde_json::json!({"note": "no sample recorded"}),
        };
        res.coverage["samples"] = serde_json::json!([sample]);
    }
    if !is_replay {
        if let Err(e) = evidence::write_evidence(&id, &tier, seed, &res, wall, nviol, &known_printed) {
            eprintln!("cannot write evidence: {e}");
        }
    }
    scratch::cleanup_base();
    std::process::exit(code);
}

pub fn bench() {
    use ops::*;
    use subject::*;
    for kind in [Kind::MEM_LIB, Kind::SQL_LIB, Kind::SQL_HTTP, Kind::MEM_HTTP] {
        let mut s = Subject::new(kind, Config::default()).unwrap();
        let c = uuid::Uuid::new_v4();
        let t = Instant::now();
        let mut latest = uuid::Uuid::nil();
        for _ in 0..500 {
            if let Resp::AddOk { vid, .. } = s.exec(c, &Req::AddVersion { parent: latest, data: vec![1; 50] }) {
                latest = vid;
            }
        }
        let a = t.elapsed().as_secs_f64() / 500.0;
        let t = Instant::now();
        for _ in 0..2000 {
            s.exec(c, &Req::GetChild { parent: latest });
        }
        let b = t.elapsed().as_secs_f64() / 2000.0;
        let t = Instant::now();
        if let Some(p) = s.db_path() {
            for _ in 0..200 {
                dump::dump_sql(&p).unwrap();
            }
        }
        let d = t.elapsed().as_secs_f64() / 200.0;
        println!("{}: add {:.0}us gcv {:.0}us sqldump(500 rows) {:.0}us", kind.name(), a * 1e6, b * 1e6, d * 1e6);
    }
    scratch::cleanup_base();
}
