//! Symbolic operations, payload specifications and observed responses.

use crate::prng::Rng;
use serde_json::{json, Value};
use uuid::Uuid;

/// A payload described by (len, class, seed); bytes are regenerated on demand.
#[derive(Clone, Copy, Debug, PartialEq, Eq, Hash)]
pub struct PaySpec {
    pub len: usize,
    pub class: u8,
    pub seed: u64,
}

pub const PAY_CLASSES: u8 = 13;

impl PaySpec {
    pub fn new(len: usize, class: u8, seed: u64) -> Self {
        PaySpec { len, class, seed }
    }
    pub fn class_name(&self) -> &'static str {
        match self.class % PAY_CLASSES {
            0 => "random",
            1 => "zeros",
            2 => "ff",
            3 => "digits",
            4 => "numeric-text",
            5 => "utf8",
            6 => "invalid-utf8",
            7 => "nul-crlf",
            8 => "chunk-framing",
            9 => "tagged-random",
            10 => "zlib-stream",
            11 => "gzip-member",
            _ => "container-magic",
        }
    }
    /// Generate the bytes. The first 8 bytes (when len >= 8) of most classes carry the seed so
    /// that two different uploads in one history never have equal bytes.
    pub fn bytes(&self) -> Vec<u8> {
        let mut rng = Rng::new(self.seed ^ 0x5041_5953);
        let n = self.len;
        let mut v: Vec<u8> = Vec::with_capacity(n);
        match self.class % PAY_CLASSES {
            1 => v.resize(n, 0),
            2 => v.resize(n, 0xff),
            3 => {
                for _ in 0..n {
                    v.push(b'0' + rng.below(10) as u8)
                }
            }
            4 => {
                let pats: [&[u8]; 6] = [b"1e5", b" 42 ", b"0x10", b"-0.0", b"1234567890123456789012", b"NaN"];
                while v.len() < n {
                    let p = pats[rng.usize(pats.len())];
                    for b in p {
                        if v.len() < n {
                            v.push(*b)
                        }
                    }
                }
            }
            5 => {
                let pats = ["é", "日本", "🦀", "a", "ß", "\u{7ff}", "\u{ffff}"];
                while v.len() < n {
                    let p = pats[rng.usize(pats.len())].as_bytes();
                    if v.len() + p.len() <= n {
                        v.extend_from_slice(p)
                    } else {
                        v.push(b'x')
                    }
                }
            }
            6 => {
                let pats: [&[u8]; 5] = [&[0x80], &[0xc0, 0xaf], &[0xed, 0xa0, 0x80], &[0xf8, 0x88], &[0xff, 0xfe]];
                while v.len() < n {
                    let p = pats[rng.usize(pats.len())];
                    for b in p {
                        if v.len() < n {
                            v.push(*b)
                        }
                    }
                }
            }
            7 => {
                let pats: [&[u8]; 4] = [b"\0", b"\r\n", b"\r\n\r\n", b"\0\0\r"];
                while v.len() < n {
                    let p = pats[rng.usize(pats.len())];
                    for b in p {
                        if v.len() < n {
                            v.push(*b)
                        }
                    }
                }
            }
            8 => {
                let pats: [&[u8]; 4] = [b"0\r\n\r\n", b"5\r\nhello\r\n", b"\r\n0\r\n", b"ffff\r\n"];
                while v.len() < n {
                    let p = pats[rng.usize(pats.len())];
                    for b in p {
                        if v.len() < n {
                            v.push(*b)
                        }
                    }
                }
            }
            10 | 11 => {
                // the payload is itself a complete, valid zlib stream / gzip member (a client that
                // compresses its own data): deflate "stored" blocks around seeded random content
                let gz = self.class % PAY_CLASSES == 11;
                let (head, tail) = if gz { (10usize, 8usize) } else { (2, 4) };
                if n < head + tail + 5 {
                    let stub: &[u8] = if gz { &[0x1f, 0x8b, 8, 0, 0, 0, 0, 0, 0, 255, 1, 0, 0, 0xff, 0xff, 0, 0, 0, 0, 0, 0, 0, 0] } else { &[0x78, 0x01, 1, 0, 0, 0xff, 0xff, 0, 0, 0, 1] };
                    v.extend_from_slice(&stub[..n.min(stub.len())]);
                    v.resize(n, 0);
                } else {
                    let mut k = 1usize;
                    while n - head - tail < 5 * k || n - head - tail - 5 * k > 65535 * k {
                        k += 1;
                    }
                    let d = n - head - tail - 5 * k;
                    let mut data = vec![0u8; d];
                    let mut i = 0;
                    while i + 8 <= d {
                        data[i..i + 8].copy_from_slice(&rng.next_u64().to_le_bytes());
                        i += 8;
                    }
                    while i < d {
                        data[i] = rng.next_u64() as u8;
                        i += 1;
                    }
                    if d >= 8 {
                        data[..8].copy_from_slice(&self.seed.to_le_bytes());
                    }
                    if gz {
                        v.extend_from_slice(&[0x1f, 0x8b, 8, 0, 0, 0, 0, 0, 0, 255]);
                    } else {
                        v.extend_from_slice(&[0x78, 0x01]);
                    }
                    let mut off = 0usize;
                    for b in 0..k {
                        let left = d - off;
                        let take = if b + 1 == k { left } else { left.min(65535).min(left.saturating_sub(k - b - 1).max(0)) };
                        let take = take.min(65535);
                        v.push(if b + 1 == k { 1 } else { 0 });
                        v.extend_from_slice(&(take as u16).to_le_bytes());
                        v.extend_from_slice(&(!(take as u16)).to_le_bytes());
                        v.extend_from_slice(&data[off..off + take]);
                        off += take;
                    }
                    debug_assert_eq!(off, d);
                    if gz {
                        let mut table = [0u32; 256];
                        for (i, t) in table.iter_mut().enumerate() {
                            let mut c = i as u32;
                            for _ in 0..8 {
                                c = if c & 1 != 0 { 0xEDB8_8320 ^ (c >> 1) } else { c >> 1 };
                            }
                            *t = c;
                        }
                        let mut crc = 0xFFFF_FFFFu32;
                        for b in &data {
                            crc = table[((crc ^ *b as u32) & 0xff) as usize] ^ (crc >> 8);
                        }
                        v.extend_from_slice(&(crc ^ 0xFFFF_FFFF).to_le_bytes());
                        v.extend_from_slice(&(d as u32).to_le_bytes());
                    } else {
                        let (mut a, mut b2) = (1u32, 0u32);
                        for chunk in data.chunks(5552) {
                            for x in chunk {
                                a += *x as u32;
                                b2 += a;
                            }
                            a %= 65521;
                            b2 %= 65521;
                        }
                        v.extend_from_slice(&((b2 << 16) | a).to_be_bytes());
                    }
                }
            }
            12 => {
                let magics: [&[u8]; 9] = [b"SQLite format 3\0", b"PK\x03\x04", &[0x28, 0xb5, 0x2f, 0xfd], b"BZh9", &[0xfd, b'7', b'z', b'X', b'Z', 0], b"%PDF-1.7\n", b"{\"version\":1,\"data\":\"", b"TUFHSUM=", &[0x78, 0x9c]];
                let m = magics[rng.usize(magics.len())];
                v.extend_from_slice(&m[..m.len().min(n)]);
                while v.len() < n {
                    v.push(rng.next_u64() as u8);
                }
            }
            _ => {
                // random (fast fill)
                let mut i = 0;
                v.resize(n, 0);
                while i + 8 <= n {
                    v[i..i + 8].copy_from_slice(&rng.next_u64().to_le_bytes());
                    i += 8;
                }
                while i < n {
                    v[i] = rng.next_u64() as u8;
                    i += 1;
                }
            }
        }
        if self.class % PAY_CLASSES == 9 && n >= 8 {
            v[..8].copy_from_slice(&self.seed.to_le_bytes());
        }
        v
    }
    pub fn json(&self) -> Value {
        json!({"len": self.len, "class": self.class_name(), "seed": self.seed})
    }
}

/// Symbolic reference to an id; resolved per subject against that subject's own observations.
#[derive(Clone, Copy, Debug, PartialEq, Eq, Hash)]
pub enum IdRef {
    Nil,
    /// latest accepted version of client c (nil if none)
    Latest(usize),
    /// k-th accepted version (0-based, counted from the oldest) of client c
    Nth(usize, usize),
    /// k-th most recent accepted version (1 = latest) of client c
    Back(usize, usize),
    /// parent of the first accepted version of client c
    Base(usize),
    /// version of client c's currently stored snapshot (as last observed)
    SnapVid(usize),
    /// n-th fresh id of the history (same concrete uuid on every subject)
    Fresh(usize),
    /// the version j steps before client c's chain base inside the chain of whichever other
    /// client owns that base (ids "beyond one's own base" in a foreign chain)
    BeforeBase(usize, usize),
}

#[derive(Clone, Debug, PartialEq)]
pub enum OpKind {
    AddVersion { parent: IdRef, pay: PaySpec },
    GetChild { parent: IdRef },
    AddSnapshot { vid: IdRef, pay: PaySpec },
    GetSnapshot,
    /// paired probe GetChildVersion(p) immediately followed by AddVersion(p)
    Probe { parent: IdRef, pay: PaySpec },
    /// re-send of the k-th accepted version of this client (same parent, same bytes), as a client
    /// retrying after a lost response would do
    Resend { k: usize },
    /// the payload of the k-th accepted version sent again with the parent of the j-th one (a stale
    /// request that happens to carry bytes the server already holds)
    ResendStale { k: usize, j: usize },
    /// let more than a second of wall-clock time pass (snapshot times have one-second resolution)
    Pause,
    /// days pass (positive) or the clock is stepped back (negative): the time stamp of the client's
    /// stored snapshot is moved by that many days through the public storage API, everything else
    /// (version, bytes, versions-since) is written back as read
    ShiftSnapshotTime { days_older: i64 },
}

#[derive(Clone, Debug, PartialEq)]
pub struct Op {
    pub client: usize,
    pub kind: OpKind,
}

impl Op {
    pub fn json(&self) -> Value {
        match &self.kind {
            OpKind::AddVersion { parent, pay } => {
                json!({"c": self.client, "op": "AddVersion", "parent": format!("{:?}", parent), "pay": pay.json()})
            }
            OpKind::GetChild { parent } => {
                json!({"c": self.client, "op": "GetChildVersion", "parent": format!("{:?}", parent)})
            }
            OpKind::AddSnapshot { vid, pay } => {
                json!({"c": self.client, "op": "AddSnapshot", "vid": format!("{:?}", vid), "pay": pay.json()})
            }
            OpKind::GetSnapshot => json!({"c": self.client, "op": "GetSnapshot"}),
            OpKind::Probe { parent, pay } => {
                json!({"c": self.client, "op": "Probe(GetChildVersion;AddVersion)", "parent": format!("{:?}", parent), "pay": pay.json()})
            }
            OpKind::Resend { k } => json!({"c": self.client, "op": "AddVersion(resend of accepted #k)", "k": k}),
            OpKind::Pause => json!({"c": self.client, "op": "Pause(1.1 s)"}),
            OpKind::ShiftSnapshotTime { days_older } => json!({"c": self.client, "op": "ShiftSnapshotTime", "days_older": days_older}),
            OpKind::ResendStale { k, j } => json!({"c": self.client, "op": "AddVersion(payload of accepted #k, parent of accepted #j)", "k": k, "j": j}),
        }
    }
    pub fn kind_name(&self) -> &'static str {
        match self.kind {
            OpKind::AddVersion { .. } => "AddVersion",
            OpKind::GetChild { .. } => "GetChildVersion",
            OpKind::AddSnapshot { .. } => "AddSnapshot",
            OpKind::GetSnapshot => "GetSnapshot",
            OpKind::Probe { .. } => "Probe",
            OpKind::Resend { .. } => "Resend",
            OpKind::ResendStale { .. } => "ResendStale",
            OpKind::Pause => "Pause",
            OpKind::ShiftSnapshotTime { .. } => "ShiftSnapshotTime",
        }
    }
}

/// A concrete request (ids resolved).
#[derive(Clone, Debug, PartialEq)]
pub enum Req {
    AddVersion { parent: Uuid, data: Vec<u8> },
    GetChild { parent: Uuid },
    AddSnapshot { vid: Uuid, data: Vec<u8> },
    GetSnapshot,
}

impl Req {
    pub fn name(&self) -> &'static str {
        match self {
            Req::AddVersion { .. } => "AddVersion",
            Req::GetChild { .. } => "GetChildVersion",
            Req::AddSnapshot { .. } => "AddSnapshot",
            Req::GetSnapshot => "GetSnapshot",
        }
    }
}

#[derive(Clone, Copy, Debug, PartialEq, Eq, PartialOrd, Ord, Hash)]
pub enum Urg {
    None,
    Low,
    High,
}

/// Observed response, common to the library and the HTTP entry.
#[derive(Clone, Debug, PartialEq)]
pub enum Resp {
    AddOk { vid: Uuid, urg: Urg },
    AddConflict { expected: Uuid },
    Found { vid: Uuid, parent: Uuid, data: Vec<u8> },
    NotFound,
    Gone,
    SnapOk,
    Snap { vid: Uuid, data: Vec<u8> },
    NoSnap,
    /// library: ServerError::NoSuchClient; HTTP: 404 on AddSnapshot
    NoSuchClient,
    /// library Err(Other) / HTTP 5xx / panic / undecodable response
    Error(String),
}

impl Resp {
    pub fn short(&self) -> String {
        match self {
            Resp::AddOk { vid, urg } => format!("AddOk({vid},{urg:?})"),
            Resp::AddConflict { expected } => format!("Conflict(expected={expected})"),
            Resp::Found { vid, parent, data } => format!("Found(v={vid},p={parent},len={})", data.len()),
            Resp::NotFound => "NotFound".into(),
            Resp::Gone => "Gone".into(),
            Resp::SnapOk => "SnapOk".into(),
            Resp::Snap { vid, data } => format!("Snap(v={vid},len={})", data.len()),
            Resp::NoSnap => "NoSnap".into(),
            Resp::NoSuchClient => "NoSuchClient".into(),
            Resp::Error(e) => format!("Error({e})"),
        }
    }
    pub fn outcome(&self) -> &'static str {
        match self {
            Resp::AddOk { .. } => "accepted",
            Resp::AddConflict { .. } => "conflict",
            Resp::Found { .. } => "found",
            Resp::NotFound => "not-found",
            Resp::Gone => "gone",
            Resp::SnapOk => "snap-ok",
            Resp::Snap { .. } => "snapshot",
            Resp::NoSnap => "no-snapshot",
            Resp::NoSuchClient => "no-such-client",
            Resp::Error(_) => "error",
        }
    }
}

pub fn hex_prefix(b: &[u8], n: usize) -> String {
    b.iter().take(n).map(|x| format!("{:02x}", x)).collect::<Vec<_>>().join("")
}

/// first differing offset of two buffers (None if equal)
pub fn first_diff(a: &[u8], b: &[u8]) -> Option<usize> {
    if a == b {
        return None;
    }
    let n = a.len().min(b.len());
    for i in 0..n {
        if a[i] != b[i] {
            return Some(i);
        }
    }
    Some(n)
}
