//! C06 — payload engine (E1p): uploads of chosen lengths, byte classes and chunkings through the
//! library, the in-process HTTP service and real sockets; read back and compared byte for byte.

use crate::evidence::{CheckResult, Cov, Found, Shard, ShardOut, Verdict};
use crate::http::{socket_request, Framing, HttpReq, HttpResp, CT_HISTORY, CT_SNAPSHOT};
use crate::net::{free_port, server_bin, Proc, SockServer};
use crate::ops::{first_diff, hex_prefix, PaySpec, Req, Resp, PAY_CLASSES};
use crate::prng::Rng;
use crate::scratch::ScratchDir;
use crate::subject::{Backend, Config, Entry, Kind, Subject};
use serde_json::json;
use std::time::Duration;
use taskchampion_sync_server::WebServer;
use taskchampion_sync_server_core::InMemoryStorage;
use uuid::Uuid;

const MIB: usize = 1024 * 1024;

fn lengths(thorough: bool, rng: &mut Rng) -> Vec<usize> {
    let mut v: Vec<usize> = vec![1, 2, 3, 7, 8, 9, 15, 16, 17, 63, 64, 65, 255, 256, 257, 511, 512, 513, 1023, 1024, 1025, 4095, 4096, 4097, 8191, 8192, 8193, 65535, 65536, 65537, 100_000, 131_071, 131_072, 131_073, MIB - 1, MIB, MIB + 1];
    // the record also holds three 36-byte ids: scan the neighbourhood of the page-overflow steps
    let step = if thorough { 1 } else { 3 };
    let mut l = 3850;
    while l <= 4250 {
        v.push(l);
        l += step;
    }
    let mut l = 7900;
    while l <= 8300 {
        v.push(l);
        l += step * 3;
    }
    for _ in 0..if thorough { 400 } else { 90 } {
        v.push(match rng.below(4) {
            0 => 1 + rng.usize(300),
            1 => 3000 + rng.usize(3000),
            2 => 60_000 + rng.usize(20_000),
            _ => 200_000 + rng.usize(900_000),
        });
    }
    v.sort();
    v.dedup();
    v
}

/// chunk partitions of a body of n bytes: (name, chunk sizes; zeros are empty chunks)
fn partitions(n: usize, rng: &mut Rng, many: bool) -> Vec<(String, Vec<usize>)> {
    let mut out: Vec<(String, Vec<usize>)> = vec![("one".into(), vec![n])];
    if n >= 2 {
        out.push(("split-1".into(), vec![1, n - 1]));
        out.push(("split-n-1".into(), vec![n - 1, 1]));
        out.push(("empty-around".into(), vec![0, n / 2, 0, 0, n - n / 2, 0]));
    }
    if n >= 3 {
        let a = n / 3;
        out.push(("three".into(), vec![a, a, n - 2 * a]));
    }
    if n >= 5 {
        let a = n / 5;
        out.push(("five".into(), vec![a, a, a, a, n - 4 * a]));
    }
    if n <= 64 && n >= 2 {
        out.push(("bytes".into(), vec![1; n]));
    }
    for b in [4095usize, 4096, 4097, 65536] {
        if n > b {
            out.push((format!("boundary-{b}"), vec![b, n - b]));
        }
    }
    if n >= 16 {
        // powers of two
        let mut v = vec![];
        let mut left = n;
        let mut p = 1;
        while left > 0 {
            let c = p.min(left);
            v.push(c);
            left -= c;
            p *= 2;
        }
        out.push(("powers-of-two".into(), v));
    }
    let nr = if many { 4 } else { 2 };
    for r in 0..nr {
        let k = 2 + rng.usize(7);
        let mut cuts: Vec<usize> = (0..k - 1).map(|_| rng.usize(n + 1)).collect();
        cuts.sort();
        let mut v = vec![];
        let mut prev = 0;
        for c in cuts {
            v.push(c - prev);
            prev = c;
        }
        v.push(n - prev);
        out.push((format!("random-{r}-{}chunks", v.len()), v));
    }
    out
}

fn chunk(data: &[u8], sizes: &[usize]) -> Vec<Vec<u8>> {
    let mut out = vec![];
    let mut o = 0;
    for s in sizes {
        out.push(data[o..o + s].to_vec());
        o += s;
    }
    out
}

#[derive(Clone, Copy, Debug, PartialEq, Eq)]
enum PathKind {
    Lib(Backend),
    Http(Backend),
    SocketMem,
    SocketBinary,
}

enum Target {
    Subj(Subject),
    Sock { _srv: SockServer, addr: String },
    Bin { _proc: Proc, addr: String, _dir: ScratchDir },
}

fn sock_exec(addr: &str, client: Uuid, req: &Req, chunks: Option<Vec<Vec<u8>>>, framing: Framing) -> (Resp, HttpResp) {
    let mut h = Subject::build_http(client, req);
    if let Some(c) = chunks {
        h.chunks = c;
    }
    let r = socket_request(addr, &h, framing, Duration::from_secs(60));
    (Subject::decode_http(req, &r), r)
}

/// What two overlapping uploads on one socket server did (A sends the first half of its body, B
/// uploads completely in three chunks, A sends the rest).
pub struct Overlap {
    pub a_up: Resp,
    pub b_up: Resp,
    pub a_down: Resp,
    pub b_down: Resp,
    pub da: Vec<u8>,
    pub db: Vec<u8>,
}

/// Both uploads are AddVersion(nil) - by two clients, or by ONE client (then at most one of them can
/// be accepted and `a_down == b_down` is that client's first version).
pub fn overlapping_version_uploads(addr: &str, ca: Uuid, cb: Uuid, na: usize, nb: usize, seed: u64) -> Overlap {
    overlapping_version_uploads_pattern(addr, ca, cb, na, nb, seed, false)
}

/// `abab`: the bodies arrive in the order A.first, B.first, A.rest, B.rest (A completes while B is in
/// the middle of its body) instead of A.first, B (whole, three chunks), A.rest.
pub fn overlapping_version_uploads_pattern(addr: &str, ca: Uuid, cb: Uuid, na: usize, nb: usize, seed: u64, abab: bool) -> Overlap {
    use crate::http::socket_request_two_parts;
    let da = PaySpec::new(na, 0, seed ^ 0xA).bytes();
    let db = PaySpec::new(nb, 0, seed ^ 0xB).bytes();
    let ra = Req::AddVersion { parent: Uuid::nil(), data: da.clone() };
    let rb = Req::AddVersion { parent: Uuid::nil(), data: db.clone() };
    let ha = Subject::build_http(ca, &ra);
    if abab {
        let hb = Subject::build_http(cb, &rb);
        let (xa, xb) = crate::http::socket_uploads_abab(addr, &ha, &hb, Duration::from_secs(30));
        let a_up = Subject::decode_http(&ra, &xa);
        let b_up = Subject::decode_http(&rb, &xb);
        let a_down = sock_exec(addr, ca, &Req::GetChild { parent: Uuid::nil() }, None, Framing::ContentLength).0;
        let b_down = sock_exec(addr, cb, &Req::GetChild { parent: Uuid::nil() }, None, Framing::ContentLength).0;
        return Overlap { a_up, b_up, a_down, b_down, da, db };
    }
    let mut b_up = Resp::Error("not sent".into());
    let resp_a = {
        let mut between = || {
            let n = db.len();
            let parts = vec![db[..n / 3].to_vec(), db[n / 3..2 * n / 3].to_vec(), db[2 * n / 3..].to_vec()];
            b_up = sock_exec(addr, cb, &rb, Some(parts), Framing::Chunked).0;
        };
        socket_request_two_parts(addr, &ha, na / 2, Duration::from_secs(30), &mut between)
    };
    let a_up = Subject::decode_http(&ra, &resp_a);
    let a_down = sock_exec(addr, ca, &Req::GetChild { parent: Uuid::nil() }, None, Framing::ContentLength).0;
    let b_down = sock_exec(addr, cb, &Req::GetChild { parent: Uuid::nil() }, None, Framing::ContentLength).0;
    Overlap { a_up, b_up, a_down, b_down, da, db }
}

pub fn shard_run(tier: &str, seed: u64, replay_case: Option<usize>, shard: Shard) -> ShardOut {
    let thorough = tier == "thorough";
    let mut out = ShardOut::default();
    let mut cov = Cov::default();
    let mut rng = Rng::new(seed).fork(0xC06);
    let lens = lengths(thorough, &mut rng);
    let paths = [PathKind::Lib(Backend::Mem), PathKind::Lib(Backend::Sqlite), PathKind::Http(Backend::Mem), PathKind::Http(Backend::Sqlite), PathKind::SocketMem, PathKind::SocketBinary];
    let mut case = 0usize;
    for (pi, path) in paths.iter().enumerate() {
        // one target per (shard, path)
        let mut target: Option<Target> = None;
        let mut client = Uuid::new_v4();
        let mut latest = if pi % 2 == 0 { Uuid::new_v4() } else { Uuid::nil() };
        let mut uploads_on_client = 0usize;
        for (li, len) in lens.iter().enumerate() {
            let mut prng = Rng::new(seed).fork((pi * 1_000_003 + li) as u64);
            let class = if li % 3 == 0 { 0 } else { (li as u8 + pi as u8) % PAY_CLASSES };
            let spec = PaySpec::new(*len, class, seed ^ (li as u64) << 8 ^ pi as u64);
            let parts: Vec<(String, Vec<usize>)> = match path {
                PathKind::Lib(_) => vec![("one".into(), vec![*len])],
                _ => partitions(*len, &mut prng, thorough),
            };
            for (pname, sizes) in parts {
                for snapshot in [false, true] {
                    case += 1;
                    match replay_case {
                        Some(c) => {
                            if c != case {
                                continue;
                            }
                        }
                        None => {
                            if !shard.mine(li) {
                                continue;
                            }
                            // sample: socket paths and big payloads are costlier
                            let heavy = *len > 200_000;
                            let keep = match path {
                                PathKind::Lib(_) => !snapshot || li % 2 == 0,
                                PathKind::Http(Backend::Mem) => !heavy || pname == "one" || pname.starts_with("random-0") || pname.starts_with("boundary-65536"),
                                PathKind::Http(Backend::Sqlite) => (!heavy && (thorough || li % 2 == 0)) || (heavy && pname == "three"),
                                PathKind::SocketMem => (!heavy && (thorough || (li + pname.len()) % 3 == 0)) || (heavy && (pname == "five" || pname == "one")),
                                PathKind::SocketBinary => (!heavy && (thorough || (li + pname.len()) % 5 == 0)) || (heavy && pname == "three"),
                                _ => true,
                            };
                            if !keep {
                                continue;
                            }
                        }
                    }
                    // lazily create the target
                    if target.is_none() {
                        let t = match path {
                            PathKind::Lib(b) => Subject::new(Kind { backend: *b, entry: Entry::Lib, reopen_pct: 0, socket: false, peers: false, pinned_first: false }, Config::default()).map(Target::Subj).map_err(|e| format!("{e:#}")),
                            PathKind::Http(b) => Subject::new(Kind { backend: *b, entry: Entry::Http, reopen_pct: 0, socket: false, peers: false, pinned_first: false }, Config::default()).map(Target::Subj).map_err(|e| format!("{e:#}")),
                            PathKind::SocketMem => {
                                let web = WebServer::new(Config::default().to_server(), None, InMemoryStorage::new());
                                SockServer::start(web, 2).map(|s| {
                                    let addr = s.addr.clone();
                                    Target::Sock { _srv: s, addr }
                                })
                            }
                            PathKind::SocketBinary => match (server_bin(), free_port()) {
                                (Some(bin), Some(port)) => {
                                    let dir = ScratchDir::new("c06bin");
                                    let addr = format!("127.0.0.1:{port}");
                                    Proc::start(&bin, &["--listen".into(), addr.clone(), "--data-dir".into(), dir.path().to_string_lossy().to_string()], &[], &[addr.clone()], Duration::from_secs(20))
                                        .map(|p| Target::Bin { _proc: p, addr, _dir: dir })
                                }
                                _ => Err("server binary or free port unavailable".into()),
                            },
                        };
                        match t {
                            Ok(t) => target = Some(t),
                            Err(e) => {
                                out.errors.push(format!("{path:?}: {e}"));
                                break;
                            }
                        }
                    }
                    if uploads_on_client >= 40 {
                        client = Uuid::new_v4();
                        // every other chain starts from a non-nil parent (a replica that synced elsewhere before)
                        latest = if case % 2 == 0 { Uuid::new_v4() } else { Uuid::nil() };
                        uploads_on_client = 0;
                    }
                    let data = spec.bytes();
                    let chunks = chunk(&data, &sizes);
                    let framing = if case % 2 == 0 { Framing::Chunked } else { Framing::ContentLength };
                    let up_req = if snapshot { Req::AddSnapshot { vid: latest, data: data.clone() } } else { Req::AddVersion { parent: latest, data: data.clone() } };
                    if snapshot && uploads_on_client == 0 {
                        continue; // a snapshot needs a version
                    }
                    out.executed += 1;
                    cov.evaluations += 1;
                    let (up, down): (Resp, Resp) = match target.as_mut().unwrap() {
                        Target::Subj(s) => {
                            let up = if s.kind.entry == Entry::Http {
                                let mut h = Subject::build_http(client, &up_req);
                                h.chunks = chunks.clone();
                                let r = s.http(&h);
                                Subject::decode_http(&up_req, &r)
                            } else {
                                s.exec(client, &up_req)
                            };
                            let down = if snapshot { s.exec(client, &Req::GetSnapshot) } else { s.exec(client, &Req::GetChild { parent: latest }) };
                            (up, down)
                        }
                        Target::Sock { addr, .. } | Target::Bin { addr, .. } => {
                            let (up, _) = sock_exec(addr, client, &up_req, Some(chunks.clone()), framing.clone());
                            let (down, _) = if snapshot { sock_exec(addr, client, &Req::GetSnapshot, None, Framing::ContentLength) } else { sock_exec(addr, client, &Req::GetChild { parent: latest }, None, Framing::ContentLength) };
                            (up, down)
                        }
                    };
                    uploads_on_client += 1;
                    let ctx = format!("{path:?}: {} of {} bytes (class {}, chunking {pname} {:?}{})", if snapshot { "snapshot" } else { "version" }, len, spec.class_name(), if sizes.len() > 12 { vec![sizes.len()] } else { sizes.clone() }, match path { PathKind::SocketMem | PathKind::SocketBinary => format!(", {framing:?}"), _ => String::new() });
                    let rep = json!({"origin": "c06", "case": case, "len": len, "class": spec.class_name(), "chunking": pname, "path": format!("{path:?}")});
                    cov.hit(format!("{path:?}|{}|class={}|chunking={}|len~{}", if snapshot { "snapshot" } else { "version" }, spec.class_name(), pname.split('-').next().unwrap_or(""), match len { 0..=64 => "tiny", 65..=3849 => "small", 3850..=4250 => "overflow-window", 4251..=65535 => "medium", 65536..=200_000 => "64k+", _ => "big" }));
                    if cov.samples.is_empty() || (cov.samples.len() < 4 && sizes.len() == 5) {
                        cov.samples.push(json!({"case": ctx, "upload": up.outcome(), "read_back": down.outcome()}));
                    }
                    let mut bad: Option<String> = None;
                    match (&up, snapshot) {
                        (Resp::AddOk { vid, .. }, false) => match &down {
                            Resp::Found { vid: v2, parent: p2, data: d2 } => {
                                if v2 != vid || *p2 != latest {
                                    bad = Some(format!("{ctx}: read back with ids v={v2}, p={p2}, uploaded as v={vid}, p={latest}"));
                                } else if *d2 != data {
                                    let d = first_diff(d2, &data);
                                    bad = Some(format!("{ctx}: returned {} bytes, uploaded {} bytes; first difference at offset {:?} (got {}, sent {})", d2.len(), data.len(), d, hex_prefix(&d2[d.unwrap_or(0).min(d2.len())..], 8), hex_prefix(&data[d.unwrap_or(0).min(data.len())..], 8)));
                                }
                                latest = *vid;
                            }
                            o => {
                                bad = Some(format!("{ctx}: uploaded version cannot be read back: {}", o.short()));
                                latest = *vid;
                            }
                        },
                        (Resp::SnapOk, true) => match &down {
                            Resp::Snap { vid: v2, data: d2 } => {
                                if *v2 != latest {
                                    bad = Some(format!("{ctx}: snapshot read back for version {v2}, uploaded for {latest}"));
                                } else if *d2 != data {
                                    let d = first_diff(d2, &data);
                                    bad = Some(format!("{ctx}: returned {} bytes, uploaded {} bytes; first difference at offset {:?}", d2.len(), data.len(), d));
                                }
                            }
                            o => bad = Some(format!("{ctx}: uploaded snapshot cannot be read back: {}", o.short())),
                        },
                        (o, _) => bad = Some(format!("{ctx}: upload failed: {}", o.short())),
                    }
                    if let Some(m) = bad {
                        out.found.push(Found { property: "C06".into(), signature: format!("C06:{}", m.split(": ").nth(1).unwrap_or("").split_whitespace().take(6).collect::<Vec<_>>().join(" ")), msg: m, replay: rep });
                        out.cov = cov;
                        return out;
                    }
                }
            }
        }
        // very large payloads: 16 MiB (quick, one path per shard 0) and the 100 MiB limit (thorough)
        if replay_case.is_none() && shard.k == pi % shard.n && target.is_some() {
            let big: Vec<usize> = if thorough { vec![16 * MIB, 100 * MIB - 1, 100 * MIB] } else if matches!(path, PathKind::Http(Backend::Mem) | PathKind::SocketMem) { vec![16 * MIB] } else { vec![] };
            for len in big {
                let spec = PaySpec::new(len, 0, seed ^ len as u64);
                let data = spec.bytes();
                let client = Uuid::new_v4();
                let up_req = Req::AddVersion { parent: Uuid::nil(), data: data.clone() };
                let sizes = vec![len / 3, len / 3, len - 2 * (len / 3)];
                let (up, down) = match target.as_mut().unwrap() {
                    Target::Subj(s) => {
                        let up = if s.kind.entry == Entry::Http {
                            let mut h = Subject::build_http(client, &up_req);
                            h.chunks = chunk(&data, &sizes);
                            let r = s.http(&h);
                            Subject::decode_http(&up_req, &r)
                        } else {
                            s.exec(client, &up_req)
                        };
                        (up, s.exec(client, &Req::GetChild { parent: Uuid::nil() }))
                    }
                    Target::Sock { addr, .. } | Target::Bin { addr, .. } => {
                        let (up, _) = sock_exec(addr, client, &up_req, Some(chunk(&data, &sizes)), Framing::Chunked);
                        let (down, _) = sock_exec(addr, client, &Req::GetChild { parent: Uuid::nil() }, None, Framing::ContentLength);
                        (up, down)
                    }
                };
                cov.evaluations += 1;
                cov.hit(format!("{path:?}|version|huge|len={}MiB", len / MIB));
                let okk = matches!((&up, &down), (Resp::AddOk { .. }, Resp::Found { data: d2, .. }) if *d2 == data);
                if !okk {
                    out.found.push(Found {
                        property: "C06".into(),
                        signature: "C06:huge".into(),
                        msg: format!("{path:?}: version of {len} bytes in 3 chunks: upload {} / read back {}", up.short(), match &down { Resp::Found { data: d2, .. } => format!("{} bytes, first difference at {:?}", d2.len(), first_diff(d2, &data)), o => o.short() }),
                        replay: json!({"origin": "c06-huge", "case": 0, "len": len}),
                    });
                    out.cov = cov;
                    return out;
                }
            }
        }
    }
    // ---- overlapping uploads on one server worker: connection A sends half of its body, B uploads
    // completely, A finishes; both must be stored byte for byte
    if replay_case.is_none() && shard.k == (3 % shard.n) {
        use crate::http::socket_request_two_parts;
        for workers in [1usize, 2] {
            let web = WebServer::new(Config::default().to_server(), None, InMemoryStorage::new());
            let srv = match SockServer::start(web, workers) {
                Ok(s) => s,
                Err(e) => {
                    out.errors.push(format!("socket server: {e}"));
                    continue;
                }
            };
            let sizes: Vec<(usize, usize)> = if thorough { vec![(10, 10), (3000, 200), (200, 3000), (70_000, 70_000), (300_000, 5), (5, 300_000), (100_000, 100_001), (1_000_000, 200_000)] } else { vec![(3000, 200), (70_000, 70_000), (5, 300_000)] };
            for (i, (na, nb)) in sizes.iter().enumerate() {
                let (ca, cb) = (Uuid::new_v4(), Uuid::new_v4());
                let da = PaySpec::new(*na, 0, seed ^ (i as u64) << 4 ^ 0xA).bytes();
                let db = PaySpec::new(*nb, 0, seed ^ (i as u64) << 4 ^ 0xB).bytes();
                let snapshot_b = i % 2 == 1;
                let ra = Req::AddVersion { parent: Uuid::nil(), data: da.clone() };
                // B first needs a version if it uploads a snapshot
                let mut vb = Uuid::nil();
                if snapshot_b {
                    if let (Resp::AddOk { vid, .. }, _) = sock_exec(&srv.addr, cb, &Req::AddVersion { parent: Uuid::nil(), data: b"b0".to_vec() }, None, Framing::ContentLength) {
                        vb = vid;
                    }
                }
                let rb = if snapshot_b { Req::AddSnapshot { vid: vb, data: db.clone() } } else { Req::AddVersion { parent: Uuid::nil(), data: db.clone() } };
                let mut b_resp: Option<Resp> = None;
                let addr = srv.addr.clone();
                let ha = Subject::build_http(ca, &ra);
                let resp_a = {
                    let rb2 = rb.clone();
                    let mut between = || {
                        // B is written in three chunks so that its upload suspends too
                        let n = db.len();
                        let parts = vec![db[..n / 3].to_vec(), db[n / 3..2 * n / 3].to_vec(), db[2 * n / 3..].to_vec()];
                        let (r, _) = sock_exec(&addr, cb, &rb2, Some(parts), Framing::Chunked);
                        b_resp = Some(r);
                    };
                    socket_request_two_parts(&srv.addr, &ha, na / 2, Duration::from_secs(30), &mut between)
                };
                cov.evaluations += 2;
                cov.hit(format!("interleaved-uploads|workers={workers}|{}", if snapshot_b { "version+snapshot" } else { "version+version" }));
                let ra_dec = Subject::decode_http(&ra, &resp_a);
                let (down_a, _) = sock_exec(&srv.addr, ca, &Req::GetChild { parent: Uuid::nil() }, None, Framing::ContentLength);
                let (down_b, _) = if snapshot_b { sock_exec(&srv.addr, cb, &Req::GetSnapshot, None, Framing::ContentLength) } else { sock_exec(&srv.addr, cb, &Req::GetChild { parent: Uuid::nil() }, None, Framing::ContentLength) };
                let ok_a = matches!((&ra_dec, &down_a), (Resp::AddOk { .. }, Resp::Found { data, .. }) if *data == da);
                let ok_b = match (&b_resp, &down_b) {
                    (Some(Resp::AddOk { .. }), Resp::Found { data, .. }) => *data == db,
                    (Some(Resp::SnapOk), Resp::Snap { data, .. }) => *data == db,
                    _ => false,
                };
                if !ok_a || !ok_b {
                    let describe = |want: &Vec<u8>, got: &Resp| match got {
                        Resp::Found { data, .. } | Resp::Snap { data, .. } => format!("{} bytes returned for {} uploaded, first difference at {:?}", data.len(), want.len(), first_diff(data, want)),
                        o => o.short(),
                    };
                    out.found.push(Found {
                        property: "C06".into(),
                        signature: "C06:interleaved uploads".into(),
                        msg: format!("two uploads overlapping on a {workers}-worker server (A: {na} bytes sent in two halves, B: {nb} bytes sent in between): A upload {} / read back {}; B upload {} / read back {}", ra_dec.outcome(), describe(&da, &down_a), b_resp.as_ref().map(|r| r.outcome()).unwrap_or("none"), describe(&db, &down_b)),
                        replay: json!({"origin": "c06-interleaved", "case": i, "workers": workers}),
                    });
                    out.cov = cov;
                    return out;
                }
            }
        }
    }
    // ---- the same with the bodies arriving as A.first, B.first, A.rest, B.rest
    if replay_case.is_none() && shard.k == (9 % shard.n) {
        for workers in [1usize, 2] {
            let web = WebServer::new(Config::default().to_server(), None, InMemoryStorage::new());
            let Ok(srv) = SockServer::start(web, workers) else { continue };
            for (i, (na, nb)) in [(3000usize, 200usize), (70_000, 70_000), (8, 300_000), (300_000, 8)].iter().enumerate() {
                let (ca, cb) = (Uuid::new_v4(), Uuid::new_v4());
                let o = overlapping_version_uploads_pattern(&srv.addr, ca, cb, *na, *nb, seed ^ (i as u64) << 5 ^ 0xABAB, true);
                cov.evaluations += 2;
                cov.hit(format!("interleaved-uploads|workers={workers}|A1,B1,A2,B2"));
                for (who, up, down, want) in [("A", &o.a_up, &o.a_down, &o.da), ("B", &o.b_up, &o.b_down, &o.db)] {
                    let ok = matches!((up, down), (Resp::AddOk { .. }, Resp::Found { data, .. }) if data == want);
                    if !ok {
                        let desc = match down {
                            Resp::Found { data, .. } => format!("{} bytes returned for {} uploaded, first difference at {:?}", data.len(), want.len(), first_diff(data, want)),
                            o => o.short(),
                        };
                        out.found.push(Found {
                            property: "C06".into(),
                            signature: "C06:interleaved uploads".into(),
                            msg: format!("two uploads overlapping on a {workers}-worker server (bodies arriving as A.first, B.first, A.rest, B.rest; A {na} bytes, B {nb} bytes): upload {who} answered {} and is read back as {desc}", up.outcome()),
                            replay: json!({"origin": "c06-interleaved-abab", "case": i, "workers": workers}),
                        });
                        out.cov = cov;
                        return out;
                    }
                }
            }
        }
    }
    // ---- a directory written by the pinned release, taken over by the code under test: a newer
    // snapshot and a new version are uploaded, the database is re-opened (twice): what is served is
    // what was uploaded last
    if replay_case.is_none() && shard.k == (10 % shard.n) {
        for i in 0..(if thorough { 40 } else { 8 }) {
            let d = ScratchDir::new("c06up");
            let wseed = Rng::new(seed).fork(0xC06_0000 + i as u64).next_u64();
            let Ok(exp) = crate::checks_c19::write_pinned(d.path(), wseed, i % 2 == 0) else { continue };
            let Ok(mut subj) = Subject::open_dir(Kind::SQL_LIB, Config::default(), d) else {
                out.errors.push("cannot open a directory written by the pinned release".into());
                continue;
            };
            for (ci, c) in exp.clients.iter().enumerate() {
                let Some(last) = c.versions.last() else { continue };
                let vdata = PaySpec::new(3000 + i * 13, (i + ci) as u8 % PAY_CLASSES, wseed ^ 0x11).bytes();
                let sdata = PaySpec::new(7000 + i * 17, (i + ci + 5) as u8 % PAY_CLASSES, wseed ^ 0x22).bytes();
                let Resp::AddOk { vid, .. } = subj.exec(c.id, &Req::AddVersion { parent: last.vid, data: vdata.clone() }) else { continue };
                if !matches!(subj.exec(c.id, &Req::AddSnapshot { vid, data: sdata.clone() }), Resp::SnapOk) {
                    continue;
                }
                cov.evaluations += 2;
                cov.hit(format!("taken-over-from-pinned-release|{}", if c.snapshot.is_some() { "had-a-snapshot" } else { "no-snapshot-before" }));
                for round in 0..2 {
                    if subj.reopen().is_err() {
                        out.errors.push("reopen failed".into());
                        break;
                    }
                    let snap = subj.exec(c.id, &Req::GetSnapshot);
                    let child = subj.exec(c.id, &Req::GetChild { parent: last.vid });
                    let ok_s = matches!(&snap, Resp::Snap { vid: v, data } if *v == vid && *data == sdata);
                    let ok_c = matches!(&child, Resp::Found { vid: v, data, .. } if *v == vid && *data == vdata);
                    if !ok_s || !ok_c {
                        let d = |want: &Vec<u8>, got: &Resp| match got {
                            Resp::Found { data, .. } | Resp::Snap { data, .. } => format!("{} bytes for {} uploaded, first difference at {:?}", data.len(), want.len(), first_diff(data, want)),
                            o => o.short(),
                        };
                        out.found.push(Found {
                            property: "C06".into(),
                            signature: "C06:taken over from pinned release".into(),
                            msg: format!("a directory written by the pinned release (client {} {}), then a new version ({} bytes) and a newer snapshot ({} bytes) uploaded to the current code; after re-opening the database ({}x) the snapshot is served as {} and the version as {}", c.id, if c.snapshot.is_some() { "with a snapshot" } else { "without a snapshot" }, vdata.len(), sdata.len(), round + 1, d(&sdata, &snap), d(&vdata, &child)),
                            replay: json!({"origin": "c06-pinned", "case": i, "writer_seed": wseed.to_string()}),
                        });
                        out.cov = cov;
                        return out;
                    }
                }
            }
        }
    }
    // ---- two clients whose chains meet in one version id V (B's chain starts at A's version V):
    // both hold a version whose parent is V and both store a snapshot for V; each must get its own bytes
    if replay_case.is_none() && shard.k == (8 % shard.n) {
        for kind in [Kind::MEM_LIB, Kind::SQL_LIB, Kind::MEM_HTTP, Kind::SQL_HTTP] {
            for (i, (na, nb)) in [(3000usize, 70_000usize), (5, 5), (4097, 4097), (300_000, 17)].iter().enumerate() {
                let mut subj = match Subject::new(kind, Config::default()) {
                    Ok(s) => s,
                    Err(e) => {
                        out.errors.push(format!("{e:#}"));
                        continue;
                    }
                };
                let (a, b) = (Uuid::new_v4(), Uuid::new_v4());
                let pay = |n: usize, tag: u64| PaySpec::new(n, ((i as u64 + tag) % PAY_CLASSES as u64) as u8, seed ^ tag << 7 ^ i as u64).bytes();
                let (va1, va2, vb1, sa, sb) = (pay(*na, 1), pay(*na, 2), pay(*nb, 3), pay(*na, 4), pay(*nb, 5));
                let Resp::AddOk { vid: v, .. } = subj.exec(a, &Req::AddVersion { parent: Uuid::nil(), data: va1.clone() }) else { continue };
                let ra2 = subj.exec(a, &Req::AddVersion { parent: v, data: va2.clone() });
                let rb1 = subj.exec(b, &Req::AddVersion { parent: v, data: vb1.clone() });
                let rsa = subj.exec(a, &Req::AddSnapshot { vid: v, data: sa.clone() });
                let rsb = subj.exec(b, &Req::AddSnapshot { vid: v, data: sb.clone() });
                cov.evaluations += 5;
                cov.hit(format!("shared-version-id|{}", kind.name()));
                let checks: Vec<(&str, Uuid, Req, &Vec<u8>)> = vec![
                    ("A's child of V", a, Req::GetChild { parent: v }, &va2),
                    ("B's child of V", b, Req::GetChild { parent: v }, &vb1),
                    ("A's snapshot for V", a, Req::GetSnapshot, &sa),
                    ("B's snapshot for V", b, Req::GetSnapshot, &sb),
                ];
                if !matches!((&ra2, &rb1, &rsa, &rsb), (Resp::AddOk { .. }, Resp::AddOk { .. }, Resp::SnapOk, Resp::SnapOk)) {
                    continue; // acceptance is not this property's business
                }
                for (what, c, req, want) in checks {
                    let got = subj.exec(c, &req);
                    let ok = match &got {
                        Resp::Found { data, parent, .. } => data == want && *parent == v,
                        Resp::Snap { data, vid } => data == want && *vid == v,
                        _ => false,
                    };
                    if !ok {
                        let desc = match &got {
                            Resp::Found { data, .. } | Resp::Snap { data, .. } => format!("{} bytes returned for {} uploaded, first difference at {:?}", data.len(), want.len(), first_diff(data, want)),
                            o => o.short(),
                        };
                        out.found.push(Found {
                            property: "C06".into(),
                            signature: "C06:shared version id".into(),
                            msg: format!("[{}] two clients whose chains meet in version {v} (both hold a child of it and a snapshot for it): {what} is served as {desc}", kind.name()),
                            replay: json!({"origin": "c06-shared-id", "case": i}),
                        });
                        out.cov = cov;
                        return out;
                    }
                }
            }
        }
    }
    // ---- several uploads and downloads on ONE connection (keep-alive, and pipelined: all requests
    // written before the first response is read); chunked and Content-Length bodies alternate
    if replay_case.is_none() && shard.k == (7 % shard.n) {
        use crate::http::socket_session;
        for (wi, workers) in [1usize, 3].iter().enumerate() {
            let web = WebServer::new(Config::default().to_server(), None, InMemoryStorage::new());
            let srv = match SockServer::start(web, *workers) {
                Ok(s) => s,
                Err(e) => {
                    out.errors.push(format!("socket server: {e}"));
                    continue;
                }
            };
            let size_sets: Vec<Vec<usize>> = if thorough { vec![vec![5, 3000, 70_000], vec![300_000, 1, 4096, 65_536, 65_537], vec![1 << 20, 17, 2 << 20, 300], vec![8191, 8192, 8193, 16_384, 32_768, 131_072]] } else { vec![vec![5, 3000, 70_000], vec![300_000, 1, 65_537, 4096]] };
            for (si, sizes) in size_sets.iter().enumerate() {
                for pipelined in [false, true] {
                    let clients: Vec<Uuid> = sizes.iter().map(|_| Uuid::new_v4()).collect();
                    let datas: Vec<Vec<u8>> = sizes.iter().enumerate().map(|(k, n)| PaySpec::new(*n, ((k + si) % PAY_CLASSES as usize) as u8, seed ^ ((si * 100 + k) as u64) << 3 ^ wi as u64).bytes()).collect();
                    let mut reqs: Vec<HttpReq> = vec![];
                    for (k, c) in clients.iter().enumerate() {
                        let mut h = Subject::build_http(*c, &Req::AddVersion { parent: Uuid::nil(), data: datas[k].clone() });
                        // bodies in three chunks
                        let n = datas[k].len();
                        h.chunks = vec![datas[k][..n / 3].to_vec(), datas[k][n / 3..2 * n / 3].to_vec(), datas[k][2 * n / 3..].to_vec()];
                        reqs.push(h);
                    }
                    for c in &clients {
                        reqs.push(Subject::build_http(*c, &Req::GetChild { parent: Uuid::nil() }));
                    }
                    let resps = socket_session(&srv.addr, &reqs, pipelined, Duration::from_secs(60));
                    cov.evaluations += resps.len() as u64;
                    cov.hit(format!("one-connection|{}|workers={workers}|requests={}", if pipelined { "pipelined" } else { "keep-alive" }, reqs.len()));
                    for (k, c) in clients.iter().enumerate() {
                        let up = Subject::decode_http(&Req::AddVersion { parent: Uuid::nil(), data: vec![] }, &resps[k]);
                        let down = Subject::decode_http(&Req::GetChild { parent: Uuid::nil() }, &resps[clients.len() + k]);
                        let ok = match (&up, &down) {
                            (Resp::AddOk { vid, .. }, Resp::Found { vid: v2, parent, data }) => vid == v2 && parent.is_nil() && *data == datas[k],
                            _ => false,
                        };
                        if !ok {
                            let what = match &down {
                                Resp::Found { data, .. } => format!("{} bytes returned for {} uploaded, first difference at {:?}", data.len(), datas[k].len(), first_diff(data, &datas[k])),
                                o => o.short(),
                            };
                            out.found.push(Found {
                                property: "C06".into(),
                                signature: "C06:one connection".into(),
                                msg: format!("{} uploads followed by their downloads on one {} connection ({workers}-worker server): upload #{k} of client {c} ({} bytes) answered {}, download answered {what}", clients.len(), if pipelined { "pipelined" } else { "keep-alive" }, datas[k].len(), up.short()),
                                replay: json!({"origin": "c06-session", "case": si, "workers": workers, "pipelined": pipelined}),
                            });
                            out.cov = cov;
                            return out;
                        }
                    }
                }
            }
        }
    }
    // ---- downloads with conditional and range headers: the whole payload, or exactly the range
    if replay_case.map(|c| c == 70_000_000).unwrap_or(shard.k == (7 % shard.n)) {
        if let Some(f) = crate::checks_http::conditional_download_part("C06", seed, &mut cov) {
            out.found.push(f);
            out.cov = cov;
            return out;
        }
    }
    // ---- an upload that stalls in the middle of its body (slow or flaky link) and then completes
    if replay_case.is_none() && shard.k == (6 % shard.n) {
        use crate::http::socket_request_two_parts;
        let web = WebServer::new(Config::default().to_server(), None, InMemoryStorage::new());
        if let Ok(srv) = SockServer::start(web, 2) {
            let pauses: Vec<u64> = if thorough { vec![10_500, 31_000] } else { vec![10_500] };
            for (i, ms) in pauses.iter().enumerate() {
                for snapshot in [false, true] {
                    let c = Uuid::new_v4();
                    let data = PaySpec::new(6000 + i, 0, seed ^ 0x5A11 ^ i as u64).bytes();
                    let mut vid = Uuid::nil();
                    if snapshot {
                        if let (Resp::AddOk { vid: v, .. }, _) = sock_exec(&srv.addr, c, &Req::AddVersion { parent: Uuid::nil(), data: b"v0".to_vec() }, None, Framing::ContentLength) {
                            vid = v;
                        }
                    }
                    let req = if snapshot { Req::AddSnapshot { vid, data: data.clone() } } else { Req::AddVersion { parent: Uuid::nil(), data: data.clone() } };
                    let h = Subject::build_http(c, &req);
                    let ms2 = *ms;
                    let mut between = || std::thread::sleep(Duration::from_millis(ms2));
                    let resp = socket_request_two_parts(&srv.addr, &h, 2500, Duration::from_secs(90), &mut between);
                    let up = Subject::decode_http(&req, &resp);
                    let (down, _) = if snapshot { sock_exec(&srv.addr, c, &Req::GetSnapshot, None, Framing::ContentLength) } else { sock_exec(&srv.addr, c, &Req::GetChild { parent: Uuid::nil() }, None, Framing::ContentLength) };
                    cov.evaluations += 1;
                    cov.hit(format!("stalled-upload|{}|pause={}s|upload={}", if snapshot { "snapshot" } else { "version" }, ms / 1000, up.outcome()));
                    // either the upload is refused (a server may time a stalled client out) or it is stored whole
                    let accepted = matches!(up, Resp::AddOk { .. } | Resp::SnapOk);
                    let whole = match &down {
                        Resp::Found { data: d, .. } | Resp::Snap { data: d, .. } => *d == data,
                        _ => false,
                    };
                    if accepted && !whole {
                        out.found.push(Found {
                            property: "C06".into(),
                            signature: "C06:stalled upload".into(),
                            msg: format!("an upload of {} bytes whose sender paused {} s after the first 2500 bytes was acknowledged ({}) but is served as {}", data.len(), ms / 1000, up.outcome(), match &down { Resp::Found { data: d, .. } | Resp::Snap { data: d, .. } => format!("{} bytes (first difference at {:?})", d.len(), first_diff(d, &data)), o => o.short() }),
                            replay: json!({"origin": "c06-stalled", "case": i}),
                        });
                        out.cov = cov;
                        return out;
                    }
                }
            }
        }
    }
    out.cov = cov;
    out
}

pub fn finalize(out: ShardOut, is_replay: bool) -> CheckResult {
    let cov = out.cov;
    let mut top: Vec<(&String, &u64)> = cov.situations.iter().collect();
    top.sort_by(|a, b| b.1.cmp(a.1));
    let coverage = json!({
        "evaluations": cov.evaluations,
        "distinct_nontrivial": cov.situations.len(),
        "rule": "uploads of versions and snapshots: lengths 1,2,3, powers of two +-1, every 9th (quick) / every (thorough) length in the page-overflow neighbourhood 3850..4250, 64 KiB / 128 KiB / 1 MiB +-1, random lengths, 16 MiB (100 MiB -1 / exactly 100 MiB in thorough) x 13 byte classes (zeros, 0xFF, random, digits, numeric-looking text, valid and invalid UTF-8, NUL/CRLF runs, chunk-framing look-alikes, payloads that are themselves complete zlib streams / gzip members, payloads starting with well-known container magic) x chunkings (one chunk, 1+rest, rest+1, 3 and 5 chunks, empty chunks around, one byte per chunk, 4095/4096/4097/65536 boundaries, powers of two, random partitions) through the library, the in-process HTTP service (exact chunk delivery), an in-process HttpServer over a real socket (chunked transfer encoding / Content-Length in flushed segments) and the real executable with SQLite; each upload is read back through the same path and compared byte for byte together with its ids; chains start from nil and from non-nil parents; plus pairs of uploads that overlap on a 1- and a 2-worker server (one connection sends half of its body, the other uploads completely in three chunks, the first finishes); uploads that stall for 10.5 s in mid-body; downloads with conditional and range headers on both download routes (a 200 carries the whole payload, a 206 exactly the requested range with a matching Content-Range); and several uploads followed by their downloads on ONE connection (keep-alive, and pipelined with all requests written before the first response is read; chunked and Content-Length bodies alternating; 1- and 3-worker servers); and two clients whose chains meet in one version id, each holding a child of it and a snapshot for it. distinct_nontrivial = distinct (path, kind, byte class, chunking family, length class).",
        "samples": cov.samples,
        "uploads": out.executed,
        "situations_top": top.iter().take(40).map(|(k, v)| json!({"situation": k, "n": v})).collect::<Vec<_>>(),
        "connection_level_situations": cov.situations.iter().filter(|(k, _)| k.starts_with("one-connection|") || k.starts_with("interleaved-uploads|") || k.starts_with("stalled-upload|") || k.starts_with("conditional|")).map(|(k, v)| json!({"situation": k, "n": v})).collect::<Vec<_>>(),
    });
    let required = ["conditional|snapshot|GET|Range", "conditional|get-child-version|GET|Range", "stalled-upload|", "interleaved-uploads|workers=1", "one-connection|pipelined", "one-connection|keep-alive", "shared-version-id|", "taken-over-from-pinned-release|had-a-snapshot", "class=zlib-stream", "class=gzip-member", "Lib(Sqlite)|", "Http(Mem)|", "Http(Sqlite)|", "SocketMem|", "SocketBinary|", "chunking=five", "chunking=empty", "len~overflow-window", "len~big", "class=invalid-utf8", "class=numeric-text", "|snapshot|"];
    let verdict = if !out.found.is_empty() {
        Verdict::Violated(out.found)
    } else if !out.errors.is_empty() {
        Verdict::Inconclusive(out.errors.join("; "))
    } else if !is_replay {
        match crate::evidence::require(&cov.situations, &required) {
            Some(r) => Verdict::Inconclusive(r),
            None => Verdict::Held,
        }
    } else {
        Verdict::Held
    };
    CheckResult {
        verdict,
        coverage,
        assumptions: vec!["Content-Encoding (compressed uploads) is outside the oracle: the property speaks of the bytes uploaded".into(), "lengths between the scanned windows are sampled".into()],
        level: "exploration",
        notes: vec![],
    }
}
