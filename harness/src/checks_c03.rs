//! C03 (and the concurrent part of C11): scenario enumeration and DFS driver over E2.

use crate::e2::*;
use crate::evidence::{CheckResult, Cov, Found, Shard, ShardOut, Verdict};
use crate::prng::Rng;
use crate::subject::Entry;
use serde_json::json;

pub fn scenarios(tier: &str, seed: u64) -> Vec<Scn> {
    let thorough = tier == "thorough";
    use PRef::*;
    use SReq::*;
    let pairs: Vec<(&str, Vec<Vec<SReq>>)> = vec![
        ("AV||AV", vec![vec![Add(Latest)], vec![Add(Latest)]]),
        ("AV||GCV", vec![vec![Add(Latest)], vec![Gcv(Latest)]]),
        ("AV||SNAP(latest)", vec![vec![Add(Latest)], vec![Snap(Latest)]]),
        ("AV||GETSNAP", vec![vec![Add(Latest)], vec![GetSnap]]),
        ("GCV||GCV", vec![vec![Gcv(Latest)], vec![Gcv(P(0))]]),
        ("GCV||SNAP", vec![vec![Gcv(P(0))], vec![Snap(Latest)]]),
        ("GCV||GETSNAP", vec![vec![Gcv(Nil)], vec![GetSnap]]),
        ("SNAP(latest)||SNAP(older)", vec![vec![Snap(Latest)], vec![Snap(P(0))]]),
        ("SNAP(latest)||SNAP(older-mid)", vec![vec![Snap(Latest)], vec![Snap(P(3))]]),
        ("SNAP||GETSNAP", vec![vec![Snap(Latest)], vec![GetSnap]]),
        ("GETSNAP||GETSNAP", vec![vec![GetSnap], vec![GetSnap]]),
    ];
    let extra: Vec<(&str, Vec<Vec<SReq>>)> = vec![
        ("AV;AV||AV", vec![vec![Add(Latest), Add(New(0))], vec![Add(Latest)]]),
        ("AV||SNAP;GCV(nil)", vec![vec![Add(Nil)], vec![Snap(Fresh), Gcv(Nil)]]),
        ("AV||SNAP;AV", vec![vec![Add(Nil)], vec![Snap(Fresh), Add(Nil)]]),
        ("AV||AV||AV", vec![vec![Add(Latest)], vec![Add(Latest)], vec![Add(Latest)]]),
        ("AV||SNAP||GETSNAP", vec![vec![Add(Latest)], vec![Snap(Latest)], vec![GetSnap]]),
        ("SNAP||SNAP||GETSNAP", vec![vec![Snap(Latest)], vec![Snap(P(1))], vec![GetSnap]]),
        ("AV||GCV;GCV", vec![vec![Add(Latest)], vec![Gcv(Latest), Gcv(Latest)]]),
        ("GETSNAP||SNAP||GETSNAP", vec![vec![GetSnap], vec![Snap(Latest)], vec![GetSnap]]),
        ("GCV||AV||GCV", vec![vec![Gcv(Latest)], vec![Add(Latest)], vec![Gcv(Latest)]]),
        ("AV;AV(n2)||AV(n0)", vec![vec![Add(Latest), Add(New(2))], vec![Add(New(0))]]),
    ];
    let mut out = vec![];
    let prefixes = [Prefix::NeverSeen, Prefix::Empty, Prefix::Chain3, Prefix::Chain3Snap, Prefix::Chain6Snap];
    let mut sel = Rng::new(seed).fork(0xC03);
    for bk in [Bk::Mem, Bk::Sql1, Bk::Sql2] {
        for entry in [Entry::Lib, Entry::Http] {
            for prefix in prefixes {
                for (name, progs) in pairs.iter().chain(extra.iter()) {
                    let is_extra = extra.iter().any(|(n, _)| n == name);
                    // quick: all pairs on never-seen (HTTP) and chain-with-snapshot; the rest sampled
                    let core = matches!(prefix, Prefix::Chain3Snap) || (prefix == Prefix::NeverSeen && entry == Entry::Http);
                    // two uploads that are both acceptable on their own: chains without a snapshot in
                    // the way (always kept)
                    let both_acceptable = (name.starts_with("SNAP(latest)||SNAP(older)") && prefix == Prefix::Chain3) || (name.starts_with("SNAP(latest)||SNAP(older-mid)") && prefix == Prefix::Chain6Snap);
                    if name.starts_with("SNAP(latest)||SNAP(older-mid)") && prefix != Prefix::Chain6Snap {
                        continue;
                    }
                    let keep = if thorough || both_acceptable {
                        true
                    } else if is_extra {
                        // (the three-request scenarios are always kept on the core variants)
                        (core && (progs.len() >= 3 || sel.pct(45))) || (name.starts_with("AV||SNAP;") && prefix == Prefix::NeverSeen && entry == Entry::Http && bk != Bk::Sql2)
                    } else {
                        core || sel.pct(12)
                    };
                    if !keep {
                        continue;
                    }
                    out.push(Scn { name: format!("{name}/{bk:?}/{entry:?}/{prefix:?}"), bk, entry, prefix, programs: progs.clone() });
                }
            }
        }
    }
    // a large stored snapshot being read while a new one is uploaded (always kept)
    for bk in [Bk::Mem, Bk::Sql1] {
        for entry in [Entry::Http, Entry::Lib] {
            for (name, progs) in [("GETSNAP||SNAP", vec![vec![GetSnap], vec![Snap(Latest)]]), ("GETSNAP||SNAP||GETSNAP", vec![vec![GetSnap], vec![Snap(Latest)], vec![GetSnap]])] {
                if entry == Entry::Lib && name.len() > 14 {
                    continue;
                }
                out.push(Scn { name: format!("{name}/{bk:?}/{entry:?}/Chain3BigSnap"), bk, entry, prefix: Prefix::Chain3BigSnap, programs: progs });
            }
        }
    }
    out
}

fn next_prefix(taken: &[(usize, usize)]) -> Option<Vec<usize>> {
    let mut i = taken.len();
    while i > 0 {
        i -= 1;
        if taken[i].0 + 1 < taken[i].1 {
            let mut p: Vec<usize> = taken[..i].iter().map(|t| t.0).collect();
            p.push(taken[i].0 + 1);
            return Some(p);
        }
    }
    None
}

pub fn shard_run(prop: &str, tier: &str, seed: u64, replay: Option<&serde_json::Value>, shard: Shard) -> ShardOut {
    let thorough = tier == "thorough";
    let mut out = ShardOut::default();
    let mut cov = Cov::default();
    let scns = scenarios(tier, seed);
    let cap = if thorough { 2000 } else { 60 };
    let n_probe = if thorough { 100 } else { 6 };
    let (replay_scn, replay_choices): (Option<String>, Option<Vec<usize>>) = match replay {
        Some(r) => (
            r["replay"]["scenario"]["name"].as_str().map(|s| s.to_string()),
            r["replay"]["choices"].as_array().map(|a| a.iter().map(|x| x.as_u64().unwrap_or(0) as usize).collect()),
        ),
        None => (None, None),
    };
    // heavier scenarios first
    let mut order: Vec<usize> = (0..scns.len()).collect();
    order.sort_by_key(|i| std::cmp::Reverse(scns[*i].programs.iter().map(|p| p.len()).sum::<usize>() * 10 + if scns[*i].prefix == Prefix::NeverSeen { 5 } else { 0 }));
    for (rank, si) in order.iter().enumerate() {
        let scn = &scns[*si];
        if prop == "C11" && (!scn.name.contains("SNAP") || scn.prefix == Prefix::NeverSeen || scn.prefix == Prefix::Empty) {
            continue;
        }
        // C01 under overlap: only AddVersion requests race (incl. the very first requests of a
        // new client): never two accepted on one parent, no accepted version off the chain
        if (prop == "C01" || prop == "C02") && !(scn.name.starts_with("AV||AV") || scn.name.starts_with("AV;AV||AV")) {
            continue;
        }
        // C08 under overlap: GetChildVersion(p) overlapping an AddVersion(p) must answer what some
        // one-at-a-time order gives (not-found or the new child, never gone)
        if prop == "C08" && !scn.name.starts_with("AV||GCV") {
            continue;
        }
        // C18 under overlap: a snapshot upload that must be declined (an older version than the one
        // a concurrent upload stores) must leave the state untouched
        if (prop == "C18" || prop == "C10") && (!(scn.name.starts_with("SNAP(latest)||SNAP(older)") || scn.name.starts_with("SNAP||SNAP")) || scn.prefix == Prefix::NeverSeen || scn.prefix == Prefix::Empty) {
            continue;
        }
        match &replay_scn {
            Some(n) => {
                if *n != scn.name {
                    continue;
                }
            }
            None => {
                if !shard.mine(rank) {
                    continue;
                }
            }
        }
        out.executed += 1;
        let mut oracle = Oracle::new(scn);
        let mut prefix: Vec<usize> = replay_choices.clone().unwrap_or_default();
        let mut execs = 0usize;
        let mut complete = false;
        let mut dfs_done_at: Option<usize> = None;
        let mut rnd = Rng::new(seed).fork(0xD0 + *si as u64);
        loop {
            execs += 1;
            let random_phase = dfs_done_at.is_some();
            let t_exec = std::time::Instant::now();
            let mut attempt = 0;
            let (obs, taken, divergent) = loop {
                attempt += 1;
                let nw = scn.programs.len();
                let nfact: usize = (1..=nw).product();
                let family = nfact * 9;
                let r = if random_phase && (execs - dfs_done_at.unwrap() - 1) < family {
                    // the one-preemption family is enumerated: every priority order of the workers x
                    // the first worker set aside after 0..8 of its steps
                    let m = execs - dfs_done_at.unwrap() - 1;
                    let mut prio: Vec<usize> = (0..nw).collect();
                    let mut k = m % nfact;
                    let mut pool: Vec<usize> = (0..nw).collect();
                    for (slot, f) in (1..=nw).rev().enumerate() {
                        let block: usize = (1..f).product();
                        let idx = k / block.max(1);
                        k %= block.max(1);
                        prio[slot] = pool.remove(idx.min(pool.len() - 1));
                    }
                    let mut ch = PreemptChooser { prio, at: m / nfact, victim_steps: 0, taken: vec![] };
                    (execute(scn, &mut ch, true), ch.taken, false)
                } else if random_phase {
                    let mut ch = RandChooser { rng: rnd.fork(execs as u64), taken: vec![] };
                    (execute(scn, &mut ch, true), ch.taken, false)
                } else {
                    let mut ch = DfsChooser { prefix: prefix.clone(), pos: 0, taken: vec![], divergent: false };
                    let o = execute(scn, &mut ch, replay_scn.is_some());
                    (o, ch.taken, ch.divergent)
                };
                // a watchdog expiry (overloaded machine) is retried before it counts as inconclusive
                if r.0.is_ok() || attempt >= 2 {
                    break r;
                }
                cov.count("executions_retried_after_watchdog", 1);
            };
            cov.evaluations += 1;
            if std::env::var("VERIF_E2_TIMING").is_ok() {
                eprintln!("T {} exec#{execs} random={random_phase} {:?}", scn.name, t_exec.elapsed());
            }
            match obs {
                Err(e) if e.starts_with("deadlock:") => {
                    let choices: Vec<usize> = taken.iter().map(|t| t.0).collect();
                    out.found.push(Found {
                        property: prop.to_string(),
                        msg: format!("scenario {}: the overlapping requests never complete — every unfinished request is inside the server, none is suspended by the scheduler, for more than 10 s, twice in a row ({})", scn.name, &e[10..e.len().min(600)]),
                        signature: format!("{prop}:requests-never-complete {}", scn.name),
                        replay: json!({"origin": "e2", "case": *si, "scenario": scn.json(), "choices": choices}),
                    });
                    out.cov = cov;
                    return out;
                }
                Err(e) => {
                    out.errors.push(format!("{}: {e}", scn.name));
                    break;
                }
                Ok(o) => {
                    cov.traces.insert(trace_hash(&o.trace) ^ (*si as u64).wrapping_mul(0x9E3779B97F4A7C15));
                    if divergent {
                        cov.count("divergent_replays", 1);
                    }
                    let n = o.resp.len();
                    let overlapped = (0..n).any(|a| (0..n).any(|b| a != b && o.inv[a] < o.ret[b] && o.inv[b] < o.ret[a]));
                    if overlapped {
                        cov.count("executions_with_overlapping_requests", 1);
                    }
                    cov.count("lock_wait_probes_blocked", o.blocked_attempts as u64);
                    cov.count("lock_waits_resolved", o.lock_waits_resolved as u64);
                    if o.overlap_seen {
                        cov.count("executions_with_overlapping_transactions", 1);
                        if std::env::var("VERIF_DEBUG_OVERLAP").is_ok() {
                            eprintln!("OVERLAP {} {:?}", scn.name, o.trace.iter().map(|(s, w, p)| format!("{s}:w{w}:{p:?}")).collect::<Vec<_>>());
                        }
                    }
                    cov.hit(format!("{}|{}", scn.name.split('/').next().unwrap(), scn.name.splitn(2, '/').nth(1).unwrap()));
                    let t_or = std::time::Instant::now();
                    let lin = oracle.check(&o);
                    if std::env::var("VERIF_E2_TIMING").is_ok() {
                        eprintln!("O {} oracle {:?}", scn.name, t_or.elapsed());
                    }
                    let choices: Vec<usize> = taken.iter().map(|t| t.0).collect();
                    let rep = json!({"origin": "e2", "case": *si, "scenario": scn.json(), "choices": choices,
                        "observed": {"arguments": o.args, "responses": o.abs, "invoke_steps": o.inv, "return_steps": o.ret, "final_state": o.state},
                        "trace": o.trace.iter().map(|(s, w, p)| format!("{s}:w{w}:{p:?}")).collect::<Vec<_>>()});
                    let errs: Vec<usize> = (0..n).filter(|k| matches!(o.resp[*k], crate::ops::Resp::Error(_))).collect();
                    match lin {
                        Lin::Ok(p) => {
                            cov.count("linearizable_executions", 1);
                            let interesting = overlapped && o.abs.iter().any(|a| a.starts_with("AddOk") || a.starts_with("snap-ok")) && o.abs.iter().any(|a| a.starts_with("Conflict") || a.starts_with("Snap(") || a.starts_with("Found") || a.starts_with("not-found"));
                            let fresh_scn = !cov.samples.iter().any(|s| s["scenario"].as_str() == Some(scn.name.as_str()));
                            if cov.samples.len() < 3 && interesting && fresh_scn {
                                cov.samples.push(json!({"scenario": scn.name, "responses": o.abs, "final_state": o.state, "linearization": format!("{p:?}"), "schedule": o.trace.iter().map(|(_, w, p)| format!("w{w}:{p:?}")).collect::<Vec<_>>()}));
                            }
                        }
                        Lin::RelaxedOnly(p) => {
                            cov.count("explained_only_by_two_step_creation", 1);
                            out.found.push(Found {
                                property: prop.to_string(),
                                msg: format!("scenario {}: responses {:?} with final state [{}] match no one-at-a-time order of the requests, but are explained when add-version for a never-seen client counts as two atomic steps (create client; add version): {p:?}", scn.name, o.abs, o.state),
                                signature: format!("{prop}:relaxed-two-step-create observer={}", scn.name.split('/').next().unwrap()),
                                replay: rep,
                            });
                        }
                        Lin::No => {
                            let what = if !errs.is_empty() {
                                format!("request #{} was answered with a server error merely because another request overlapped it: {}", errs[0], o.resp[errs[0]].short())
                            } else {
                                "no one-at-a-time order of the requests (respecting real-time order) produces these responses and this final state".to_string()
                            };
                            out.found.push(Found {
                                property: prop.to_string(),
                                msg: format!("scenario {}: {what}; responses {:?}; final state [{}]", scn.name, o.abs, o.state),
                                signature: format!("{prop}:not-linearizable {}", scn.name),
                                replay: rep,
                            });
                            out.cov = cov;
                            return out;
                        }
                    }
                }
            }
            if replay_scn.is_some() {
                break;
            }
            if random_phase {
                let nfact: usize = (1..=scn.programs.len()).product();
                if execs >= dfs_done_at.unwrap() + nfact * 9 + n_probe {
                    break;
                }
                continue;
            }
            match next_prefix(&taken) {
                Some(p) if execs < cap => prefix = p,
                Some(_) => dfs_done_at = Some(execs),
                None => {
                    complete = true;
                    dfs_done_at = Some(execs);
                }
            }
        }
        cov.count(if complete { "scenarios_enumerated_completely" } else { "scenarios_capped_then_sampled" }, 1);
        cov.count("sequential_reference_runs", oracle.seq_runs);
    }
    // ---- uncontrolled stress (E2s): OS-chosen interleavings, also inside SQLite and between processes
    if replay.is_none() && prop == "C11" {
        use crate::stress::{self, Mode};
        let plan = [(Mode::LibSqlitePerThread, 8usize, 150usize), (Mode::LibSqliteShared, 8, 150), (Mode::LibMem, 8, 300)];
        for (i, (mode, threads, ops)) in plan.iter().enumerate() {
            if !shard.mine(i + 5) {
                continue;
            }
            let so = stress::run_weighted(*mode, *threads, *ops, seed.wrapping_add(40 + i as u64), false, [20, 5, 35, 40]);
            if let Some(e) = so.error {
                out.errors.push(format!("stress {mode:?}: {e}"));
                continue;
            }
            cov.evaluations += so.recs.len() as u64;
            cov.count("stress_requests", so.recs.len() as u64);
            cov.hit(format!("snapshot-stress|{mode:?}"));
            if let Err(m) = stress::check_snapshots(&so) {
                out.found.push(Found { property: "C11".into(), msg: format!("snapshot-heavy stress {mode:?} ({threads} threads x {ops} requests): {m}"), signature: format!("C11:stress {}", m.split_whitespace().take(6).collect::<Vec<_>>().join(" ")), replay: json!({"origin": "stress", "case": i}) });
                out.cov = cov;
                return out;
            }
        }
    }
    if replay.is_none() && prop == "C03" {
        use crate::stress::{self, Mode};
        const MIXED: [u32; 4] = [50, 20, 15, 15];
        const SNAPSHOTS: [u32; 4] = [20, 5, 35, 40];
        let plan: Vec<(Mode, usize, usize, bool, [u32; 4])> = if thorough {
            let mut v = vec![];
            for rep in 0..5 {
                for m in [Mode::LibMem, Mode::LibSqliteShared, Mode::LibSqlitePerThread, Mode::SocketMem, Mode::TwoProcesses, Mode::SecondProcessJoins] {
                    v.push((m, 8 + (rep % 2) * 4, if m == Mode::LibMem { 600 } else { 150 }, rep % 2 == 1, if rep % 3 == 2 { SNAPSHOTS } else { MIXED }));
                }
            }
            v
        } else {
            vec![
                (Mode::LibSqlitePerThread, 6, 50, true, MIXED),
                (Mode::LibMem, 8, 200, true, MIXED),
                (Mode::SocketMem, 6, 60, false, MIXED),
                (Mode::TwoProcesses, 6, 40, true, MIXED),
                (Mode::SecondProcessJoins, 6, 40, false, MIXED),
                (Mode::SecondProcessJoins, 6, 30, false, [85, 10, 0, 5]),
                (Mode::LibSqlitePerThread, 8, 150, false, SNAPSHOTS),
                (Mode::LibSqliteShared, 8, 150, false, SNAPSHOTS),
                (Mode::LibMem, 8, 300, false, SNAPSHOTS),
            ]
        };
        for (i, (mode, threads, ops, newc, weights)) in plan.iter().enumerate() {
            if !shard.mine(i + 3) {
                continue;
            }
            let so = stress::run_weighted(*mode, *threads, *ops, seed.wrapping_add(i as u64), *newc, *weights);
            if let Some(e) = so.error {
                out.errors.push(format!("stress {mode:?}: {e}"));
                continue;
            }
            cov.evaluations += so.recs.len() as u64;
            cov.count("stress_requests", so.recs.len() as u64);
            cov.count("stress_overlapping_request_pairs", so.overlapping_pairs);
            cov.count("stress_accepted_versions", so.chains.iter().map(|c| c.len() as u64).sum());
            cov.hit(format!("stress|{mode:?}|threads={threads}|new-clients={newc}|{}", if weights[3] > 30 { "snapshot-heavy" } else { "mixed" }));
            if let Err(m) = stress::check(&so, 4_500_000_000) {
                out.found.push(Found {
                    property: "C03".into(),
                    msg: format!("stress {mode:?} ({threads} threads x {ops} requests): {m}"),
                    signature: format!("C03:stress {}", m.split_whitespace().take(8).collect::<Vec<_>>().join(" ")),
                    replay: json!({"origin": "stress", "case": i, "mode": format!("{mode:?}"), "threads": threads, "ops": ops, "note": "uncontrolled interleaving: re-running repeats the workload, not the schedule"}),
                });
                out.cov = cov;
                return out;
            }
        }
    }
    // ---- two uploads of ONE client (both AddVersion on the nil parent) whose bodies arrive
    // interleaved on one server worker: one is accepted, and what is stored is exactly its bytes
    if replay.is_none() && prop == "C03" && shard.mine(2) {
        use crate::ops::Resp;
        for workers in [1usize, 2] {
            let web = taskchampion_sync_server::WebServer::new(crate::subject::Config::default().to_server(), None, taskchampion_sync_server_core::InMemoryStorage::new());
            let Ok(srv) = crate::net::SockServer::start(web, workers) else { continue };
            for (i, (na, nb, abab)) in [(3000usize, 200usize, false), (70_000, 70_000, true), (5, 300_000, false), (200, 3000, true), (3000, 200, true), (300_000, 8, true)].iter().enumerate() {
                let c = uuid::Uuid::new_v4();
                let o = crate::checks_c06::overlapping_version_uploads_pattern(&srv.addr, c, c, *na, *nb, seed ^ (i as u64) << 9, *abab);
                cov.evaluations += 2;
                cov.hit(format!("overlapping-uploads-of-one-client|workers={workers}|{}", if *abab { "A1,B1,A2,B2" } else { "A1,B,A2" }));
                let accepted: Vec<&Vec<u8>> = [(&o.a_up, &o.da), (&o.b_up, &o.db)].iter().filter(|(r, _)| matches!(r, Resp::AddOk { .. })).map(|(_, d)| *d).collect();
                let bad = match (accepted.len(), &o.a_down) {
                    (1, Resp::Found { data, .. }) if data == accepted[0] => None,
                    (1, Resp::Found { data, .. }) => Some(format!("the accepted upload's version is served with {} bytes that differ from what that request sent at offset {:?}", data.len(), crate::ops::first_diff(data, accepted[0]))),
                    (n, d) => Some(format!("{n} of the two uploads on the nil parent were accepted (A: {}, B: {}), first version read back: {}", o.a_up.short(), o.b_up.short(), d.short())),
                };
                if let Some(m) = bad {
                    out.found.push(Found {
                        property: "C03".into(),
                        msg: format!("two AddVersion uploads of one client overlapping on a {workers}-worker server (A {na} bytes in two halves, B {nb} bytes in between): {m}"),
                        signature: "C03:overlapping uploads".into(),
                        replay: json!({"origin": "c03-overlap", "case": i, "workers": workers}),
                    });
                    out.cov = cov;
                    return out;
                }
            }
        }
    }
    // ---- the write lock held by another process for 3.5 s / 2.6 s (within the 5 s budget)
    if replay.is_none() && prop == "C03" && shard.mine(4) {
        if let Some(f) = crate::checks_e1::lock_held_part(&mut cov, "C03") {
            out.found.push(f);
            out.cov = cov;
            return out;
        }
    }
    // ---- a second server process starts on the directory while a request of the first is waiting
    // for the write lock; then both processes get an AddVersion on the same parent
    if replay.map(|r| r["replay"]["origin"] == "second-process-joins").unwrap_or(prop == "C03" && shard.mine(6)) && prop == "C03" {
        if let Some(f) = second_process_joins_part(&mut cov, &mut out.errors) {
            out.found.push(f);
            out.cov = cov;
            return out;
        }
    }
    // ---- a snapshot upload for the version the server already holds a snapshot for, arriving in
    // two halves, with a GetSnapshot of the same client in between (one worker thread)
    if replay.is_none() && prop == "C03" && shard.mine(5) {
        use crate::http::{socket_request, socket_request_two_parts, Framing};
        use crate::ops::{Req, Resp};
        use crate::subject::Subject;
        use std::time::Duration;
        for sqlite in [false, true] {
            let dir = crate::scratch::ScratchDir::new("c03dup");
            let cfg = crate::subject::Config::default().to_server();
            let web = if sqlite {
                match taskchampion_sync_server_storage_sqlite::SqliteStorage::new(dir.path()) {
                    Ok(st) => taskchampion_sync_server::WebServer::new(cfg, None, st),
                    Err(_) => continue,
                }
            } else {
                taskchampion_sync_server::WebServer::new(cfg, None, taskchampion_sync_server_core::InMemoryStorage::new())
            };
            let Ok(srv) = crate::net::SockServer::start(web, 1) else { continue };
            let c = uuid::Uuid::new_v4();
            let to = Duration::from_secs(20);
            let r = socket_request(&srv.addr, &Subject::build_http(c, &Req::AddVersion { parent: uuid::Uuid::nil(), data: b"v1".to_vec() }), Framing::ContentLength, to);
            let Resp::AddOk { vid, .. } = Subject::decode_http(&Req::AddVersion { parent: uuid::Uuid::nil(), data: vec![] }, &r) else { continue };
            let _ = socket_request(&srv.addr, &Subject::build_http(c, &Req::AddSnapshot { vid, data: vec![1u8; 5000] }), Framing::ContentLength, to);
            let dup = Subject::build_http(c, &Req::AddSnapshot { vid, data: vec![2u8; 6000] });
            let mut between_resp = None;
            let addr = srv.addr.clone();
            let t0 = std::time::Instant::now();
            let ra = {
                let mut between = || {
                    between_resp = Some(socket_request(&addr, &Subject::build_http(c, &Req::GetSnapshot), Framing::ContentLength, Duration::from_secs(12)));
                };
                socket_request_two_parts(&srv.addr, &dup, 3000, Duration::from_secs(12), &mut between)
            };
            cov.evaluations += 2;
            cov.hit(format!("duplicate-snapshot-upload-in-two-halves|{}", if sqlite { "sqlite" } else { "mem" }));
            let rb = between_resp.unwrap_or_else(|| crate::http::HttpResp::failed("not sent".into()));
            let bad = |r: &crate::http::HttpResp| r.failure.is_some() || r.status >= 500;
            if bad(&ra) || bad(&rb) {
                out.found.push(Found {
                    property: "C03".into(),
                    msg: format!("a snapshot upload for the version the {} server already holds a snapshot for arrives in two halves and a GetSnapshot of the same client is made in between (one worker): the upload was answered {} and the GetSnapshot {} after {} ms - a request failed or never completed merely because the two overlapped", if sqlite { "SQLite" } else { "in-memory" }, ra.describe(), rb.describe(), t0.elapsed().as_millis()),
                    signature: "C03:duplicate snapshot upload".into(),
                    replay: json!({"origin": "c03-dup-snapshot", "case": sqlite as usize}),
                });
                out.cov = cov;
                return out;
            }
        }
    }
    out.cov = cov;
    out
}

/// Process 1 serves a client; another program holds the write lock for 1.5 s; an AddVersion W
/// (parent = latest) arrives at process 1 and waits; process 2 starts on the same directory; the
/// lock is released and an AddVersion E on the same parent goes to process 2. Exactly one of W and E
/// may be accepted, the other names the winner; the chain has one child of that parent.
fn second_process_joins_part(cov: &mut Cov, errors: &mut Vec<String>) -> Option<Found> {
    use crate::http::{socket_request, Framing};
    use crate::net::{free_port, server_bin, Proc};
    use crate::ops::{Req, Resp};
    use crate::scratch::ScratchDir;
    use crate::subject::Subject;
    use std::time::Duration;
    use uuid::Uuid;
    let Some(bin) = server_bin() else {
        errors.push("server binary not built".into());
        return None;
    };
    for (hold_ms, join_after_ms) in [(1500u64, 300u64), (2500, 900)] {
        let dir = ScratchDir::new("c03join");
        let start = |errors: &mut Vec<String>| -> Option<(Proc, String)> {
            for _ in 0..3 {
                let port = free_port()?;
                let addr = format!("127.0.0.1:{port}");
                if let Ok(p) = Proc::start(&bin, &["--listen".into(), addr.clone(), "--data-dir".into(), dir.path().to_string_lossy().to_string()], &[], &[addr.clone()], Duration::from_secs(20)) {
                    return Some((p, addr));
                }
            }
            errors.push("second-process part: cannot start the server".into());
            None
        };
        let (mut p1, a1) = start(errors)?;
        let to = Duration::from_secs(30);
        let call = |addr: &str, client: Uuid, req: &Req| Subject::decode_http(req, &socket_request(addr, &Subject::build_http(client, req), Framing::ContentLength, to));
        let c = Uuid::new_v4();
        let Resp::AddOk { vid: v1, .. } = call(&a1, c, &Req::AddVersion { parent: Uuid::nil(), data: b"v1".to_vec() }) else { return None };
        let other = rusqlite::Connection::open(crate::subject::db_file(dir.path())).ok()?;
        if other.execute_batch("BEGIN IMMEDIATE;").is_err() {
            continue;
        }
        let a1c = a1.clone();
        let wt = {
            let a = a1c.clone();
            std::thread::spawn(move || {
                let req = Req::AddVersion { parent: v1, data: b"W, sent to the first process".to_vec() };
                Subject::decode_http(&req, &socket_request(&a, &Subject::build_http(c, &req), Framing::ContentLength, Duration::from_secs(30)))
            })
        };
        std::thread::sleep(Duration::from_millis(join_after_ms));
        let second = start(errors);
        let elapsed_hold = hold_ms.saturating_sub(join_after_ms);
        std::thread::sleep(Duration::from_millis(elapsed_hold.min(hold_ms)));
        let _ = other.execute_batch("ROLLBACK;");
        drop(other);
        let Some((mut p2, a2)) = second else {
            p1.kill9();
            return None;
        };
        let e = call(&a2, c, &Req::AddVersion { parent: v1, data: b"E, sent to the second process".to_vec() });
        let w = wt.join().ok()?;
        cov.evaluations += 1;
        cov.hit(format!("second-process-joins|W={}|E={}", w.outcome(), e.outcome()));
        let child = call(&a2, c, &Req::GetChild { parent: v1 });
        let child1 = call(&a1, c, &Req::GetChild { parent: v1 });
        p1.kill9();
        p2.kill9();
        let fail = |m: String| Some(Found { property: "C03".into(), signature: format!("C03:second-process-joins {}", m.split_whitespace().take(5).collect::<Vec<_>>().join(" ")), msg: format!("[two server processes on one directory; the second started while a request of the first was waiting {hold_ms} ms for the write lock] {m}"), replay: json!({"origin": "second-process-joins", "case": 0}) });
        match (&w, &e) {
            (Resp::AddOk { vid: x, .. }, Resp::AddOk { vid: y, .. }) => {
                return fail(format!("two overlapping AddVersion requests on the same parent {v1} were both accepted ({x} by the first process, {y} by the second); the child of {v1} is served as {} / {}", child.short(), child1.short()));
            }
            (Resp::AddOk { vid: x, .. }, Resp::AddConflict { expected }) | (Resp::AddConflict { expected }, Resp::AddOk { vid: x, .. }) => {
                if expected != x {
                    return fail(format!("one request was accepted as {x}; the rejection of the other names {expected}"));
                }
                match (&child, &child1) {
                    (Resp::Found { vid: a, .. }, Resp::Found { vid: b, .. }) if a == x && b == x => {}
                    _ => return fail(format!("{x} was accepted as the child of {v1}, which is served as {} by the second process and {} by the first", child.short(), child1.short())),
                }
            }
            // an error answer (lock wait exhausted) decides nothing here
            _ => {}
        }
    }
    None
}

pub fn finalize(prop: &str, tier: &str, seed: u64, out: ShardOut, is_replay: bool) -> CheckResult {
    let cov = out.cov;
    let n_scn = scenarios(tier, seed).len();
    let c = |k: &str| cov.counters.get(k).copied().unwrap_or(0);
    let coverage = json!({
        "evaluations": cov.evaluations,
        "distinct_nontrivial": cov.traces.len(),
        "rule": "each scenario = 2-3 worker threads with one or two requests each (every pairing of AddVersion/GetChildVersion/AddSnapshot/GetSnapshot with conflicting arguments, triples, two-request programs) x client state {never seen, empty, chain, chain+snapshot} x backend {in-memory, one SQLite object, one SQLite object per worker on one directory} x entry {library, HTTP handlers}. A controller grants one worker at a time at every storage call / transaction begin / request invoke / return. Pass 1: DFS over all choice sequences in which a transaction begins only when no other transaction object is alive (everything exclusive locking permits; complete unless capped). Pass 2: randomly scheduled executions in which a begin is also granted while another transaction is open (right after its begin, before its commit, before its release), exercising the backend's real lock / busy handler; if the begin is not blocked, operation-level interleavings follow. Oracle: some order of the same requests executed one at a time by the same code must give the same responses and final state. distinct_nontrivial = distinct (scenario, schedule trace) pairs executed.",
        "samples": cov.samples,
        "scenarios_planned": n_scn,
        "scenarios_run": out.executed,
        "counters": cov.counters,
        "exhaustive": c("scenarios_capped_then_sampled") == 0,
        "scenario_classes": cov.situations.len(),
    });
    let mut found = out.found;
    // known-finding signatures are matched in main; several executions may report the same one
    found.dedup_by(|a, b| a.signature == b.signature);
    let known = crate::evidence::load_known();
    let only_known = found.iter().all(|f| known.iter().any(|k| k.property == f.property && !k.signature.is_empty() && f.signature.contains(&k.signature)));
    let verdict = if !found.is_empty() && !(only_known && !out.errors.is_empty()) {
        Verdict::Violated(found)
    } else if !out.errors.is_empty() {
        Verdict::Inconclusive(out.errors.join("; "))
    } else if !is_replay && (c("executions_with_overlapping_requests") < 20 || c("lock_wait_probes_blocked") < 5) {
        Verdict::Inconclusive(format!("too little concurrency observed: {} overlapping executions, {} real lock waits", c("executions_with_overlapping_requests"), c("lock_wait_probes_blocked")))
    } else {
        Verdict::Held
    };
    CheckResult {
        verdict,
        coverage,
        assumptions: vec![
            "yield points are the public Storage/StorageTxn calls plus request invoke/return; interleavings inside SQLite are sampled by the stress engine, not enumerated".into(),
            "the sequential reference is the same code executed one request at a time on a fresh storage (differential linearizability)".into(),
            "blocked-thread detection uses a 40 ms timer that only steers exploration; it never decides a verdict".into(),
        ],
        level: "exploration",
        notes: vec![],
    }
}
