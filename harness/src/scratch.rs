//! Scratch directories (created at run time, removed on drop / at exit).

use std::path::{Path, PathBuf};
use std::sync::atomic::{AtomicU64, Ordering};

static COUNTER: AtomicU64 = AtomicU64::new(0);

pub fn root() -> PathBuf {
    if let Ok(r) = std::env::var("VERIF_SCRATCH") {
        return PathBuf::from(r);
    }
    // tmpfs when available (an fsync on the VM's disk costs ~1 ms and the logical checks do not
    // depend on the file system); checks that need a real disk say so themselves
    PathBuf::from(if Path::new("/dev/shm").is_dir() { "/dev/shm" } else { "/tmp" })
}

pub fn base() -> PathBuf {
    let p = match std::env::var("VERIF_SCRATCH_EXACT") {
        Ok(e) => PathBuf::from(e),
        Err(_) => root().join(format!("verif-scratch.{}", std::process::id())),
    };
    let _ = std::fs::create_dir_all(&p);
    p
}

/// Remove this process's scratch base (workers leave that to their parent).
pub fn cleanup_base() {
    if std::env::var("VERIF_SCRATCH_EXACT").is_err() {
        // servers started by workers that were stopped early (a violation was found elsewhere)
        // would outlive the check: every server executable serving a directory under this base goes
        let b = base().to_string_lossy().to_string();
        if let Ok(rd) = std::fs::read_dir("/proc") {
            for e in rd.flatten() {
                let Ok(pid) = e.file_name().to_string_lossy().parse::<i32>() else { continue };
                if pid == std::process::id() as i32 {
                    continue;
                }
                if let Ok(cmd) = std::fs::read(e.path().join("cmdline")) {
                    let cmd = String::from_utf8_lossy(&cmd);
                    if cmd.contains("taskchampion-sync-server") && cmd.contains(&b) {
                        unsafe {
                            libc::kill(pid, libc::SIGKILL);
                        }
                    }
                }
            }
        }
        let _ = std::fs::remove_dir_all(base());
    }
}

/// Remove scratch bases left behind by processes that no longer exist.
pub fn sweep_stale() {
    if let Ok(rd) = std::fs::read_dir(root()) {
        for e in rd.flatten() {
            let name = e.file_name().to_string_lossy().to_string();
            if let Some(pid) = name.strip_prefix("verif-scratch.") {
                if let Ok(pid) = pid.parse::<i32>() {
                    if !Path::new(&format!("/proc/{pid}")).exists() {
                        let _ = std::fs::remove_dir_all(e.path());
                    }
                }
            }
        }
    }
}

pub struct ScratchDir(pub PathBuf);

impl ScratchDir {
    pub fn new(tag: &str) -> Self {
        let n = COUNTER.fetch_add(1, Ordering::SeqCst);
        let p = base().join(format!("{tag}-{n}"));
        let _ = std::fs::remove_dir_all(&p);
        std::fs::create_dir_all(&p).expect("create scratch dir");
        ScratchDir(p)
    }
    pub fn path(&self) -> &Path {
        &self.0
    }
}

impl Drop for ScratchDir {
    fn drop(&mut self) {
        let _ = std::fs::remove_dir_all(&self.0);
    }
}

pub fn copy_dir(from: &Path, to: &Path) -> std::io::Result<()> {
    std::fs::create_dir_all(to)?;
    for e in std::fs::read_dir(from)? {
        let e = e?;
        let ft = e.file_type()?;
        let dst = to.join(e.file_name());
        if ft.is_dir() {
            copy_dir(&e.path(), &dst)?;
        } else if ft.is_file() {
            std::fs::copy(e.path(), dst)?;
        }
    }
    Ok(())
}
