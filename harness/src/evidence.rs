//! Evidence files, replay files, verdicts.

use serde_json::{json, Value};
use std::collections::{BTreeMap, HashSet};
use std::path::PathBuf;

pub fn verif_dir() -> PathBuf {
    PathBuf::from(std::env::var("VERIF_DIR").unwrap_or_else(|_| "/verif".into()))
}

#[derive(Clone, Debug)]
pub struct Found {
    pub property: String,
    pub msg: String,
    pub replay: Value,
    /// signature used to match known findings
    pub signature: String,
}

pub enum Verdict {
    Held,
    Violated(Vec<Found>),
    Inconclusive(String),
}

pub struct CheckResult {
    pub verdict: Verdict,
    pub coverage: Value,
    pub assumptions: Vec<String>,
    pub level: &'static str,
    pub notes: Vec<String>,
}

pub fn write_evidence(id: &str, tier: &str, seed: u64, res: &CheckResult, wall_s: f64, violations: usize, known_printed: &[String]) -> std::io::Result<PathBuf> {
    let dir = verif_dir().join("evidence");
    std::fs::create_dir_all(&dir)?;
    let p = dir.join(format!("{id}.json"));
    let v = json!({
        "property_id": id,
        "tier": tier,
        "seed": seed,
        "level": res.level,
        "coverage": res.coverage,
        "assumptions": res.assumptions,
        "wall_s": (wall_s * 1000.0).round() / 1000.0,
        "violations": violations,
        "verdict": match &res.verdict { Verdict::Held => "held".to_string(), Verdict::Violated(_) if violations == 0 => "held (only recorded known findings were observed)".to_string(), Verdict::Violated(_) => "violated".to_string(), Verdict::Inconclusive(r) => format!("inconclusive: {r}") },
        "known_findings_observed": known_printed,
        "notes": res.notes,
    });
    std::fs::write(&p, serde_json::to_string_pretty(&v).unwrap())?;
    Ok(p)
}

pub fn write_replay(id: &str, seed: u64, n: usize, f: &Found, tier: &str) -> PathBuf {
    let dir = verif_dir().join("replays");
    let _ = std::fs::create_dir_all(&dir);
    let p = dir.join(format!("{id}-{tier}-seed{seed}-{n}.json"));
    let v = json!({"check": id, "tier": tier, "seed": seed, "property": f.property, "message": f.msg, "signature": f.signature, "replay": f.replay});
    let _ = std::fs::write(&p, serde_json::to_string_pretty(&v).unwrap());
    p
}

#[derive(Clone, Debug)]
pub struct Known {
    pub property: String,
    pub signature: String,
    pub what: String,
}

/// Entries of known_findings.jsonl with status "known" (fixed entries suppress nothing).
pub fn load_known() -> Vec<Known> {
    let p = verif_dir().join("known_findings.jsonl");
    let mut out = vec![];
    if let Ok(s) = std::fs::read_to_string(p) {
        for l in s.lines() {
            if let Ok(v) = serde_json::from_str::<Value>(l) {
                if v["status"] == "known" {
                    out.push(Known {
                        property: v["property"].as_str().unwrap_or("").to_string(),
                        signature: v["signature"].as_str().unwrap_or("").to_string(),
                        what: v["what"].as_str().unwrap_or("").to_string(),
                    });
                }
            }
        }
    }
    out
}

/// Minimum-coverage helper: returns an inconclusive reason if a required situation prefix was
/// never observed.
pub fn require(situations: &std::collections::BTreeMap<String, u64>, needles: &[&str]) -> Option<String> {
    for n in needles {
        if !situations.keys().any(|k| k.contains(n)) {
            return Some(format!("required situation never observed: {n}"));
        }
    }
    None
}

#[derive(Default, Clone)]
pub struct Cov {
    pub evaluations: u64,
    pub situations: BTreeMap<String, u64>,
    pub traces: HashSet<u64>,
    pub counters: BTreeMap<String, u64>,
    pub samples: Vec<Value>,
}

impl Cov {
    pub fn hit(&mut self, key: String) {
        *self.situations.entry(key).or_insert(0) += 1;
    }
    pub fn count(&mut self, key: &str, n: u64) {
        *self.counters.entry(key.to_string()).or_insert(0) += n;
    }
    pub fn merge(&mut self, o: Cov) {
        self.evaluations += o.evaluations;
        for (k, v) in o.situations {
            *self.situations.entry(k).or_insert(0) += v;
        }
        for (k, v) in o.counters {
            *self.counters.entry(k).or_insert(0) += v;
        }
        self.traces.extend(o.traces);
        for s in o.samples {
            if self.samples.len() < 6 {
                self.samples.push(s);
            }
        }
    }
}


impl Cov {
    pub fn to_json(&self) -> Value {
        json!({
            "evaluations": self.evaluations,
            "situations": self.situations,
            "traces": self.traces.iter().map(|t| t.to_string()).collect::<Vec<_>>(),
            "counters": self.counters,
            "samples": self.samples,
        })
    }
    pub fn from_json(v: &Value) -> Cov {
        let mut c = Cov::default();
        c.evaluations = v["evaluations"].as_u64().unwrap_or(0);
        if let Some(m) = v["situations"].as_object() {
            for (k, n) in m {
                c.situations.insert(k.clone(), n.as_u64().unwrap_or(0));
            }
        }
        if let Some(m) = v["counters"].as_object() {
            for (k, n) in m {
                c.counters.insert(k.clone(), n.as_u64().unwrap_or(0));
            }
        }
        if let Some(a) = v["traces"].as_array() {
            for t in a {
                if let Some(x) = t.as_str().and_then(|s| s.parse::<u64>().ok()) {
                    c.traces.insert(x);
                }
            }
        }
        if let Some(a) = v["samples"].as_array() {
            c.samples = a.clone();
        }
        c
    }
}

impl Found {
    pub fn to_json(&self) -> Value {
        json!({"property": self.property, "msg": self.msg, "replay": self.replay, "signature": self.signature})
    }
    pub fn from_json(v: &Value) -> Found {
        Found {
            property: v["property"].as_str().unwrap_or("").to_string(),
            msg: v["msg"].as_str().unwrap_or("").to_string(),
            replay: v["replay"].clone(),
            signature: v["signature"].as_str().unwrap_or("").to_string(),
        }
    }
}

/// What one shard (worker process) of a check produced.
#[derive(Default, Clone)]
pub struct ShardOut {
    pub found: Vec<Found>,
    pub cov: Cov,
    pub errors: Vec<String>,
    pub executed: u64,
}

impl ShardOut {
    pub fn to_json(&self) -> Value {
        json!({"found": self.found.iter().map(|f| f.to_json()).collect::<Vec<_>>(), "cov": self.cov.to_json(), "errors": self.errors, "executed": self.executed})
    }
    pub fn from_json(v: &Value) -> ShardOut {
        ShardOut {
            found: v["found"].as_array().map(|a| a.iter().map(Found::from_json).collect()).unwrap_or_default(),
            cov: Cov::from_json(&v["cov"]),
            errors: v["errors"].as_array().map(|a| a.iter().filter_map(|x| x.as_str().map(|s| s.to_string())).collect()).unwrap_or_default(),
            executed: v["executed"].as_u64().unwrap_or(0),
        }
    }
    pub fn merge(&mut self, o: ShardOut) {
        self.found.extend(o.found);
        self.cov.merge(o.cov);
        self.errors.extend(o.errors);
        self.executed += o.executed;
    }
}

#[derive(Clone, Copy, Debug)]
pub struct Shard {
    pub k: usize,
    pub n: usize,
}

impl Shard {
    pub fn mine(&self, i: usize) -> bool {
        i % self.n == self.k
    }
}

pub fn workers() -> usize {
    if let Some(n) = std::env::var("VERIF_WORKERS").ok().and_then(|s| s.parse::<usize>().ok()) {
        return n.max(1);
    }
    let n = std::thread::available_parallelism().map(|n| n.get()).unwrap_or(8);
    // leave a quarter of the cores idle: with every core busy the per-request cost of the
    // SQLite backend rises tenfold on this kind of VM
    (n * 3 / 4).max(1)
}
