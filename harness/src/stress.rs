//! E2s — uncontrolled stress: many threads / processes issue random requests for a few clients;
//! the recorded call/return history is checked per client against order-based consequences of
//! linearizability that are sound for this protocol (accepted versions form one list whose order is
//! readable afterwards from the chain, so almost every operation is pinned to a chain position).

use crate::http::{socket_request, Framing};
use crate::net::{free_port, server_bin, Proc, SockServer};
use crate::ops::{Req, Resp};
use crate::prng::Rng;
use crate::scratch::ScratchDir;
use crate::subject::{lib_exec, Config, Subject};
use crate::wrap::Shared;
use std::collections::HashMap;
use std::sync::{Arc, Mutex};
use std::time::{Duration, Instant};
use taskchampion_sync_server::WebServer;
use taskchampion_sync_server_core::{InMemoryStorage, Server, Storage};
use taskchampion_sync_server_storage_sqlite::SqliteStorage;
use uuid::Uuid;

#[derive(Clone, Debug)]
pub struct Rec {
    pub thread: usize,
    pub client: usize,
    pub req: Req,
    pub resp: Resp,
    pub inv: u128,
    pub ret: u128,
}

#[derive(Clone, Copy, Debug, PartialEq, Eq)]
pub enum Mode {
    LibMem,
    LibSqliteShared,
    LibSqlitePerThread,
    SocketMem,
    TwoProcesses,
    /// as `TwoProcesses`, but the second server process starts on the directory while the first is
    /// already under load (a rolling restart, a second front-end coming up)
    SecondProcessJoins,
}

pub struct StressOut {
    /// final payload of every version on the final chains
    pub payloads: HashMap<Uuid, Vec<u8>>,
    pub recs: Vec<Rec>,
    /// final chains per client as walked after the run: (vid, parent)
    pub chains: Vec<Vec<(Uuid, Uuid)>>,
    pub bases: Vec<Uuid>,
    pub overlapping_pairs: u64,
    pub error: Option<String>,
}

fn payload(t: usize, i: usize) -> Vec<u8> {
    format!("t{t}-op{i}-{}", "p".repeat((t * 7 + i) % 40)).into_bytes()
}

type Exec = Arc<dyn Fn(usize, Uuid, &Req) -> Resp + Send + Sync>;

pub fn run(mode: Mode, threads: usize, ops_per_thread: usize, seed: u64, new_clients: bool) -> StressOut {
    run_weighted(mode, threads, ops_per_thread, seed, new_clients, [50, 20, 15, 15])
}

/// `weights`: AddVersion, GetChildVersion, AddSnapshot, GetSnapshot
pub fn run_weighted(mode: Mode, threads: usize, ops_per_thread: usize, seed: u64, new_clients: bool, weights: [u32; 4]) -> StressOut {
    let clients: Vec<Uuid> = (0..2).map(|i| Rng::new(seed).fork(0x57 + i).uuid()).collect();
    let mut keep: Vec<Box<dyn std::any::Any>> = vec![];
    let cfg = Config { snapshot_days: 14, snapshot_versions: 1000 };
    let mut err = None;
    // ---- build the system under test and an `exec` closure
    let (exec, final_storage): (Exec, Option<Arc<dyn Storage>>) = match mode {
        Mode::LibMem | Mode::LibSqliteShared | Mode::LibSqlitePerThread => {
            // the servers own their storages directly (no wrapper that could hide overridden trait
            // methods); the harness reads the final state through its own handle
            let dir = ScratchDir::new("stress");
            let (servers, handle): (Vec<Arc<Server>>, Arc<dyn Storage>) = match mode {
                Mode::LibMem => {
                    let s = Arc::new(Server::new(cfg.to_server(), InMemoryStorage::new()));
                    (vec![s.clone()], Arc::new(crate::subject::ViaServer(s)))
                }
                Mode::LibSqliteShared => {
                    let s = Arc::new(Server::new(cfg.to_server(), SqliteStorage::new(dir.path()).expect("sqlite")));
                    (vec![s], Arc::new(SqliteStorage::new(dir.path()).expect("sqlite")))
                }
                _ => {
                    let v: Vec<Arc<Server>> = (0..threads).map(|_| Arc::new(Server::new(cfg.to_server(), SqliteStorage::new(dir.path()).expect("sqlite")))).collect();
                    (v, Arc::new(SqliteStorage::new(dir.path()).expect("sqlite")))
                }
            };
            keep.push(Box::new(dir));
            let e: Exec = Arc::new(move |t, c, r| lib_exec(&servers[t % servers.len()], c, r, true));
            (e, Some(handle))
        }
        Mode::SocketMem => {
            let st: Arc<dyn Storage> = Arc::new(InMemoryStorage::new());
            let web = WebServer::new(cfg.to_server(), None, Shared(st.clone()));
            match SockServer::start(web, 6) {
                Ok(s) => {
                    let addr = s.addr.clone();
                    keep.push(Box::new(s));
                    let e: Exec = Arc::new(move |_, c, r| {
                        let h = Subject::build_http(c, r);
                        let resp = socket_request(&addr, &h, Framing::ContentLength, Duration::from_secs(30));
                        Subject::decode_http(r, &resp)
                    });
                    (e, Some(st))
                }
                Err(e) => {
                    err = Some(e);
                    (Arc::new(|_, _, _| Resp::Error("no server".into())), None)
                }
            }
        }
        Mode::SecondProcessJoins => {
            let dir = ScratchDir::new("stress2j");
            let st: Option<Arc<dyn Storage>> = SqliteStorage::new(dir.path()).ok().map(|s| Arc::new(s) as Arc<dyn Storage>);
            let second: Arc<Mutex<Option<(Proc, String)>>> = Arc::new(Mutex::new(None));
            let mut first_addr = None;
            if let (Some(bin), Some(p)) = (server_bin(), free_port()) {
                let a = format!("127.0.0.1:{p}");
                match Proc::start(&bin, &["--listen".into(), a.clone(), "--data-dir".into(), dir.path().to_string_lossy().to_string()], &[], &[a.clone()], Duration::from_secs(20)) {
                    Ok(pr) => {
                        keep.push(Box::new(pr));
                        first_addr = Some(a);
                    }
                    Err(e) => err = Some(e),
                }
                // the second process is started by the first request of an odd thread's tenth
                // operation, i.e. while the other threads keep the first process busy
            } else {
                err = Some("server binary not built".into());
            }
            let dirp = dir.path().to_path_buf();
            keep.push(Box::new(dir));
            keep.push(Box::new(second.clone()));
            match first_addr {
                None => {
                    err = err.or(Some("could not start the first server".into()));
                    (Arc::new(|_, _, _| Resp::Error("no server".into())), None)
                }
                Some(a0) => {
                    let calls = Arc::new(std::sync::atomic::AtomicUsize::new(0));
                    let e: Exec = Arc::new(move |t, c, r| {
                        let n = calls.fetch_add(1, std::sync::atomic::Ordering::SeqCst);
                        if n == 25 {
                            if let (Some(bin), Some(p)) = (server_bin(), free_port()) {
                                let a = format!("127.0.0.1:{p}");
                                if let Ok(pr) = Proc::start(&bin, &["--listen".into(), a.clone(), "--data-dir".into(), dirp.to_string_lossy().to_string()], &[], &[a.clone()], Duration::from_secs(20)) {
                                    *second.lock().unwrap() = Some((pr, a));
                                }
                            }
                        }
                        let addr = if t % 2 == 1 { second.lock().unwrap().as_ref().map(|(_, a)| a.clone()).unwrap_or_else(|| a0.clone()) } else { a0.clone() };
                        let h = Subject::build_http(c, r);
                        let resp = socket_request(&addr, &h, Framing::ContentLength, Duration::from_secs(30));
                        Subject::decode_http(r, &resp)
                    });
                    (e, st)
                }
            }
        }
        Mode::TwoProcesses => {
            let dir = ScratchDir::new("stress2p");
            let mut addrs = vec![];
            if let Some(bin) = server_bin() {
                for _ in 0..2 {
                    if let Some(p) = free_port() {
                        let a = format!("127.0.0.1:{p}");
                        match Proc::start(&bin, &["--listen".into(), a.clone(), "--data-dir".into(), dir.path().to_string_lossy().to_string()], &[], &[a.clone()], Duration::from_secs(20)) {
                            Ok(pr) => {
                                keep.push(Box::new(pr));
                                addrs.push(a);
                            }
                            Err(e) => err = Some(e),
                        }
                    }
                }
            } else {
                err = Some("server binary not built".into());
            }
            let st: Option<Arc<dyn Storage>> = SqliteStorage::new(dir.path()).ok().map(|s| Arc::new(s) as Arc<dyn Storage>);
            keep.push(Box::new(dir));
            if addrs.len() < 2 {
                err = err.or(Some("could not start two servers".into()));
                (Arc::new(|_, _, _| Resp::Error("no server".into())), None)
            } else {
                let e: Exec = Arc::new(move |t, c, r| {
                    let h = Subject::build_http(c, r);
                    let resp = socket_request(&addrs[t % 2], &h, Framing::ContentLength, Duration::from_secs(30));
                    Subject::decode_http(r, &resp)
                });
                (e, st)
            }
        }
    };
    if err.is_some() {
        return StressOut { payloads: HashMap::new(), recs: vec![], chains: vec![], bases: vec![], overlapping_pairs: 0, error: err };
    }
    // pre-create client 0 with a few versions unless the very first requests are the subject
    let latest: Arc<Vec<Mutex<Uuid>>> = Arc::new(clients.iter().map(|_| Mutex::new(Uuid::nil())).collect());
    if !new_clients {
        for (ci, c) in clients.iter().enumerate() {
            for i in 0..2 {
                let p = *latest[ci].lock().unwrap();
                if let Resp::AddOk { vid, .. } = exec(0, *c, &Req::AddVersion { parent: p, data: payload(99, i) }) {
                    *latest[ci].lock().unwrap() = vid;
                }
            }
        }
    }
    let t0 = Instant::now();
    let recs: Arc<Mutex<Vec<Rec>>> = Arc::new(Mutex::new(vec![]));
    let barrier = Arc::new(std::sync::Barrier::new(threads));
    let mut hs = vec![];
    for t in 0..threads {
        let exec = exec.clone();
        let recs = recs.clone();
        let latest = latest.clone();
        let clients = clients.clone();
        let barrier = barrier.clone();
        hs.push(std::thread::spawn(move || {
            let mut rng = Rng::new(seed).fork(0xA000 + t as u64);
            let mut mine = vec![];
            let mut known: Vec<Vec<Uuid>> = vec![vec![], vec![]];
            barrier.wait();
            for i in 0..ops_per_thread {
                let c = if rng.pct(75) { 0 } else { 1 };
                let l = *latest[c].lock().unwrap();
                let req = match rng.weighted(&weights) {
                    0 => Req::AddVersion { parent: l, data: payload(t, i) },
                    1 => {
                        let p = if known[c].is_empty() || rng.pct(40) { l } else { known[c][rng.usize(known[c].len())] };
                        Req::GetChild { parent: p }
                    }
                    2 => Req::AddSnapshot { vid: l, data: payload(t + 1000, i) },
                    _ => Req::GetSnapshot,
                };
                let inv = t0.elapsed().as_nanos();
                let resp = exec(t, clients[c], &req);
                let ret = t0.elapsed().as_nanos();
                match &resp {
                    Resp::AddOk { vid, .. } => {
                        *latest[c].lock().unwrap() = *vid;
                        known[c].push(*vid);
                    }
                    Resp::AddConflict { expected } => {
                        *latest[c].lock().unwrap() = *expected;
                        known[c].push(*expected);
                    }
                    _ => {}
                }
                mine.push(Rec { thread: t, client: c, req, resp, inv, ret });
            }
            recs.lock().unwrap().extend(mine);
        }));
    }
    for h in hs {
        let _ = h.join();
    }
    let mut recs = recs.lock().unwrap().clone();
    recs.sort_by_key(|r| r.inv);
    // final chains (quiescent): walk by parents from the stored latest
    let mut chains = vec![];
    let mut bases = vec![];
    let mut payloads: HashMap<Uuid, Vec<u8>> = HashMap::new();
    if let Some(st) = &final_storage {
        for c in &clients {
            let mut chain = vec![];
            if let Ok(mut t) = st.txn(*c) {
                if let Ok(Some(cl)) = t.get_client() {
                    let mut cur = cl.latest_version_id;
                    while !cur.is_nil() && chain.len() < 100_000 {
                        match t.get_version(cur) {
                            Ok(Some(v)) => {
                                payloads.insert(v.version_id, v.history_segment.clone());
                                chain.push((v.version_id, v.parent_version_id));
                                cur = v.parent_version_id;
                            }
                            _ => break,
                        }
                    }
                }
            }
            chain.reverse();
            bases.push(chain.first().map(|x| x.1).unwrap_or(Uuid::nil()));
            chains.push(chain);
        }
    }
    let mut overlapping = 0u64;
    for i in 0..recs.len() {
        let mut j = i + 1;
        while j < recs.len() && recs[j].inv < recs[i].ret {
            if recs[j].client == recs[i].client {
                overlapping += 1;
            }
            j += 1;
        }
    }
    drop(keep);
    StressOut { payloads, recs, chains, bases, overlapping_pairs: overlapping, error: None }
}

/// Order-based consequences of linearizability; returns the first violated one.
pub fn check(out: &StressOut, lock_budget_ns: u128) -> Result<(), String> {
    for c in 0..out.chains.len() {
        let chain = &out.chains[c];
        let pos: HashMap<Uuid, usize> = chain.iter().enumerate().map(|(i, (v, _))| (*v, i)).collect();
        let recs: Vec<&Rec> = out.recs.iter().filter(|r| r.client == c).collect();
        // invoke / return times of the AddVersion that created each version
        let mut created: HashMap<Uuid, (u128, u128)> = HashMap::new();
        let mut by_parent: HashMap<Uuid, Vec<Uuid>> = HashMap::new();
        let mut uploads: Vec<(Uuid, Vec<u8>, u128)> = vec![];
        for r in &recs {
            if let Resp::Error(e) = &r.resp {
                if r.ret - r.inv < lock_budget_ns {
                    return Err(format!("client #{c}: {} (thread {}) was answered with a server error after {} ms while other requests overlapped: {e}", r.req.name(), r.thread, (r.ret - r.inv) / 1_000_000));
                }
            }
            if let (Req::AddVersion { parent, .. }, Resp::AddOk { vid, .. }) = (&r.req, &r.resp) {
                created.insert(*vid, (r.inv, r.ret));
                by_parent.entry(*parent).or_default().push(*vid);
            }
            if let Req::AddSnapshot { vid, data } = &r.req {
                uploads.push((*vid, data.clone(), r.inv));
            }
        }
        for (p, vs) in &by_parent {
            if vs.len() > 1 {
                return Err(format!("client #{c}: {} AddVersion requests were accepted on the same parent {p}: {vs:?}", vs.len()));
            }
        }
        for (v, _) in &created {
            if !pos.contains_key(v) {
                return Err(format!("client #{c}: accepted version {v} is not on the final chain (orphaned); chain length {}", chain.len()));
            }
        }
        // chain consistency: parents follow the order
        for i in 1..chain.len() {
            if chain[i].1 != chain[i - 1].0 {
                return Err(format!("client #{c}: final chain is not linked at position {i}"));
            }
        }
        for r in &recs {
            match (&r.req, &r.resp) {
                (Req::AddVersion { parent, .. }, Resp::AddOk { vid, .. }) => {
                    let i = pos[vid];
                    if chain[i].1 != *parent {
                        return Err(format!("client #{c}: version {vid} was accepted for parent {parent} but is stored with parent {}", chain[i].1));
                    }
                    // real-time order: everything acknowledged before this request was invoked precedes it
                    for (w, (_, wret)) in &created {
                        if *wret < r.inv && pos.get(w).map(|p| *p > i).unwrap_or(false) {
                            return Err(format!("client #{c}: version {w} was acknowledged before the request that created {vid} was invoked, yet follows it on the chain"));
                        }
                    }
                }
                (Req::AddVersion { .. }, Resp::AddConflict { expected }) => {
                    if expected.is_nil() {
                        return Err(format!("client #{c}: a conflict named the nil version"));
                    }
                    if let Some((einv, _)) = created.get(expected) {
                        if *einv > r.ret {
                            return Err(format!("client #{c}: a conflict named version {expected} before the request creating it was invoked"));
                        }
                    }
                    if let Some(pe) = pos.get(expected) {
                        // versions acknowledged before this request started cannot come after the named latest...
                        for (w, (_, wret)) in &created {
                            if *wret < r.inv && pos.get(w).map(|p| p > pe).unwrap_or(false) {
                                return Err(format!("client #{c}: a conflict named {expected} as the latest although {w}, acknowledged earlier, follows it on the chain"));
                            }
                        }
                    }
                }
                (Req::GetChild { parent }, Resp::Found { vid, parent: p2, .. }) => {
                    if p2 != parent {
                        return Err(format!("client #{c}: GetChildVersion({parent}) returned a version with parent {p2}"));
                    }
                    match pos.get(vid) {
                        Some(i) if chain[*i].1 == *parent => {}
                        _ => return Err(format!("client #{c}: GetChildVersion({parent}) returned {vid}, which is not the child of {parent} on the final chain")),
                    }
                    if let Some((vinv, _)) = created.get(vid) {
                        if *vinv > r.ret {
                            return Err(format!("client #{c}: GetChildVersion returned {vid} before the request creating it was invoked"));
                        }
                    }
                }
                (Req::GetChild { parent }, Resp::NotFound) => {
                    // if the child of `parent` had been acknowledged before this read started, not-found is impossible
                    if let Some(i) = pos.get(parent) {
                        if let Some((child, _)) = chain.get(i + 1) {
                            if let Some((_, cret)) = created.get(child) {
                                if *cret < r.inv {
                                    return Err(format!("client #{c}: GetChildVersion({parent}) answered not-found although its child {child} had been acknowledged before the read was invoked"));
                                }
                            }
                        }
                    }
                }
                (Req::GetSnapshot, Resp::Snap { vid, data }) => {
                    if !uploads.iter().any(|(uv, ud, uinv)| uv == vid && ud == data && *uinv < r.ret) {
                        return Err(format!("client #{c}: GetSnapshot returned (v={vid}, {} bytes) which no AddSnapshot invoked before it uploaded as a pair (torn pair)", data.len()));
                    }
                }
                _ => {}
            }
        }
    }
    Ok(())
}

/// C07 under concurrency: every version whose acceptance was acknowledged is still served, with
/// the parent and payload it was accepted with, when the system is quiescent again.
pub fn check_immutability(out: &StressOut) -> Result<u64, String> {
    let mut n = 0u64;
    for c in 0..out.chains.len() {
        let pos: HashMap<Uuid, usize> = out.chains[c].iter().enumerate().map(|(i, (v, _))| (*v, i)).collect();
        for r in out.recs.iter().filter(|r| r.client == c) {
            if let (Req::AddVersion { parent, data }, Resp::AddOk { vid, .. }) = (&r.req, &r.resp) {
                n += 1;
                match pos.get(vid) {
                    None => return Err(format!("client #{c}: version {vid}, accepted (parent {parent}) while other requests overlapped, is no longer served afterwards (dropped from the chain)")),
                    Some(i) => {
                        if out.chains[c][*i].1 != *parent {
                            return Err(format!("client #{c}: version {vid} was accepted with parent {parent} but is now served with parent {}", out.chains[c][*i].1));
                        }
                        if out.payloads.get(vid) != Some(data) {
                            return Err(format!("client #{c}: version {vid} is now served with a different payload than it was accepted with"));
                        }
                    }
                }
            }
        }
    }
    Ok(n)
}

/// C11 under concurrency: every GetSnapshot answer is one whole uploaded pair (or not-found),
/// never an error and never a mixture.
pub fn check_snapshots(out: &StressOut) -> Result<u64, String> {
    let mut n = 0u64;
    for c in 0..out.chains.len() {
        let mut uploads: Vec<(Uuid, &Vec<u8>, u128)> = vec![];
        for r in out.recs.iter().filter(|r| r.client == c) {
            if let Req::AddSnapshot { vid, data } = &r.req {
                uploads.push((*vid, data, r.inv));
            }
        }
        for r in out.recs.iter().filter(|r| r.client == c) {
            if let Req::GetSnapshot = &r.req {
                n += 1;
                match &r.resp {
                    Resp::Snap { vid, data } => {
                        if !uploads.iter().any(|(uv, ud, uinv)| uv == vid && *ud == data && *uinv < r.ret) {
                            return Err(format!("client #{c}: GetSnapshot returned (v={vid}, {} bytes), a pair that no AddSnapshot invoked before it uploaded (id and bytes from different uploads)", data.len()));
                        }
                    }
                    Resp::Error(e) => return Err(format!("client #{c}: GetSnapshot failed while snapshots were being replaced: {e}")),
                    _ => {}
                }
            }
        }
    }
    Ok(n)
}
